(* Model of the operation-pack <-> git tree codec (entity/dag/operation_pack.go Write / readOperationPack,
   repository/gogit.go StoreTree's sort). Names are lists of code points. *)
From Coq Require Import List NArith Bool Lia.
Import ListNotations.
From GB Require Import Decimal.
Local Open Scope N_scope.

Definition str := list N.

(* "version-", "ops", "edit-clock-", "create-clock-", "extra" *)
Definition s_version : str := [118; 101; 114; 115; 105; 111; 110; 45].
Definition s_ops : str := [111; 112; 115].
Definition s_edit : str := [101; 100; 105; 116; 45; 99; 108; 111; 99; 107; 45].
Definition s_create : str := [99; 114; 101; 97; 116; 101; 45; 99; 108; 111; 99; 107; 45].
Definition s_extra : str := [101; 120; 116; 114; 97].

Record pinfo := { t_version : N; t_edit : N; t_create : N (* 0: absent *); t_extra : bool }.

(* an entry: name, is it a sub-tree *)
Definition entry := (str * bool)%type.

(* operationPack.Write: the entries in the order the code lists them *)
Definition write_entries (p : pinfo) : list entry :=
  [(s_version ++ print_u64 (t_version p), false); (s_ops, false); (s_edit ++ print_u64 (t_edit p), false)] ++
  (if 0 <? t_create p then [(s_create ++ print_u64 (t_create p), false)] else []) ++
  (if t_extra p then [(s_extra, true)] else []).

(* StoreTree sorts by name, a directory name being compared with a trailing '/' *)
Fixpoint str_ltb (a b : str) : bool :=
  match a, b with
  | _, [] => false
  | [], _ :: _ => true
  | x :: a', y :: b' => if x <? y then true else if y <? x then false else str_ltb a' b'
  end.
Definition sort_key (e : entry) : str := if snd e then fst e ++ [47] else fst e.
Definition entry_ltb (a b : entry) : bool := str_ltb (sort_key a) (sort_key b).
Fixpoint einsert (x : entry) (l : list entry) : list entry :=
  match l with [] => [x] | y :: t => if entry_ltb y x then y :: einsert x t else x :: l end.
Definition git_sort (l : list entry) : list entry := fold_right einsert [] l.
Definition store_tree (p : pinfo) : list entry := git_sort (write_entries p).

(* strings.HasPrefix + TrimPrefix *)
Fixpoint strip_prefix (pre s : str) : option str :=
  match pre, s with
  | [], _ => Some s
  | x :: pre', y :: s' => if N.eqb x y then strip_prefix pre' s' else None
  | _ :: _, [] => None
  end.
Fixpoint str_eqb (a b : str) : bool :=
  match a, b with [], [] => true | x :: a', y :: b' => N.eqb x y && str_eqb a' b' | _, _ => false end.

Inductive rres := RErr | ROk (version : N) (has_ops : bool) (edit create : N).

(* first loop: the first entry whose name starts with "version-" *)
Fixpoint find_version (l : list entry) : option (option N) :=   (* None: no such entry; Some None: unparsable / too big *)
  match l with
  | [] => None
  | e :: t => match strip_prefix s_version (fst e) with
              | Some d => Some (match parse_u64 d with Some v => if 4096 <? v then None else Some v | None => None end)
              | None => find_version t
              end
  end.

(* second loop: ops / create clock / edit clock, later entries overwrite earlier ones *)
Fixpoint scan_entries (l : list entry) (has_ops : bool) (edit create : N) : option (bool * N * N) :=
  match l with
  | [] => Some (has_ops, edit, create)
  | e :: t =>
      if str_eqb (fst e) s_ops then scan_entries t true edit create else
      match strip_prefix s_create (fst e) with
      | Some d => match parse_u64 d with Some v => scan_entries t has_ops edit v | None => None end
      | None =>
          match strip_prefix s_edit (fst e) with
          | Some d => match parse_u64 d with Some v => scan_entries t has_ops v create | None => None end
          | None => scan_entries t has_ops edit create
          end
      end
  end.

Definition read_entries (expected : N) (l : list entry) : rres :=
  match find_version l with
  | None => RErr                                   (* unknown format *)
  | Some None => RErr
  | Some (Some v) =>
      if N.eqb v 0 then RErr else if negb (N.eqb v expected) then RErr else
      match scan_entries l false 0 0 with
      | Some (ho, e, c) => ROk v ho e c
      | None => RErr
      end
  end.

(* ---- lemmas ---- *)
Lemma strip_prefix_app pre s : strip_prefix pre (pre ++ s) = Some s.
Proof. induction pre as [|x t IH]; cbn; [reflexivity|]. now rewrite N.eqb_refl. Qed.

Lemma str_eqb_refl a : str_eqb a a = true.
Proof. induction a; cbn; [reflexivity|]. now rewrite N.eqb_refl. Qed.

(* whatever the numbers, the sorted tree is: create clock, edit clock, extra, ops, version *)
Lemma store_tree_shape p :
  store_tree p =
    (if 0 <? t_create p then [(s_create ++ print_u64 (t_create p), false)] else []) ++
    [(s_edit ++ print_u64 (t_edit p), false)] ++
    (if t_extra p then [(s_extra, true)] else []) ++
    [(s_ops, false); (s_version ++ print_u64 (t_version p), false)].
Proof. unfold store_tree, write_entries. destruct (0 <? t_create p), (t_extra p); reflexivity. Qed.

Definition wf_pinfo (expected : N) (p : pinfo) : Prop :=
  t_version p = expected /\ 0 < expected /\ expected <= 4096 /\ t_edit p < 2 ^ 64 /\ t_create p < 2 ^ 64.

Lemma find_version_skip e t : strip_prefix s_version (fst e) = None -> find_version (e :: t) = find_version t.
Proof. intros H. cbn [find_version]. now rewrite H. Qed.

Theorem tree_roundtrip expected p : wf_pinfo expected p ->
  read_entries expected (store_tree p) = ROk (t_version p) true (t_edit p) (t_create p).
Proof.
  intros (Hv & H0 & H4 & He & Hc). rewrite store_tree_shape. unfold read_entries.
  assert (Hver : t_version p < 2 ^ 64).
  { rewrite Hv. change (2 ^ 64) with 18446744073709551616. lia. }
  (* the version entry is found whatever precedes it *)
  assert (FV : find_version ((if 0 <? t_create p then [(s_create ++ print_u64 (t_create p), false)] else []) ++
        [(s_edit ++ print_u64 (t_edit p), false)] ++ (if t_extra p then [(s_extra, true)] else []) ++
        [(s_ops, false); (s_version ++ print_u64 (t_version p), false)]) = Some (Some (t_version p))).
  { assert (F0 : find_version [(s_ops, false); (s_version ++ print_u64 (t_version p), false)] = Some (Some (t_version p))).
    { rewrite find_version_skip by reflexivity. cbn [find_version fst]. rewrite strip_prefix_app, C04_decimal_roundtrip by exact Hver.
      assert (4096 <? t_version p = false) as -> by (apply N.ltb_ge; lia). reflexivity. }
    destruct (0 <? t_create p), (t_extra p); cbn [app];
      repeat (rewrite find_version_skip by reflexivity); exact F0. }
  rewrite FV.
  assert (t_version p =? 0 = false) as -> by (apply N.eqb_neq; lia).
  assert (t_version p =? expected = true) as -> by (apply N.eqb_eq; exact Hv). cbn [negb].
  (* the scan *)
  assert (Sc : forall t ho e c, scan_entries ((s_create ++ print_u64 (t_create p), false) :: t) ho e c = scan_entries t ho e (t_create p)).
  { intros. cbn [scan_entries fst]. replace (str_eqb (s_create ++ print_u64 (t_create p)) s_ops) with false by reflexivity.
    now rewrite strip_prefix_app, C04_decimal_roundtrip by exact Hc. }
  assert (Se : forall t ho e c, scan_entries ((s_edit ++ print_u64 (t_edit p), false) :: t) ho e c = scan_entries t ho (t_edit p) c).
  { intros. cbn [scan_entries fst]. replace (str_eqb (s_edit ++ print_u64 (t_edit p)) s_ops) with false by reflexivity.
    replace (strip_prefix s_create (s_edit ++ print_u64 (t_edit p))) with (@None str) by reflexivity.
    now rewrite strip_prefix_app, C04_decimal_roundtrip by exact He. }
  assert (Sx : forall t ho e c, scan_entries ((s_extra, true) :: t) ho e c = scan_entries t ho e c) by reflexivity.
  assert (So : forall ho e c, scan_entries [(s_ops, false); (s_version ++ print_u64 (t_version p), false)] ho e c = Some (true, e, c)) by reflexivity.
  destruct (0 <? t_create p) eqn:Ecr, (t_extra p); cbn [app]; rewrite ?Sc, ?Se, ?Sx, So; try reflexivity;
    apply N.ltb_ge in Ecr; replace (t_create p) with 0 by lia; reflexivity.
Qed.

(* the tree git-bug stores is sorted by git's rule with pairwise distinct names *)
Fixpoint sorted_strict (l : list entry) : bool :=
  match l with a :: ((b :: _) as t) => entry_ltb a b && sorted_strict t | _ => true end.

Lemma store_tree_sorted p : sorted_strict (store_tree p) = true.
Proof. rewrite store_tree_shape. destruct (0 <? t_create p), (t_extra p); reflexivity. Qed.
