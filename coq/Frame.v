(* C15 — frame model: what git-bug writes into a host repository.

   A repository is (refs, HEAD, index, work tree, config, objects, other files of the git directory
   incl. .git/git-bug).  Every git-bug action is compiled to the primitive writes it issues
   (repository/gogit.go: UpdateRef/RemoveRef/CopyRef, StoreData/StoreTree/StoreCommit;
   repository/gogit_config.go: StoreString/RemoveAll; repository/localstorage_billy.go).
   Ref names are built as text ("refs/%s/%s", "refs/remotes/%s/%s/%s") and resolved the way the
   reference store of go-git does it: the name is a path below the git directory, split on '/',
   '.' and '' components dropped, '..' going up (go-billy's chroot refuses paths that leave the root).
   Text = list of code points. *)
From Coq Require Import List Arith NArith Lia Bool String Ascii Sorting.Sorted Sorting.Permutation.
Import ListNotations.
From GB Require Import Decimal.
Local Open Scope N_scope.

Definition str := list N.
Definition lit (s : string) : str := map (fun a => N.of_nat (nat_of_ascii a)) (list_ascii_of_string s).

(* ------------------------------------------------------------------ text *)

Fixpoint str_eqb (a b : str) : bool :=
  match a, b with
  | [], [] => true
  | x :: a', y :: b' => N.eqb x y && str_eqb a' b'
  | _, _ => false
  end.

Lemma str_eqb_eq a : forall b, str_eqb a b = true <-> a = b.
Proof. induction a as [|x a IH]; intros [|y b]; cbn; split; try congruence; try discriminate.
  - intros H. apply andb_true_iff in H as [H1 H2]. apply N.eqb_eq in H1. apply IH in H2. congruence.
  - intros H. injection H as -> ->. rewrite N.eqb_refl. now apply IH. Qed.
Lemma str_eqb_refl a : str_eqb a a = true. Proof. now apply str_eqb_eq. Qed.
Lemma str_eqb_neq a b : str_eqb a b = false <-> a <> b.
Proof. split; intros H.
  - intros E. apply str_eqb_eq in E. congruence.
  - destruct (str_eqb a b) eqn:E; [apply str_eqb_eq in E; contradiction|reflexivity]. Qed.

Fixpoint path_eqb (a b : list str) : bool :=
  match a, b with
  | [], [] => true
  | x :: a', y :: b' => str_eqb x y && path_eqb a' b'
  | _, _ => false
  end.
Lemma path_eqb_eq a : forall b, path_eqb a b = true <-> a = b.
Proof. induction a as [|x a IH]; intros [|y b]; cbn; split; try congruence; try discriminate.
  - intros H. apply andb_true_iff in H as [H1 H2]. apply str_eqb_eq in H1. apply IH in H2. congruence.
  - intros H. injection H as -> ->. rewrite str_eqb_refl. now apply IH. Qed.
Lemma path_eqb_refl a : path_eqb a a = true. Proof. now apply path_eqb_eq. Qed.

Fixpoint prefixb {A} (eqb : A -> A -> bool) (p l : list A) : bool :=
  match p, l with
  | [], _ => true
  | x :: p', y :: l' => eqb x y && prefixb eqb p' l'
  | _ :: _, [] => false
  end.

Lemma prefixb_app {A} (eqb : A -> A -> bool) (R : forall x, eqb x x = true) p l : prefixb eqb p (p ++ l) = true.
Proof. induction p; cbn; [reflexivity|]. now rewrite R, IHp. Qed.

Definition slash : N := 47.
Definition dot : N := 46.

(* strings.Split(l, sep) *)
Fixpoint split (sep : N) (l : str) : list str :=
  match l with
  | [] => [[]]
  | c :: t => if c =? sep then [] :: split sep t
              else match split sep t with h :: r => (c :: h) :: r | [] => [[c]] end
  end.

Lemma split_nonempty sep l : split sep l <> [].
Proof. destruct l as [|c t]; cbn; [discriminate|]. destruct (c =? sep); [discriminate|]. destruct (split sep t); discriminate. Qed.

Lemma split_app_sep sep a b : split sep (a ++ sep :: b) = split sep a ++ split sep b.
Proof. induction a as [|c t IH]; cbn.
  - now rewrite N.eqb_refl.
  - destruct (c =? sep); [now rewrite IH|]. rewrite IH.
    destruct (split sep t) as [|h r] eqn:E; [now apply split_nonempty in E|reflexivity]. Qed.

Lemma split_nosep sep l : ~ In sep l -> split sep l = [l].
Proof. induction l as [|c t IH]; cbn; intros H; [reflexivity|].
  destruct (N.eqb_spec c sep) as [->|_]; [exfalso; apply H; now left|].
  rewrite IH; [reflexivity|]. intros X. apply H. now right. Qed.

(* ------------------------------------------------------------------ path resolution *)

Definition s_dot : str := [dot].
Definition s_dotdot : str := [dot; dot].

(* a component that names a directory entry *)
Definition plainb (c : str) : bool := negb (str_eqb c []) && negb (str_eqb c s_dot) && negb (str_eqb c s_dotdot).

(* filepath.Clean below a root; None = the path leaves the root (billy: ErrCrossedBoundary) *)
Fixpoint clean_acc (stack : list str) (cs : list str) : option (list str) :=
  match cs with
  | [] => Some (rev stack)
  | c :: t => if str_eqb c [] || str_eqb c s_dot then clean_acc stack t
              else if str_eqb c s_dotdot then match stack with [] => None | _ :: s => clean_acc s t end
              else clean_acc (c :: stack) t
  end.
Definition clean (cs : list str) : option (list str) := clean_acc [] cs.

Lemma clean_acc_plain cs : forall stack, forallb plainb cs = true -> clean_acc stack cs = Some (rev stack ++ cs).
Proof. induction cs as [|c t IH]; intros stack H; cbn.
  - now rewrite app_nil_r.
  - cbn in H. apply andb_true_iff in H as [Hc Ht]. unfold plainb in Hc.
    apply andb_true_iff in Hc as [Hc H3]. apply andb_true_iff in Hc as [H1 H2].
    apply negb_true_iff in H1, H2, H3. rewrite H1, H2, H3. cbn.
    rewrite IH by exact Ht. cbn. now rewrite <- app_assoc. Qed.

Lemma clean_plain cs : forallb plainb cs = true -> clean cs = Some cs.
Proof. intros H. unfold clean. now rewrite clean_acc_plain. Qed.

(* the location, below the git directory, that a reference name designates *)
Definition resolve (name : str) : option (list str) := clean (split slash name).

(* ------------------------------------------------------------------ git-bug's namespaces *)

Definition s_refs : str := Eval vm_compute in lit "refs".
Definition s_remotes : str := Eval vm_compute in lit "remotes".
Definition s_bugs : str := Eval vm_compute in lit "bugs".
Definition s_identities : str := Eval vm_compute in lit "identities".
Definition s_gitbug : str := Eval vm_compute in lit "git-bug".

Inductive ns := Bugs | Identities.
Definition ns_str (n : ns) : str := match n with Bugs => s_bugs | Identities => s_identities end.
Definition is_ns (c : str) : bool := str_eqb c s_bugs || str_eqb c s_identities.

Definition nonempty {A} (l : list A) : bool := match l with [] => false | _ => true end.

Fixpoint ns_then_more (l : list str) : bool :=
  match l with [] => false | c :: t => (is_ns c && nonempty t) || ns_then_more t end.

(* refs/{bugs,identities}/<something>  or  refs/remotes/<remote...>/{bugs,identities}/<something> *)
Definition in_ns (p : list str) : bool :=
  match p with
  | r :: x :: rest =>
      str_eqb r s_refs &&
      ((is_ns x && nonempty rest) ||
       (str_eqb x s_remotes && match rest with [] => false | _ :: rest' => ns_then_more rest' end))
  | _ => false
  end.

(* entity/id.go Validate: 64 characters out of [a-z0-9] *)
Definition id_char (c : N) : bool := ((97 <=? c) && (c <=? 122)) || ((48 <=? c) && (c <=? 57)).
Definition valid_id (l : str) : bool := Nat.eqb (List.length l) 64 && forallb id_char l.

(* what git itself guarantees of a reference name or a remote name (check-ref-format): non-empty
   components, none of them "." or ".." *)
Definition tail_okb (t : str) : bool := forallb plainb (split slash t).

(* fmt.Sprintf("refs/%s/%s", ns, id) and fmt.Sprintf("refs/remotes/%s/%s/%s", remote, ns, id) *)
Definition ref_local (n : ns) (id : str) : str := s_refs ++ slash :: ns_str n ++ slash :: id.
Definition ref_remote (remote : str) (n : ns) (id : str) : str :=
  s_refs ++ slash :: s_remotes ++ slash :: remote ++ slash :: ns_str n ++ slash :: id.

Lemma id_char_not_sep c : id_char c = true -> c <> slash /\ c <> dot.
Proof. unfold id_char, slash, dot. intros H. apply orb_true_iff in H as [H|H]; apply andb_true_iff in H as [H1 H2];
  apply N.leb_le in H1, H2; lia. Qed.

Lemma valid_id_tail id : valid_id id = true -> split slash id = [id] /\ plainb id = true.
Proof. unfold valid_id. intros H. apply andb_true_iff in H as [HL HC]. apply Nat.eqb_eq in HL. split.
  - apply split_nosep. intros I. rewrite forallb_forall in HC. apply HC in I. apply id_char_not_sep in I. tauto.
  - destruct id as [|a [|b [|c t]]]; cbn in HL; try discriminate.
    unfold plainb, s_dot, s_dotdot. cbn [str_eqb]. rewrite !andb_false_r. reflexivity. Qed.

Lemma valid_id_tail_ok id : valid_id id = true -> tail_okb id = true.
Proof. intros H. destruct (valid_id_tail id H) as [E P]. unfold tail_okb. rewrite E. cbn. now rewrite P. Qed.

Lemma split_ns n : split slash (ns_str n) = [ns_str n]. Proof. now destruct n. Qed.
Lemma is_ns_ns n : is_ns (ns_str n) = true. Proof. now destruct n. Qed.
Lemma plain_ns n : plainb (ns_str n) = true. Proof. now destruct n. Qed.

Lemma ns_then_more_app a n b : nonempty b = true -> ns_then_more (a ++ ns_str n :: b) = true.
Proof. intros H. induction a as [|c t IH]; cbn.
  - now rewrite is_ns_ns, H.
  - rewrite IH. apply orb_true_r. Qed.

Lemma nonempty_split sep l : nonempty (split sep l) = true.
Proof. destruct (split sep l) eqn:E; [now apply split_nonempty in E|reflexivity]. Qed.

(* every local reference name built from a well-formed tail designates a location inside the namespace *)
Lemma ref_local_in_ns n t : tail_okb t = true ->
  resolve (ref_local n t) = Some (s_refs :: ns_str n :: split slash t) /\ in_ns (s_refs :: ns_str n :: split slash t) = true.
Proof. intros H. unfold resolve, ref_local. rewrite split_app_sep, split_app_sep, split_ns.
  change (split slash s_refs) with [s_refs]. cbn [app]. split.
  - apply clean_plain. cbn [forallb]. rewrite plain_ns. exact H.
  - cbn [in_ns]. rewrite str_eqb_refl, is_ns_ns, nonempty_split. reflexivity. Qed.

Lemma ref_remote_in_ns r n t : tail_okb r = true -> tail_okb t = true ->
  resolve (ref_remote r n t) = Some (s_refs :: s_remotes :: split slash r ++ ns_str n :: split slash t) /\
  in_ns (s_refs :: s_remotes :: split slash r ++ ns_str n :: split slash t) = true.
Proof. intros Hr Ht. unfold resolve, ref_remote. rewrite !split_app_sep, split_ns.
  change (split slash s_refs) with [s_refs]. change (split slash s_remotes) with [s_remotes]. cbn [app]. split.
  - apply clean_plain. cbn [forallb]. change (plainb s_refs) with true. change (plainb s_remotes) with true. cbn [andb].
    rewrite forallb_app. unfold tail_okb in Hr, Ht. rewrite Hr. cbn [forallb andb]. now rewrite plain_ns, Ht.
  - cbn [in_ns]. rewrite str_eqb_refl. change (is_ns s_remotes) with false. cbn [andb orb]. rewrite str_eqb_refl. cbn [andb].
    destruct (split slash r) as [|r1 rr] eqn:E; [now apply split_nonempty in E|]. cbn [app].
    apply ns_then_more_app. apply nonempty_split. Qed.

(* ------------------------------------------------------------------ configuration keys *)

(* the section of "section.sub.section.option" is what precedes the first '.' (gogit_config.go: split[0]) *)
Definition section_of (key : str) : str := hd [] (split dot key).
Definition gb_key (key : str) : bool := str_eqb (section_of key) s_gitbug.

Definition identity_key : str := Eval vm_compute in lit "git-bug.identity".
Definition s_bridge : str := Eval vm_compute in lit "bridge".
(* fmt.Sprintf("git-bug.bridge.%s.%s", name, key) *)
Definition bridge_key (name k : str) : str := s_gitbug ++ dot :: s_bridge ++ dot :: name ++ dot :: k.
(* fmt.Sprintf("git-bug.bridge.%s", name) *)
Definition bridge_prefix (name : str) : str := s_gitbug ++ dot :: s_bridge ++ dot :: name.

Lemma section_of_gitbug rest : section_of (s_gitbug ++ dot :: rest) = s_gitbug.
Proof. unfold section_of. rewrite split_app_sep. reflexivity. Qed.

Lemma gb_key_bridge name k : gb_key (bridge_key name k) = true.
Proof. unfold gb_key, bridge_key. rewrite section_of_gitbug. apply str_eqb_refl. Qed.
Lemma gb_key_bridge_prefix name : gb_key (bridge_prefix name) = true.
Proof. unfold gb_key, bridge_prefix. rewrite section_of_gitbug. apply str_eqb_refl. Qed.
Lemma gb_key_identity : gb_key identity_key = true. Proof. reflexivity. Qed.

(* RemoveAll(prefix) removes the key itself or everything below it *)
Definition cfg_below (prefix key : str) : bool := str_eqb key prefix || prefixb N.eqb (prefix ++ [dot]) key.

Lemma hd_split_cons c l : c <> dot -> hd [] (split dot (c :: l)) = c :: hd [] (split dot l).
Proof. intros H. cbn [split]. destruct (N.eqb_spec c dot); [contradiction|].
  destruct (split dot l) as [|h r] eqn:E; [now apply split_nonempty in E|reflexivity]. Qed.

Lemma prefix_dot_hd p : forall key, prefixb N.eqb (p ++ [dot]) key = true -> section_of key = section_of p.
Proof. unfold section_of. induction p as [|c p IH]; intros key H.
  - destruct key as [|k key]; cbn [prefixb app] in H; [discriminate|]. apply andb_true_iff in H as [H _].
    apply N.eqb_eq in H. subst k. cbn [split]. rewrite N.eqb_refl. reflexivity.
  - destruct key as [|k key]; cbn [prefixb app] in H; [discriminate|]. apply andb_true_iff in H as [H1 H2].
    apply N.eqb_eq in H1. subst k. destruct (N.eq_dec c dot) as [->|Hc].
    + cbn [split]. rewrite N.eqb_refl. reflexivity.
    + rewrite !hd_split_cons by exact Hc. f_equal. now apply IH. Qed.

(* a prefix inside git-bug's section only reaches keys of that section *)
Lemma cfg_below_gb prefix key : gb_key prefix = true -> cfg_below prefix key = true -> gb_key key = true.
Proof. unfold cfg_below, gb_key. intros Hp H. apply orb_true_iff in H as [H|H].
  - apply str_eqb_eq in H. now subst.
  - now rewrite (prefix_dot_hd prefix key H). Qed.

(* ------------------------------------------------------------------ trees *)

Record entry := mkentry { e_dir : bool; e_name : str; e_hash : N }.

(* byte-wise comparison of names (Go's string <, git's memcmp) *)
Fixpoint lex_leb (a b : str) : bool :=
  match a, b with
  | [], _ => true
  | _ :: _, [] => false
  | x :: a', y :: b' => if x <? y then true else if y <? x then false else lex_leb a' b'
  end.

Lemma lex_leb_refl a : lex_leb a a = true.
Proof. induction a; cbn; [reflexivity|]. now rewrite N.ltb_irrefl. Qed.
Lemma lex_leb_total a : forall b, lex_leb a b = true \/ lex_leb b a = true.
Proof. induction a as [|x a IH]; intros [|y b]; cbn; auto.
  destruct (N.ltb_spec x y); [auto|]. destruct (N.ltb_spec y x); [auto|]. apply IH. Qed.
Lemma lex_leb_antisym a : forall b, lex_leb a b = true -> lex_leb b a = true -> a = b.
Proof. induction a as [|x a IH]; intros [|y b]; cbn; try congruence.
  destruct (N.ltb_spec x y); destruct (N.ltb_spec y x); try discriminate; try lia.
  intros H1 H2. assert (x = y) by lia. subst. f_equal. now apply IH. Qed.
Lemma lex_leb_trans a : forall b c, lex_leb a b = true -> lex_leb b c = true -> lex_leb a c = true.
Proof. induction a as [|x a IH]; intros [|y b] [|z c]; cbn; try congruence.
  destruct (N.ltb_spec x y); destruct (N.ltb_spec y z); destruct (N.ltb_spec x z); try reflexivity; try lia;
  destruct (N.ltb_spec y x); destruct (N.ltb_spec z y); destruct (N.ltb_spec z x); try discriminate; try lia.
  apply IH. Qed.

(* git orders tree entries as if directory names ended in '/' *)
Definition ekey (e : entry) : str := if e_dir e then e_name e ++ [slash] else e_name e.
Definition ele (a b : entry) : bool := lex_leb (ekey a) (ekey b).
Definition elt (a b : entry) : bool := ele a b && negb (str_eqb (ekey a) (ekey b)).

Fixpoint insert (x : entry) (l : list entry) : list entry :=
  match l with [] => [x] | y :: t => if ele x y then x :: y :: t else y :: insert x t end.
(* repository/gogit.go StoreTree: sort.Slice by (name, or name + "/" for trees), then encode in that order *)
Definition store_tree (l : list entry) : list entry := fold_right insert [] l.

Lemma insert_perm x l : Permutation (x :: l) (insert x l).
Proof. induction l as [|y t IH]; cbn; [reflexivity|]. destruct (ele x y); [reflexivity|].
  rewrite perm_swap. now apply perm_skip. Qed.
Lemma store_tree_perm l : Permutation l (store_tree l).
Proof. induction l as [|x t IH]; cbn; [constructor|]. rewrite <- insert_perm. now apply perm_skip. Qed.

Definition sorted_le := StronglySorted (fun a b => ele a b = true).
Definition sorted_lt := StronglySorted (fun a b => elt a b = true).

Lemma insert_sorted x l : sorted_le l -> sorted_le (insert x l).
Proof. induction 1 as [|y t Ht IH Hy]; cbn.
  - constructor; constructor.
  - destruct (ele x y) eqn:E.
    + constructor; [constructor; assumption|]. constructor; [exact E|].
      rewrite Forall_forall in *. intros z Hz. unfold ele in *. eapply lex_leb_trans; [exact E|]. now apply Hy.
    + constructor; [exact IH|]. rewrite Forall_forall in *. intros z Hz.
      apply (Permutation_in _ (Permutation_sym (insert_perm x t))) in Hz. destruct Hz as [<-|Hz]; [|now apply Hy].
      unfold ele in *. destruct (lex_leb_total (ekey x) (ekey y)); congruence. Qed.
Lemma store_tree_sorted_le l : sorted_le (store_tree l).
Proof. induction l; cbn; [constructor|]. now apply insert_sorted. Qed.

Lemma sorted_le_lt l : sorted_le l -> NoDup (map ekey l) -> sorted_lt l.
Proof. induction 1 as [|x t Ht IH Hx]; intros ND; [constructor|]. cbn in ND. inversion ND as [|? ? Hnin ND']; subst.
  constructor; [now apply IH|]. rewrite Forall_forall in *. intros y Hy. unfold elt. rewrite (Hx y Hy). cbn.
  apply negb_true_iff, str_eqb_neq. intros E. apply Hnin. rewrite E. now apply in_map. Qed.

(* what git fsck demands of a tree: strictly ascending in git's order, no two entries of the same name,
   every name non-empty, without '/', and none of ".", "..", ".git" *)
Definition s_dotgit : str := Eval vm_compute in lit ".git".
Definition name_okb (n : str) : bool :=
  plainb n && negb (existsb (N.eqb slash) n) && negb (existsb (N.eqb 0) n) && negb (str_eqb n s_dotgit).
Definition git_tree_ok (l : list entry) : Prop :=
  sorted_lt l /\ NoDup (map e_name l) /\ Forall (fun e => name_okb (e_name e) = true) l.

Lemma store_tree_ok l : NoDup (map ekey l) -> NoDup (map e_name l) -> Forall (fun e => name_okb (e_name e) = true) l ->
  git_tree_ok (store_tree l).
Proof. intros K Nn F. pose proof (store_tree_perm l) as P. repeat split.
  - apply sorted_le_lt; [apply store_tree_sorted_le|]. eapply Permutation_NoDup; [|exact K]. now apply Permutation_map.
  - eapply Permutation_NoDup; [|exact Nn]. now apply Permutation_map.
  - eapply Permutation_Forall; eauto. Qed.

(* boolean form, used on the implementation's trees by the correspondence check *)
Fixpoint sorted_ltb (l : list entry) : bool :=
  match l with
  | [] => true
  | x :: t => forallb (elt x) t && sorted_ltb t
  end.
Fixpoint nodupb (l : list str) : bool :=
  match l with [] => true | x :: t => negb (existsb (str_eqb x) t) && nodupb t end.
Definition git_tree_okb (l : list entry) : bool :=
  sorted_ltb l && nodupb (map e_name l) && forallb (fun e => name_okb (e_name e)) l.

(* fmt.Sprintf("%d", n) for any n *)
Definition dec (n : N) : str := digits (S (N.to_nat (N.log2 n))) n.

Arguments dec : simpl never.

Lemma dec_spec n : dec n <> [] /\ forallb is_digit (dec n) = true /\ value (dec n) = n.
Proof. unfold dec. apply digits_spec; [|lia].
  rewrite Nat2N.inj_succ, N2Nat.id. destruct (N.eq_dec n 0) as [->|Hn]; [reflexivity|].
  assert (P : 0 < n) by lia. pose proof (N.log2_spec n P) as [_ H].
  eapply N.lt_le_trans; [exact H|]. apply N.pow_le_mono_l. lia. Qed.
Lemma dec_inj a b : dec a = dec b -> a = b.
Proof. intros H. destruct (dec_spec a) as (_ & _ & Ha). destruct (dec_spec b) as (_ & _ & Hb). congruence. Qed.
Lemma is_digit_not_sep c : is_digit c = true -> c <> slash /\ c <> 0 /\ c <> dot.
Proof. unfold is_digit, slash, dot. intros H. apply andb_true_iff in H as [H1 H2]. apply N.leb_le in H1, H2. lia. Qed.

(* the trees git-bug builds (entity/dag/operation_pack.go Write, makeExtraTree; entities/identity/identity.go Commit) *)
Definition s_version_ : str := Eval vm_compute in lit "version-".
Definition s_ops : str := Eval vm_compute in lit "ops".
Definition s_edit_ : str := Eval vm_compute in lit "edit-clock-".
Definition s_create_ : str := Eval vm_compute in lit "create-clock-".
Definition s_extra : str := Eval vm_compute in lit "extra".
Definition s_file : str := Eval vm_compute in lit "file".
Definition s_version : str := Eval vm_compute in lit "version".

Record packspec := mkpack {
  ps_version : N;      (* def.FormatVersion *)
  ps_edit : N;         (* edit lamport time *)
  ps_create : N;       (* creation lamport time, 0 = none *)
  ps_nfiles : nat;     (* number of distinct attached files *)
  ps_blob : N; ps_empty : N; ps_files : N; ps_extra : N  (* object ids: ops blob, empty blob, (any) attached blob, extra tree *)
}.

Definition extra_tree (p : packspec) : list entry :=
  map (fun i => mkentry false (s_file ++ dec (N.of_nat i)) (ps_files p)) (seq 0 (ps_nfiles p)).

Definition pack_tree (p : packspec) : list entry :=
  [ mkentry false (s_version_ ++ dec (ps_version p)) (ps_empty p);
    mkentry false s_ops (ps_blob p);
    mkentry false (s_edit_ ++ dec (ps_edit p)) (ps_empty p) ] ++
  (if ps_create p =? 0 then [] else [mkentry false (s_create_ ++ dec (ps_create p)) (ps_empty p)]) ++
  (match ps_nfiles p with O => [] | _ => [mkentry true s_extra (ps_extra p)] end).

Definition identity_tree (blob : N) : list entry := [mkentry false s_version blob].

Lemma digits_name_ok a b t n : name_okb (a :: b :: t) = true -> a <> dot -> name_okb ((a :: b :: t) ++ dec n) = true.
Proof. intros Hp Ha. destruct (dec_spec n) as (Hne & Hd & _).
  unfold name_okb in *. apply andb_true_iff in Hp as [Hp H4]. apply andb_true_iff in Hp as [Hp H3]. apply andb_true_iff in Hp as [H1 H2].
  assert (D : forall c, In c (dec n) -> c <> slash /\ c <> 0 /\ c <> dot).
  { intros c Hc. rewrite forallb_forall in Hd. apply is_digit_not_sep. now apply Hd. }
  assert (Ea : (a =? dot) = false) by now apply N.eqb_neq.
  assert (P1 : plainb ((a :: b :: t) ++ dec n) = true).
  { unfold plainb, s_dot, s_dotdot. cbn [app str_eqb]. rewrite Ea. reflexivity. }
  assert (P2 : negb (existsb (N.eqb slash) ((a :: b :: t) ++ dec n)) = true).
  { apply negb_true_iff. apply negb_true_iff in H2. rewrite existsb_app, H2. cbn [orb].
    destruct (existsb (N.eqb slash) (dec n)) eqn:E; [|reflexivity]. apply existsb_exists in E as (c & Hc & Ec).
    apply N.eqb_eq in Ec. subst c. destruct (D _ Hc). congruence. }
  assert (P3 : negb (existsb (N.eqb 0) ((a :: b :: t) ++ dec n)) = true).
  { apply negb_true_iff. apply negb_true_iff in H3. rewrite existsb_app, H3. cbn [orb].
    destruct (existsb (N.eqb 0) (dec n)) eqn:E; [|reflexivity]. apply existsb_exists in E as (c & Hc & Ec).
    apply N.eqb_eq in Ec. subst c. destruct (D _ Hc) as (_ & X & _). congruence. }
  assert (P4 : negb (str_eqb ((a :: b :: t) ++ dec n) s_dotgit) = true).
  { unfold s_dotgit. cbn [app str_eqb]. change 46 with dot. rewrite Ea. reflexivity. }
  now rewrite P1, P2, P3, P4. Qed.

Lemma extra_names_nodup p : NoDup (map e_name (extra_tree p)).
Proof. unfold extra_tree. rewrite map_map. apply FinFun.Injective_map_NoDup; [|apply seq_NoDup].
  intros i j H. cbn [e_name] in H. apply app_inv_head in H. apply dec_inj in H. lia. Qed.

Lemma extra_tree_ok p : git_tree_ok (store_tree (extra_tree p)).
Proof. apply store_tree_ok.
  - replace (map ekey (extra_tree p)) with (map e_name (extra_tree p)); [apply extra_names_nodup|].
    unfold extra_tree. rewrite !map_map. reflexivity.
  - apply extra_names_nodup.
  - unfold extra_tree. rewrite Forall_map. apply Forall_forall. intros i _. cbn [e_name].
    unfold s_file. apply digits_name_ok; [reflexivity|discriminate]. Qed.

(* the five kinds of names differ in their first two characters, whatever the numbers are *)
Lemma pack_tree_ok p : git_tree_ok (store_tree (pack_tree p)).
Proof.
  assert (N1 : forall n, name_okb (s_version_ ++ dec n) = true) by (intros; unfold s_version_, s_edit_, s_create_; apply digits_name_ok; [reflexivity|discriminate]).
  assert (N2 : forall n, name_okb (s_edit_ ++ dec n) = true) by (intros; unfold s_version_, s_edit_, s_create_; apply digits_name_ok; [reflexivity|discriminate]).
  assert (N3 : forall n, name_okb (s_create_ ++ dec n) = true) by (intros; unfold s_version_, s_edit_, s_create_; apply digits_name_ok; [reflexivity|discriminate]).
  assert (K : NoDup (map ekey (pack_tree p)) /\ NoDup (map e_name (pack_tree p))).
  { unfold pack_tree. destruct (ps_create p =? 0); destruct (ps_nfiles p); cbn;
    split; repeat constructor; cbn; intuition discriminate. }
  destruct K as [K1 K2]. apply store_tree_ok; [exact K1|exact K2|].
  unfold pack_tree. repeat (apply Forall_app; split); try (destruct (ps_create p =? 0)); try (destruct (ps_nfiles p));
  repeat constructor; cbn [e_name]; auto. Qed.

Lemma identity_tree_ok b : git_tree_ok (store_tree (identity_tree b)).
Proof. apply store_tree_ok; cbn; repeat constructor; auto. Qed.

(* ------------------------------------------------------------------ repository state and primitive writes *)

Inductive obj :=
| BlobO (id : N)
| TreeO (id : N) (es : list entry)
| CommitO (id : N) (tree : N) (parents : list N).

Record repo := mkrepo {
  r_refs : list (list str * N);    (* location below the git directory -> object *)
  r_head : str;
  r_index : N;
  r_wt : list (str * N);           (* work tree: path -> content *)
  r_cfg : list (str * N);          (* local configuration: full key -> value; a key may occur several times *)
  r_cfgaux : list N;               (* comment lines of the configuration file *)
  r_objs : list obj;
  r_files : list (list str * N)    (* every other file of the git directory: path below it -> content *)
}.

Inductive prim :=
| WRef (name : str) (h : N)          (* Storer.SetReference *)
| DRef (name : str)                  (* Storer.RemoveReference *)
| WCfg (key : str) (v : N)           (* Config.StoreString *)
| DCfg (prefix : str)                (* Config.RemoveAll *)
| WFile (rel : list str) (d : N)     (* LocalStorage: create / write *)
| DFile (rel : list str)             (* LocalStorage: Remove / RemoveAll *)
| WObj (o : obj).                    (* Storer.SetEncodedObject *)

Definition set_at {K V} (eqb : K -> K -> bool) (k : K) (v : V) (l : list (K * V)) : list (K * V) :=
  filter (fun e => negb (eqb (fst e) k)) l ++ [(k, v)].
Definition del_at {K V} (eqb : K -> K -> bool) (k : K) (l : list (K * V)) : list (K * V) :=
  filter (fun e => negb (eqb (fst e) k)) l.

Definition gb_root : list str := [s_gitbug].       (* LocalStorage is rooted at <gitdir>/git-bug *)
Definition under_gb (p : list str) : bool := prefixb str_eqb gb_root p.

Definition apply_prim (st : repo) (p : prim) : repo :=
  match p with
  | WRef name h =>
      match resolve name with
      | Some loc => mkrepo (set_at path_eqb loc h (r_refs st)) (r_head st) (r_index st) (r_wt st) (r_cfg st) (r_cfgaux st) (r_objs st) (r_files st)
      | None => st
      end
  | DRef name =>
      match resolve name with
      | Some loc => mkrepo (del_at path_eqb loc (r_refs st)) (r_head st) (r_index st) (r_wt st) (r_cfg st) (r_cfgaux st) (r_objs st) (r_files st)
      | None => st
      end
  | WCfg k v => mkrepo (r_refs st) (r_head st) (r_index st) (r_wt st) (set_at str_eqb k v (r_cfg st)) (r_cfgaux st) (r_objs st) (r_files st)
  | DCfg prefix => mkrepo (r_refs st) (r_head st) (r_index st) (r_wt st)
                     (filter (fun e => negb (cfg_below prefix (fst e))) (r_cfg st)) (r_cfgaux st) (r_objs st) (r_files st)
  | WFile rel d =>
      match clean rel with
      | Some q => mkrepo (r_refs st) (r_head st) (r_index st) (r_wt st) (r_cfg st) (r_cfgaux st) (r_objs st) (set_at path_eqb (gb_root ++ q) d (r_files st))
      | None => st
      end
  | DFile rel =>
      match clean rel with
      | Some q => mkrepo (r_refs st) (r_head st) (r_index st) (r_wt st) (r_cfg st) (r_cfgaux st) (r_objs st)
                    (filter (fun e => negb (prefixb str_eqb (gb_root ++ q) (fst e))) (r_files st))
      | None => st
      end
  | WObj o => mkrepo (r_refs st) (r_head st) (r_index st) (r_wt st) (r_cfg st) (r_cfgaux st) (o :: r_objs st) (r_files st)
  end.

Definition run_prims (ps : list prim) (st : repo) : repo := fold_left apply_prim ps st.

(* ------------------------------------------------------------------ the foreign projection *)

Record fview := mkfview {
  f_refs : list (list str * N); f_head : str; f_index : N; f_wt : list (str * N);
  f_cfg : list (str * N); f_cfgaux : list N; f_files : list (list str * N)
}.

Definition foreign (st : repo) : fview :=
  mkfview (filter (fun e => negb (in_ns (fst e))) (r_refs st)) (r_head st) (r_index st) (r_wt st)
          (filter (fun e => negb (gb_key (fst e))) (r_cfg st)) (r_cfgaux st)
          (filter (fun e => negb (under_gb (fst e))) (r_files st)).

(* a primitive write that stays inside git-bug's namespaces *)
Definition prim_ok (p : prim) : Prop :=
  match p with
  | WRef name _ | DRef name => match resolve name with Some loc => in_ns loc = true | None => True end
  | WCfg k _ => gb_key k = true
  | DCfg prefix => gb_key prefix = true
  | WFile _ _ | DFile _ | WObj _ => True
  end.

Lemma filter_absorb {A} (f g : A -> bool) l : (forall x, f x = true -> g x = true) -> filter f (filter g l) = filter f l.
Proof. intros H. induction l as [|x t IH]; cbn; [reflexivity|]. destruct (g x) eqn:G; cbn.
  - now rewrite IH.
  - destruct (f x) eqn:F; [apply H in F; congruence|exact IH]. Qed.

Lemma filter_set_at {K V} (eqb : K -> K -> bool) (inside : K -> bool) (k : K) (v : V) l :
  (forall x, eqb x k = true -> x = k) -> inside k = true ->
  filter (fun e => negb (inside (fst e))) (set_at eqb k v l) = filter (fun e => negb (inside (fst e))) l.
Proof. intros E I. unfold set_at. rewrite filter_app. cbn. rewrite I. cbn. rewrite app_nil_r.
  apply filter_absorb. intros [x y] H. cbn in *. apply negb_true_iff. destruct (eqb x k) eqn:X; [|reflexivity].
  apply E in X. subst. rewrite I in H. discriminate. Qed.

Lemma filter_del_at {K V} (eqb : K -> K -> bool) (inside : K -> bool) (k : K) (l : list (K * V)) :
  (forall x, eqb x k = true -> x = k) -> inside k = true ->
  filter (fun e => negb (inside (fst e))) (del_at eqb k l) = filter (fun e => negb (inside (fst e))) l.
Proof. intros E I. unfold del_at. apply filter_absorb. intros [x y] H. cbn in *. apply negb_true_iff.
  destruct (eqb x k) eqn:X; [|reflexivity]. apply E in X. subst. rewrite I in H. discriminate. Qed.

Lemma under_gb_prefix q p : prefixb str_eqb (gb_root ++ q) p = true -> under_gb p = true.
Proof. unfold under_gb, gb_root. cbn. destruct p as [|c p]; [discriminate|]. intros H. apply andb_true_iff in H as [H _]. now rewrite H. Qed.

Lemma apply_prim_frame st p : prim_ok p -> foreign (apply_prim st p) = foreign st.
Proof. destruct p as [name h|name|k v|prefix|rel d|rel|o]; cbn [prim_ok apply_prim]; intros H.
  - destruct (resolve name) as [loc|]; [|reflexivity]. unfold foreign. cbn [r_refs r_head r_index r_wt r_cfg r_cfgaux r_objs r_files]. f_equal.
    apply filter_set_at; [intros x; apply path_eqb_eq|exact H].
  - destruct (resolve name) as [loc|]; [|reflexivity]. unfold foreign. cbn [r_refs r_head r_index r_wt r_cfg r_cfgaux r_objs r_files]. f_equal.
    apply filter_del_at; [intros x; apply path_eqb_eq|exact H].
  - unfold foreign. cbn [r_refs r_head r_index r_wt r_cfg r_cfgaux r_objs r_files]. f_equal. apply filter_set_at; [intros x; apply str_eqb_eq|exact H].
  - unfold foreign. cbn [r_refs r_head r_index r_wt r_cfg r_cfgaux r_objs r_files]. f_equal. apply filter_absorb. intros [x y] F. cbn [fst] in *. apply negb_true_iff.
    destruct (cfg_below prefix x) eqn:B; [|reflexivity]. rewrite (cfg_below_gb prefix x H B) in F. discriminate.
  - destruct (clean rel) as [q|]; [|reflexivity]. unfold foreign. cbn [r_refs r_head r_index r_wt r_cfg r_cfgaux r_objs r_files]. f_equal.
    apply filter_set_at; [intros x; apply path_eqb_eq|]. unfold under_gb. apply prefixb_app. apply str_eqb_refl.
  - destruct (clean rel) as [q|]; [|reflexivity]. unfold foreign. cbn [r_refs r_head r_index r_wt r_cfg r_cfgaux r_objs r_files]. f_equal.
    apply filter_absorb. intros [x y] F. cbn [fst] in *. apply negb_true_iff.
    destruct (prefixb str_eqb (gb_root ++ q) x) eqn:B; [|reflexivity]. rewrite (under_gb_prefix q x B) in F. discriminate.
  - reflexivity. Qed.

Lemma run_prims_frame ps : forall st, Forall prim_ok ps -> foreign (run_prims ps st) = foreign st.
Proof. induction ps as [|p t IH]; intros st H; cbn; [reflexivity|]. inversion H; subst.
  unfold run_prims in IH. rewrite IH by assumption. now apply apply_prim_frame. Qed.

(* objects are only ever added *)
Lemma run_prims_objs ps : forall st o, In o (r_objs st) -> In o (r_objs (run_prims ps st)).
Proof. induction ps as [|p t IH]; intros st o H; cbn; [exact H|]. apply IH.
  destruct p; cbn; try exact H; try (destruct (resolve _); exact H); try (destruct (clean _); exact H). now right. Qed.

(* ------------------------------------------------------------------ actions *)

Definition s_clocks : str := Eval vm_compute in lit "clocks".
Definition s_cache : str := Eval vm_compute in lit "cache".
Definition s_indexes : str := Eval vm_compute in lit "indexes".
Definition s_lock : str := Eval vm_compute in lit "lock".
Definition s_select : str := Eval vm_compute in lit "select".
Definition s_edit_sfx : str := Eval vm_compute in lit "-edit".
Definition s_create_sfx : str := Eval vm_compute in lit "-create".

Definition clock_files (n : ns) : list prim :=
  [WFile [s_clocks; ns_str n ++ s_edit_sfx] 0; WFile [s_clocks; ns_str n ++ s_create_sfx] 0].

Definition pack_objs (p : packspec) (commit : N) (parents : list N) : list prim :=
  [WObj (BlobO (ps_empty p)); WObj (BlobO (ps_blob p))] ++
  (match ps_nfiles p with O => [] | _ => [WObj (TreeO (ps_extra p) (store_tree (extra_tree p)))] end) ++
  [WObj (TreeO 0 (store_tree (pack_tree p))); WObj (CommitO commit 0 parents)].

Inductive action :=
| ANewIdentity (id : str) (blob : N)                    (* identity.Commit: version blob, tree, commit, ref *)
| ASetUser                                              (* SetUserIdentity: git-bug.identity *)
| AClearUser                                            (* ClearUserIdentity *)
| ACommit (n : ns) (id : str) (packs : list packspec)   (* entity Commit: bug creation and every edit kind, one commit per pack *)
| APush (remote : str) (ents : list (ns * str))         (* PushRefs: tracking references of what was pushed *)
| APull (remote : str) (ents : list (ns * str)) (merges : list packspec)  (* FetchRefs + MergeAll; merge commits carry empty packs *)
| ARemove (n : ns) (id : str) (remotes : list str)      (* dag.Remove / identity.Remove *)
| ABridgeConf (name : str) (kvs : list (str * N))       (* Bridge.storeConfig, import cursor *)
| ABridgeRm (name : str)                                (* core.RemoveBridge *)
| AStorage (writes deletes : list (list str))           (* cache, index, lock, selection and clock files below the local storage *)
| AWipe (ents : list (ns * str)) (remotes : list str).  (* commands/wipe.go *)

Definition remove_prims (n : ns) (id : str) (remotes : list str) : list prim :=
  if valid_id id then
    DRef (ref_local n id) :: map (fun r => DRef (ref_remote r n id)) (filter tail_okb remotes)
  else [].

Definition compile (a : action) : list prim :=
  match a with
  | ANewIdentity id blob =>
      if valid_id id then
        [WObj (BlobO blob); WObj (TreeO 0 (store_tree (identity_tree blob))); WObj (CommitO 0 0 []); WRef (ref_local Identities id) 0]
        ++ clock_files Identities
      else []
  | ASetUser => [WCfg identity_key 0]
  | AClearUser => [DCfg identity_key]
  | ACommit n id packs =>
      if valid_id id then
        List.concat (map (fun p => pack_objs p 0 []) packs) ++ [WRef (ref_local n id) 0] ++ clock_files n
      else []
  | APush remote ents =>
      if tail_okb remote then
        map (fun e => WRef (ref_remote remote (fst e) (snd e)) 0) (filter (fun e => tail_okb (snd e)) ents)
      else []
  | APull remote ents merges =>
      if tail_okb remote then
        (* fetch: objects of the remote (not detailed) and tracking references, for whatever the remote calls them *)
        map (fun e => WRef (ref_remote remote (fst e) (snd e)) 0) (filter (fun e => tail_okb (snd e)) ents) ++
        (* merge: only references whose last component is a valid id are merged *)
        map (fun e => WRef (ref_local (fst e) (snd e)) 0) (filter (fun e => valid_id (snd e)) ents) ++
        List.concat (map (fun p => pack_objs p 0 [0; 0]) merges) ++ clock_files Bugs ++ clock_files Identities
      else []
  | ARemove n id remotes => remove_prims n id remotes
  | ABridgeConf name kvs => map (fun kv => WCfg (bridge_key name (fst kv)) (snd kv)) kvs
  | ABridgeRm name => [DCfg (bridge_prefix name)]
  | AStorage writes deletes => map (fun p => WFile p 0) writes ++ map DFile deletes
  | AWipe ents remotes =>
      List.concat (map (fun e => remove_prims (fst e) (snd e) remotes) ents) ++ [DCfg identity_key; DCfg s_gitbug; DFile []]
  end.

Definition run (acts : list action) (st : repo) : repo := run_prims (List.concat (map compile acts)) st.

Lemma WRef_local_ok n t h : tail_okb t = true -> prim_ok (WRef (ref_local n t) h).
Proof. intros H. unfold prim_ok. destruct (ref_local_in_ns n t H) as [-> I]. exact I. Qed.
Lemma DRef_local_ok n t : tail_okb t = true -> prim_ok (DRef (ref_local n t)).
Proof. intros H. unfold prim_ok. destruct (ref_local_in_ns n t H) as [-> I]. exact I. Qed.
Lemma WRef_remote_ok r n t h : tail_okb r = true -> tail_okb t = true -> prim_ok (WRef (ref_remote r n t) h).
Proof. intros Hr H. unfold prim_ok. destruct (ref_remote_in_ns r n t Hr H) as [-> I]. exact I. Qed.
Lemma DRef_remote_ok r n t : tail_okb r = true -> tail_okb t = true -> prim_ok (DRef (ref_remote r n t)).
Proof. intros Hr H. unfold prim_ok. destruct (ref_remote_in_ns r n t Hr H) as [-> I]. exact I. Qed.

Lemma clock_files_ok n : Forall prim_ok (clock_files n). Proof. repeat constructor. Qed.
Lemma pack_objs_ok p c ps : Forall prim_ok (pack_objs p c ps).
Proof. unfold pack_objs. destruct (ps_nfiles p); repeat constructor. Qed.
Lemma concat_ok {A} (f : A -> list prim) l : (forall x, Forall prim_ok (f x)) -> Forall prim_ok (List.concat (map f l)).
Proof. intros H. induction l; cbn; [constructor|]. apply Forall_app. split; [apply H|exact IHl]. Qed.

Lemma remove_prims_ok n id remotes : Forall prim_ok (remove_prims n id remotes).
Proof. unfold remove_prims. destruct (valid_id id) eqn:V; [|constructor]. pose proof (valid_id_tail_ok id V) as T.
  constructor; [now apply DRef_local_ok|]. rewrite Forall_map. apply Forall_forall. intros r Hr.
  apply filter_In in Hr as [_ Hr]. now apply DRef_remote_ok. Qed.

Lemma compile_ok a : Forall prim_ok (compile a).
Proof. destruct a as [id blob| | |n id packs|remote ents|remote ents merges|n id remotes|name kvs|name|ws ds|ents remotes]; cbn [compile].
  - destruct (valid_id id) eqn:V; [|constructor]. apply Forall_app. split; [|apply clock_files_ok].
    repeat constructor. apply WRef_local_ok. now apply valid_id_tail_ok.
  - repeat constructor.
  - repeat constructor.
  - destruct (valid_id id) eqn:V; [|constructor]. repeat (apply Forall_app; split); [|repeat constructor|apply clock_files_ok].
    + apply concat_ok. intros p. apply pack_objs_ok.
    + apply WRef_local_ok. now apply valid_id_tail_ok.
  - destruct (tail_okb remote) eqn:R; [|constructor]. rewrite Forall_map. apply Forall_forall. intros e He.
    apply filter_In in He as [_ He]. now apply WRef_remote_ok.
  - destruct (tail_okb remote) eqn:R; [|constructor]. repeat (apply Forall_app; split).
    + rewrite Forall_map. apply Forall_forall. intros e He. apply filter_In in He as [_ He]. now apply WRef_remote_ok.
    + rewrite Forall_map. apply Forall_forall. intros e He. apply filter_In in He as [_ He]. apply WRef_local_ok. now apply valid_id_tail_ok.
    + apply concat_ok. intros p. apply pack_objs_ok.
    + apply clock_files_ok.
    + apply clock_files_ok.
  - apply remove_prims_ok.
  - rewrite Forall_map. apply Forall_forall. intros kv _. unfold prim_ok. apply gb_key_bridge.
  - repeat constructor.
  - apply Forall_app. split; rewrite Forall_map; apply Forall_forall; intros; exact I.
  - apply Forall_app. split; [|repeat constructor]. apply concat_ok. intros e. apply remove_prims_ok. Qed.

Theorem frame acts st : foreign (run acts st) = foreign st.
Proof. unfold run. apply run_prims_frame. apply concat_ok. apply compile_ok. Qed.

Theorem objects_kept acts st o : In o (r_objs st) -> In o (r_objs (run acts st)).
Proof. apply run_prims_objs. Qed.

(* every tree object an action writes is acceptable to git fsck *)
Definition wf_obj (o : obj) : Prop := match o with TreeO _ es => git_tree_ok es | _ => True end.

Lemma pack_objs_wf p c ps o : In (WObj o) (pack_objs p c ps) -> wf_obj o.
Proof. unfold pack_objs. intros H. repeat (apply in_app_or in H as [H|H]).
  - cbn in H. destruct H as [H|[H|[]]]; injection H as <-; exact I.
  - destruct (ps_nfiles p); cbn in H; [contradiction|]. destruct H as [H|[]]. injection H as <-. apply extra_tree_ok.
  - cbn in H. destruct H as [H|[H|[]]]; injection H as <-; [apply pack_tree_ok|exact I]. Qed.

Lemma in_concat_map {A B} (f : A -> list B) l y : In y (List.concat (map f l)) -> exists x, In x l /\ In y (f x).
Proof. intros H. apply in_concat in H as (z & Hz & Hy). apply in_map_iff in Hz as (x & <- & Hx). eauto. Qed.

Lemma remove_prims_noobj n id rs o : ~ In (WObj o) (remove_prims n id rs).
Proof. unfold remove_prims. destruct (valid_id id); [|tauto]. intros [H|H]; [discriminate|].
  apply in_map_iff in H as (x & H & _). discriminate. Qed.

Theorem objects_wellformed a o : In (WObj o) (compile a) -> wf_obj o.
Proof. destruct a as [id blob| | |n id packs|remote ents|remote ents merges|n id remotes|name kvs|name|ws ds|ents remotes]; cbn [compile]; intros H.
  - destruct (valid_id id); [|contradiction]. apply in_app_or in H as [H|H].
    + cbn in H. destruct H as [H|[H|[H|[H|[]]]]]; try discriminate; injection H as <-; try exact I. apply identity_tree_ok.
    + cbn in H. intuition discriminate.
  - cbn in H. intuition discriminate.
  - cbn in H. intuition discriminate.
  - destruct (valid_id id); [|contradiction]. apply in_app_or in H as [H|H].
    + apply in_concat_map in H as (p & _ & H). eapply pack_objs_wf; eauto.
    + cbn in H. intuition discriminate.
  - destruct (tail_okb remote); [|contradiction]. apply in_map_iff in H as (x & H & _). discriminate.
  - destruct (tail_okb remote); [|contradiction]. repeat (apply in_app_or in H as [H|H]).
    + apply in_map_iff in H as (x & H & _). discriminate.
    + apply in_map_iff in H as (x & H & _). discriminate.
    + apply in_concat_map in H as (p & _ & H). eapply pack_objs_wf; eauto.
    + cbn in H. intuition discriminate.
    + cbn in H. intuition discriminate.
  - now apply remove_prims_noobj in H.
  - apply in_map_iff in H as (x & H & _). discriminate.
  - cbn in H. intuition discriminate.
  - apply in_app_or in H as [H|H]; apply in_map_iff in H as (x & H & _); discriminate.
  - apply in_app_or in H as [H|H].
    + apply in_concat_map in H as (e & _ & H). now apply remove_prims_noobj in H.
    + cbn in H. intuition discriminate. Qed.

(* ------------------------------------------------------------------ what an action sequence may touch *)

Fixpoint ref_targets (ps : list prim) : list (list str) :=
  match ps with
  | [] => []
  | (WRef name _ | DRef name) :: t => match resolve name with Some loc => loc :: ref_targets t | None => ref_targets t end
  | _ :: t => ref_targets t
  end.

Definition lookup {V} (loc : list str) (l : list (list str * V)) : option V :=
  match find (fun e => path_eqb (fst e) loc) l with Some e => Some (snd e) | None => None end.

Lemma find_filter_other {V} loc k (l : list (list str * V)) : k <> loc ->
  find (fun e => path_eqb (fst e) loc) (filter (fun e => negb (path_eqb (fst e) k)) l) = find (fun e => path_eqb (fst e) loc) l.
Proof. intros N0. induction l as [|[x y] t IH]; cbn; [reflexivity|].
  destruct (path_eqb x k) eqn:K; cbn.
  - apply path_eqb_eq in K. subst x. destruct (path_eqb k loc) eqn:L; [apply path_eqb_eq in L; contradiction|exact IH].
  - destruct (path_eqb x loc); [reflexivity|exact IH]. Qed.

Lemma lookup_set_other {V} loc k (v : V) l : k <> loc -> lookup loc (set_at path_eqb k v l) = lookup loc l.
Proof. intros N0. unfold lookup, set_at.
  assert (X : forall (a b : list (list str * V)), find (fun e => path_eqb (fst e) loc) b = None ->
            find (fun e => path_eqb (fst e) loc) (a ++ b) = find (fun e => path_eqb (fst e) loc) a).
  { intros a b Hb. induction a as [|e a IH]; cbn; [exact Hb|]. destruct (path_eqb (fst e) loc); [reflexivity|exact IH]. }
  rewrite X.
  - now rewrite find_filter_other.
  - cbn. destruct (path_eqb k loc) eqn:L; [apply path_eqb_eq in L; contradiction|reflexivity]. Qed.

Lemma lookup_del_other {V} loc k (l : list (list str * V)) : k <> loc -> lookup loc (del_at path_eqb k l) = lookup loc l.
Proof. intros N0. unfold lookup, del_at. now rewrite find_filter_other. Qed.

(* a location that is the target of no write keeps its reference *)
Theorem untouched_ref ps : forall st loc, ~ In loc (ref_targets ps) -> lookup loc (r_refs (run_prims ps st)) = lookup loc (r_refs st).
Proof. induction ps as [|p t IH]; intros st loc H; cbn; [reflexivity|].
  unfold run_prims in IH. destruct p as [name h|name|k v|prefix|rel d|rel|o]; cbn in H |- *;
  try (rewrite IH by exact H; reflexivity).
  - destruct (resolve name) as [q|]; [|now apply IH]. rewrite IH by (intros X; apply H; now right).
    cbn. apply lookup_set_other. intros ->. apply H. now left.
  - destruct (resolve name) as [q|]; [|now apply IH]. rewrite IH by (intros X; apply H; now right).
    cbn. apply lookup_del_other. intros ->. apply H. now left.
  - destruct (clean rel); rewrite IH by exact H; reflexivity.
  - destruct (clean rel); rewrite IH by exact H; reflexivity. Qed.

(* why the id check matters: an unchecked "id" walks out of the namespace (dag.Remove before the repair) *)
Definition hostile_id : str := Eval vm_compute in lit "../heads/main".

Lemma names_in_namespace n id r : valid_id id = true -> tail_okb r = true ->
  resolve (ref_local n id) = Some [s_refs; ns_str n; id] /\ in_ns [s_refs; ns_str n; id] = true /\
  resolve (ref_remote r n id) = Some (s_refs :: s_remotes :: split slash r ++ [ns_str n; id]) /\
  in_ns (s_refs :: s_remotes :: split slash r ++ [ns_str n; id]) = true.
Proof. intros V R. pose proof (valid_id_tail_ok id V) as T. destruct (valid_id_tail id V) as [E _].
  destruct (ref_local_in_ns n id T) as [A B]. destruct (ref_remote_in_ns r n id R T) as [C D].
  rewrite E in *. auto. Qed.

Lemma config_keys_in_section name k :
  gb_key identity_key = true /\ gb_key (bridge_key name k) = true /\ gb_key (bridge_prefix name) = true /\
  (forall prefix key, gb_key prefix = true -> cfg_below prefix key = true -> gb_key key = true).
Proof. split; [apply gb_key_identity|]. split; [apply gb_key_bridge|]. split; [apply gb_key_bridge_prefix|apply cfg_below_gb]. Qed.

Lemma tree_git_sorted p blob :
  git_tree_ok (store_tree (pack_tree p)) /\ git_tree_ok (store_tree (extra_tree p)) /\ git_tree_ok (store_tree (identity_tree blob)).
Proof. split; [apply pack_tree_ok|]. split; [apply extra_tree_ok|apply identity_tree_ok]. Qed.

Lemma store_tree_generic l : sorted_le (store_tree l) /\ Permutation l (store_tree l) /\
  (NoDup (map ekey l) -> sorted_lt (store_tree l)).
Proof. split; [apply store_tree_sorted_le|]. split; [apply store_tree_perm|].
  intros K. apply sorted_le_lt; [apply store_tree_sorted_le|]. eapply Permutation_NoDup; [|exact K].
  apply Permutation_map, store_tree_perm. Qed.

(* the boolean test used on the implementation's trees is sound *)
Lemma sorted_ltb_sound l : sorted_ltb l = true -> sorted_lt l.
Proof. induction l as [|x t IH]; cbn; intros H; [constructor|]. apply andb_true_iff in H as [H1 H2].
  constructor; [now apply IH|]. apply Forall_forall. rewrite forallb_forall in H1. exact H1. Qed.
Lemma nodupb_sound l : nodupb l = true -> NoDup l.
Proof. induction l as [|x t IH]; cbn; intros H; [constructor|]. apply andb_true_iff in H as [H1 H2].
  constructor; [|now apply IH]. intros I. apply negb_true_iff in H1.
  assert (X : existsb (str_eqb x) t = true) by (apply existsb_exists; exists x; split; [exact I|apply str_eqb_refl]). congruence. Qed.
Lemma git_tree_okb_sound l : git_tree_okb l = true -> git_tree_ok l.
Proof. unfold git_tree_okb. intros H. apply andb_true_iff in H as [H H3]. apply andb_true_iff in H as [H1 H2].
  split; [now apply sorted_ltb_sound|]. split; [now apply nodupb_sound|]. apply Forall_forall. rewrite forallb_forall in H3. exact H3. Qed.

(* a strictly sorted list is its own sorting: the order git demands is the order StoreTree produces *)
Lemma insert_below x l : Forall (fun y => elt x y = true) l -> insert x l = x :: l.
Proof. destruct l as [|y t]; cbn; [reflexivity|]. intros H. inversion H as [|? ? Hy _]; subst.
  unfold elt in Hy. apply andb_true_iff in Hy as [Hy _]. now rewrite Hy. Qed.
Lemma store_tree_fixpoint l : sorted_lt l -> store_tree l = l.
Proof. induction 1 as [|x t Ht IH Hx]; [reflexivity|]. change (store_tree (x :: t)) with (insert x (store_tree t)).
  rewrite IH. now apply insert_below. Qed.

(* ------------------------------------------------------------------ the "extra" tree of a commit of several operations *)

(* entity/dag/operation_pack.go makeExtraTree: the operations of the pack in order, the files of each in order, ONE counter
   and ONE set of files already added for the whole pack (the two nested loops are one loop over the concatenation):
   a file gets the next name "file<counter>" the first time it is met and is skipped afterwards *)
Definition file_name (i : nat) : str := s_file ++ dec (N.of_nat i).
Fixpoint make_extra_from (counter : nat) (added : list N) (files : list N) : list entry :=
  match files with
  | [] => []
  | f :: t => if existsb (N.eqb f) added then make_extra_from counter added t
              else mkentry false (file_name counter) f :: make_extra_from (S counter) (f :: added) t
  end.
Definition make_extra (ops : list (list N)) : list entry := make_extra_from 0 [] (List.concat ops).

Lemma existsb_Neqb_In f a : existsb (N.eqb f) a = true <-> In f a.
Proof. rewrite existsb_exists. split.
  - intros (x & Hx & E). apply N.eqb_eq in E. now subst.
  - intros H. exists f. split; [exact H|apply N.eqb_refl]. Qed.

Lemma make_extra_names fs : forall c a,
  map e_name (make_extra_from c a fs) = map file_name (seq c (List.length (make_extra_from c a fs))).
Proof. induction fs as [|f t IH]; intros c a; cbn [make_extra_from]; [reflexivity|].
  destruct (existsb (N.eqb f) a); [apply IH|]. cbn. f_equal. apply IH. Qed.

Lemma make_extra_nodir fs : forall c a, map ekey (make_extra_from c a fs) = map e_name (make_extra_from c a fs).
Proof. induction fs as [|f t IH]; intros c a; cbn [make_extra_from]; [reflexivity|].
  destruct (existsb (N.eqb f) a); [apply IH|]. cbn. f_equal. apply IH. Qed.

(* every file of the operations that was not added before is referenced, exactly once *)
Lemma make_extra_hashes fs : forall c a,
  (forall x, In x (map e_hash (make_extra_from c a fs)) <-> In x fs /\ ~ In x a) /\ NoDup (map e_hash (make_extra_from c a fs)).
Proof. induction fs as [|f t IH]; intros c a; cbn [make_extra_from].
  - split; [|constructor]. intros x. cbn. tauto.
  - destruct (existsb (N.eqb f) a) eqn:E.
    + apply existsb_Neqb_In in E. destruct (IH c a) as [H1 H2]. split; [|exact H2]. intros x. rewrite H1. cbn. split.
      * intros [A B]. auto.
      * intros [[A|A] B]; [subst; contradiction|auto].
    + assert (Nf : ~ In f a). { intros I. apply existsb_Neqb_In in I. congruence. }
      destruct (IH (S c) (f :: a)) as [H1 H2]. cbn [map e_hash]. split.
      * intros x. cbn [In]. rewrite H1. cbn [In]. split.
        -- intros [A|[A B]]; [subst; auto|]. split; [auto|]. intros I. apply B. now right.
        -- intros [[A|A] B]; [now left|]. destruct (N.eq_dec f x) as [->|D]; [now left|]. right. split; [exact A|].
           intros [I|I]; [contradiction|contradiction].
      * constructor; [|exact H2]. intros I. apply H1 in I as [_ I]. apply I. now left. Qed.

Lemma file_name_inj i j : file_name i = file_name j -> i = j.
Proof. unfold file_name. intros H. apply app_inv_head in H. apply dec_inj in H. lia. Qed.

Lemma file_names_nodup c n : NoDup (map file_name (seq c n)).
Proof. apply FinFun.Injective_map_NoDup; [|apply seq_NoDup]. intros i j. apply file_name_inj. Qed.

Lemma file_name_ok i : name_okb (file_name i) = true.
Proof. unfold file_name, s_file. apply digits_name_ok; [reflexivity|discriminate]. Qed.

(* whatever the operations and their files are (shared between operations, repeated inside one, none at all): the tree
   is acceptable to git, its names are file0 .. file<n-1> (those of extra_tree for n files), and it references every file
   of every operation exactly once *)
Lemma extra_tree_of_ops ops :
  git_tree_ok (store_tree (make_extra ops)) /\
  map e_name (make_extra ops) = map file_name (seq 0 (List.length (make_extra ops))) /\
  (forall p, ps_nfiles p = List.length (make_extra ops) -> map e_name (extra_tree p) = map e_name (make_extra ops)) /\
  NoDup (map e_hash (make_extra ops)) /\
  (forall f, In f (List.concat ops) <-> In f (map e_hash (make_extra ops))).
Proof. unfold make_extra. pose proof (make_extra_names (List.concat ops) 0%nat []) as Hn.
  destruct (make_extra_hashes (List.concat ops) 0%nat []) as [H1 H2]. split; [|split; [exact Hn|split; [|split; [exact H2|]]]].
  - apply store_tree_ok.
    + rewrite make_extra_nodir, Hn. apply file_names_nodup.
    + rewrite Hn. apply file_names_nodup.
    + apply Forall_forall. intros e He. assert (I : In (e_name e) (map e_name (make_extra_from 0 [] (List.concat ops)))) by now apply in_map.
      rewrite Hn in I. apply in_map_iff in I as (i & <- & _). apply file_name_ok.
  - intros p Hp. rewrite Hn, <- Hp. unfold extra_tree. rewrite map_map. reflexivity.
  - intros f. rewrite H1. cbn. tauto. Qed.

(* ------------------------------------------------------------------ author and committer lines of the commits *)

(* what git fsck demands of the text after "author " / "committer " (fsck.c fsck_ident, git 2.39):
   <name, no '<' '>' LF, not starting with '<'> SP '<' <address, no '<' '>' LF> '>' SP <digits, not zero padded> SP <sign> <4 digits> *)
Definition stopb (c : N) : bool := (c =? 60) || (c =? 62) || (c =? 10).
(* p += strcspn(p, "<>\n") *)
Fixpoint span_stop (l : str) : str * str :=
  match l with
  | [] => ([], [])
  | c :: t => if stopb c then ([], l) else let (a, b) := span_stop t in (c :: a, b)
  end.
Fixpoint span_digits (l : str) : str * str :=
  match l with
  | [] => ([], [])
  | c :: t => if is_digit c then let (a, b) := span_digits t in (c :: a, b) else ([], l)
  end.
Definition tz_okb (z : str) : bool :=
  match z with
  | [s; a; b; c; d] => ((s =? 43) || (s =? 45)) && is_digit a && is_digit b && is_digit c && is_digit d
  | _ => false
  end.
Definition zero_padded (ds : str) : bool := match ds with 48 :: _ :: _ => true | _ => false end.
(* the part go-git's Signature.Encode appends: "%d %s" of the Unix time and "-0700" *)
Definition date_tail_okb (d : str) : bool :=
  let (ds, r) := span_digits d in
  nonempty ds && negb (zero_padded ds) && match r with sp :: z => (sp =? 32) && tz_okb z | [] => false end.
Definition fsck_identb (line : str) : bool :=
  match line with
  | [] => false
  | c :: _ =>
      if c =? 60 then false                                            (* missingNameBeforeEmail *)
      else let (nm, r1) := span_stop line in
           match r1 with
           | c1 :: r2 =>
               (c1 =? 60) &&                                           (* badName ('>' first), missingEmail *)
               (last nm 32 =? 32) &&                                   (* missingSpaceBeforeEmail *)
               (let (em, r3) := span_stop r2 in
                match r3 with
                | c3 :: sp :: d => (c3 =? 62) && (sp =? 32) && date_tail_okb d   (* badEmail, missingSpaceBeforeDate, zeroPaddedDate, badDate, badTimezone *)
                | _ => false
                end)
           | [] => false
           end
  end.

(* go-git object.Signature.Encode: "%s <%s> " of the name and the address *)
Definition ident_prefix (name email : str) : str := name ++ 32 :: 60 :: email ++ [62; 32].
(* what git itself does to a name or an address taken from the configuration (ident.c) and what StoreSignedCommit does
   since the repair fixes/C15-clean-commit-ident.patch: '<', '>' and LF are left out *)
Definition clean_ident (s : str) : str := filter (fun c => negb (stopb c)) s.

Lemma span_stop_app a : forall c b, forallb (fun x => negb (stopb x)) a = true -> stopb c = true -> span_stop (a ++ c :: b) = (a, c :: b).
Proof. induction a as [|x a IH]; intros c b Ha Hc; cbn [app span_stop].
  - now rewrite Hc.
  - cbn [forallb] in Ha. apply andb_true_iff in Ha as [Hx Ha]. apply negb_true_iff in Hx. rewrite Hx. now rewrite IH. Qed.

Lemma clean_ident_clean s : forallb (fun x => negb (stopb x)) (clean_ident s) = true.
Proof. unfold clean_ident. apply forallb_forall. intros x Hx. now apply filter_In in Hx as [_ Hx]. Qed.

Lemma stopb_not_lt c : stopb c = false -> (c =? 60) = false.
Proof. unfold stopb. intros H. apply orb_false_iff in H as [H _]. now apply orb_false_iff in H as [H _]. Qed.

(* a line made of a clean name, a clean address and a well-formed date is accepted, whatever the name and the address are
   (empty, spaces only, ...) *)
Lemma clean_ident_line_ok name email d :
  forallb (fun x => negb (stopb x)) name = true -> forallb (fun x => negb (stopb x)) email = true ->
  date_tail_okb d = true -> fsck_identb (ident_prefix name email ++ d) = true.
Proof. intros Hn He Hd. unfold ident_prefix.
  replace ((name ++ 32 :: 60 :: email ++ [62; 32]) ++ d) with ((name ++ [32]) ++ 60 :: email ++ 62 :: 32 :: d)
    by (rewrite <- !app_assoc; cbn; rewrite <- !app_assoc; reflexivity).
  assert (Hn' : forallb (fun x => negb (stopb x)) (name ++ [32]) = true) by (rewrite forallb_app, Hn; reflexivity).
  unfold fsck_identb. destruct ((name ++ [32]) ++ 60 :: email ++ 62 :: 32 :: d) as [|c rest] eqn:E.
  - destruct name; discriminate.
  - assert (Hc : (c =? 60) = false).
    { destruct name as [|x name]; cbn in E; injection E as <- _; [reflexivity|].
      cbn [forallb] in Hn. apply andb_true_iff in Hn as [Hx _]. apply negb_true_iff in Hx. now apply stopb_not_lt. }
    rewrite Hc, <- E. rewrite (span_stop_app (name ++ [32]) 60 _ Hn' eq_refl). rewrite last_last.
    rewrite (span_stop_app email 62 _ He eq_refl). cbn. exact Hd. Qed.

(* repository/gogit.go StoreSignedCommit: the name and the address of the [author] and of the [committer] section of the
   repository's own configuration (NOT [user], no environment variable), last value of each *)
Definition cfg_text (key : str) (l : list (str * str)) : str :=
  fold_left (fun acc e => if str_eqb (fst e) key then snd e else acc) l [].
Definition k_author_name : str := Eval vm_compute in lit "author.name".
Definition k_author_email : str := Eval vm_compute in lit "author.email".
Definition k_committer_name : str := Eval vm_compute in lit "committer.name".
Definition k_committer_email : str := Eval vm_compute in lit "committer.email".
Definition author_prefix (cfg : list (str * str)) : str :=
  ident_prefix (clean_ident (cfg_text k_author_name cfg)) (clean_ident (cfg_text k_author_email cfg)).
Definition committer_prefix (cfg : list (str * str)) : str :=
  ident_prefix (clean_ident (cfg_text k_committer_name cfg)) (clean_ident (cfg_text k_committer_email cfg)).

Lemma commit_lines_wellformed cfg d : date_tail_okb d = true ->
  fsck_identb (author_prefix cfg ++ d) = true /\ fsck_identb (committer_prefix cfg ++ d) = true.
Proof. intros Hd. split; apply clean_ident_line_ok; auto using clean_ident_clean. Qed.

(* ------------------------------------------------------------------ loose and packed references

   The reference store of a git directory as go-git (storage/filesystem/dotgit) and stock git share it: one file per
   loose reference, and the packed-refs file. A loose file shadows the packed entry of the same name; a loose file
   without a value (empty) is what git calls a broken reference: git for-each-ref skips it with a warning, git fsck
   reports "invalid sha1 pointer", git gc / clone / fetch from the repository fail.

   go-git's writes: SetReference truncates the loose file and writes it. CheckAndSetReference new old (what a fetch
   uses for every tracking reference it updates, old = the value ResolveReference found, loose or packed) opens the loose
   file with O_CREATE, reads it and compares with old BEFORE writing: when the reference only lives in packed-refs the
   file has just been created empty, the comparison fails ("reference has changed concurrently") and the empty file
   stays behind. repository/gogit.go FetchRefs therefore rewrites as loose files, before every fetch, the packed
   references below the prefixes it is going to update (unpackRefs).

   Stock git, run by the host's user or by git itself at any moment between two actions of git-bug: git pack-refs --all
   (also part of git gc) moves every loose reference that has a value into packed-refs; the user's own fetches and
   update-ref / branch -d commands write and delete references. *)

Record refstore := mkrs {
  rs_loose : list (list str * option N);   (* loose files: location below the git directory -> Some id | None (empty file) *)
  rs_packed : list (list str * N)          (* packed-refs *)
}.

Inductive rview := RAbsent | RBroken | RPoints (h : N).

(* what git shows for a location *)
Definition rs_view (rs : refstore) (loc : list str) : rview :=
  match lookup loc (rs_loose rs) with
  | Some (Some h) => RPoints h
  | Some None => RBroken
  | None => match lookup loc (rs_packed rs) with Some h => RPoints h | None => RAbsent end
  end.

Definition has_value (e : list str * option N) : bool := match snd e with Some _ => true | None => false end.
(* no loose file without a value *)
Definition no_broken (rs : refstore) : Prop := forallb has_value (rs_loose rs) = true.

(* SetReference *)
Definition rs_set (loc : list str) (h : N) (rs : refstore) : refstore :=
  mkrs (set_at path_eqb loc (Some h) (rs_loose rs)) (rs_packed rs).
(* RemoveReference / git update-ref -d: the loose file and the packed entry *)
Definition rs_del (loc : list str) (rs : refstore) : refstore :=
  mkrs (del_at path_eqb loc (rs_loose rs)) (del_at path_eqb loc (rs_packed rs)).
(* CheckAndSetReference new old, old being what the store resolved for the name just before *)
Definition rs_cas (loc : list str) (new : N) (rs : refstore) : refstore :=
  match lookup loc (rs_loose rs) with
  | Some (Some _) => rs_set loc new rs     (* the file holds the old value: truncated and rewritten *)
  | Some None => rs                        (* already broken: not detailed, the theorems exclude it *)
  | None =>
      match lookup loc (rs_packed rs) with
      | Some _ => mkrs (set_at path_eqb loc None (rs_loose rs)) (rs_packed rs)   (* created empty, compared, refused, left behind *)
      | None => rs_set loc new rs          (* a new reference: nothing to compare *)
      end
  end.

Definition hasb {V} (loc : list str) (l : list (list str * V)) : bool := existsb (fun e => path_eqb (fst e) loc) l.

(* GoGitRepo.unpackRefs: every packed reference below the prefix that has no loose file is written as a loose file *)
Definition rs_unpack (inside : list str -> bool) (rs : refstore) : refstore :=
  mkrs (rs_loose rs ++ map (fun e => (fst e, Some (snd e)))
                           (filter (fun e => inside (fst e) && negb (hasb (fst e) (rs_loose rs))) (rs_packed rs)))
       (rs_packed rs).

(* the reference updates of one fetch: the refspec only maps to names below the prefix *)
Definition rs_updates (inside : list str -> bool) (ups : list (list str * N)) (rs : refstore) : refstore :=
  fold_left (fun st u => rs_cas (fst u) (snd u) st) (filter (fun u => inside (fst u)) ups) rs.
(* GoGitRepo.FetchRefs *)
Definition rs_fetch (inside : list str -> bool) (ups : list (list str * N)) (rs : refstore) : refstore :=
  rs_updates inside ups (rs_unpack inside rs).

(* git pack-refs --all: the loose references that have a value go to packed-refs (replacing the entries of the same
   name) and their files are deleted *)
Definition rs_pack_all (rs : refstore) : refstore :=
  let vals := flat_map (fun e => match snd e with Some h => [(fst e, h)] | None => [] end) (rs_loose rs) in
  mkrs (filter (fun e => negb (has_value e)) (rs_loose rs))
       (vals ++ filter (fun e => negb (hasb (fst e) vals)) (rs_packed rs)).

Inductive rstep :=
| SFetch (inside : list str -> bool) (ups : list (list str * N))   (* git-bug: FetchRefs *)
| SWrite (loc : list str) (h : N)                                  (* git-bug: UpdateRef, CopyRef, the tracking references of a push; the user's git fetch / update-ref *)
| SDelete (loc : list str)                                         (* git-bug: RemoveRef; the user's update-ref -d, fetch --prune *)
| SPackAll.                                                        (* the user's git pack-refs --all, git gc *)

Definition rs_step (rs : refstore) (s : rstep) : refstore :=
  match s with
  | SFetch inside ups => rs_fetch inside ups rs
  | SWrite loc h => rs_set loc h rs
  | SDelete loc => rs_del loc rs
  | SPackAll => rs_pack_all rs
  end.
Definition rs_run (steps : list rstep) (rs : refstore) : refstore := fold_left rs_step steps rs.

Lemma lookup_none_hasb {V} loc (l : list (list str * V)) : lookup loc l = None <-> hasb loc l = false.
Proof. unfold lookup, hasb. induction l as [|e t IH]; cbn; [tauto|].
  destruct (path_eqb (fst e) loc); cbn; [split; discriminate|exact IH]. Qed.

Lemma lookup_app {V} loc (a b : list (list str * V)) :
  lookup loc (a ++ b) = match lookup loc a with Some v => Some v | None => lookup loc b end.
Proof. unfold lookup. induction a as [|e t IH]; cbn; [destruct (find _ b); reflexivity|].
  destruct (path_eqb (fst e) loc); [reflexivity|exact IH]. Qed.

Lemma lookup_set_same {V} loc (v : V) l : lookup loc (set_at path_eqb loc v l) = Some v.
Proof. unfold set_at. rewrite lookup_app.
  assert (X : lookup loc (filter (fun e => negb (path_eqb (fst e) loc)) l) = None).
  { apply lookup_none_hasb. unfold hasb. induction l as [|e t IH]; cbn; [reflexivity|].
    destruct (path_eqb (fst e) loc) eqn:E; cbn; [exact IH|]. rewrite E. exact IH. }
  rewrite X. unfold lookup. cbn. now rewrite path_eqb_refl. Qed.

Lemma hasb_set_at {V} loc k (v : V) l : hasb loc l = true -> hasb loc (set_at path_eqb k v l) = true.
Proof. intros H. destruct (path_eqb k loc) eqn:E.
  - apply path_eqb_eq in E. subst k. destruct (hasb loc (set_at path_eqb loc v l)) eqn:X; [reflexivity|].
    apply lookup_none_hasb in X. rewrite lookup_set_same in X. discriminate.
  - assert (N0 : k <> loc) by (intros ->; rewrite path_eqb_refl in E; discriminate).
    destruct (hasb loc (set_at path_eqb k v l)) eqn:X; [reflexivity|].
    apply lookup_none_hasb in X. rewrite (lookup_set_other loc k v l N0) in X. apply lookup_none_hasb in X. congruence. Qed.

Lemma forallb_filter {A} (f g : A -> bool) l : forallb f l = true -> forallb f (filter g l) = true.
Proof. induction l as [|x t IH]; cbn; [reflexivity|]. intros H. apply andb_true_iff in H as [Hx Ht].
  destruct (g x); cbn; [rewrite Hx|]; auto. Qed.

Lemma no_broken_lookup rs loc : no_broken rs -> lookup loc (rs_loose rs) <> Some None.
Proof. unfold no_broken, lookup. intros H X. destruct (find _ (rs_loose rs)) as [e|] eqn:F; [|discriminate].
  apply find_some in F as [I _]. rewrite forallb_forall in H. specialize (H e I). unfold has_value in H.
  injection X as X. rewrite X in H. discriminate. Qed.

Lemma no_broken_view rs loc : no_broken rs -> rs_view rs loc <> RBroken.
Proof. intros H. unfold rs_view. pose proof (no_broken_lookup rs loc H) as X.
  destruct (lookup loc (rs_loose rs)) as [[h|]|]; [discriminate|congruence|].
  destruct (lookup loc (rs_packed rs)); discriminate. Qed.

Lemma rs_set_no_broken loc h rs : no_broken rs -> no_broken (rs_set loc h rs).
Proof. unfold no_broken, rs_set, set_at. cbn. intros H. rewrite forallb_app. rewrite forallb_filter by exact H. reflexivity. Qed.

Lemma rs_del_no_broken loc rs : no_broken rs -> no_broken (rs_del loc rs).
Proof. unfold no_broken, rs_del, del_at. cbn. apply forallb_filter. Qed.

Lemma rs_pack_all_no_broken rs : no_broken rs -> no_broken (rs_pack_all rs).
Proof. unfold no_broken, rs_pack_all. cbn. apply forallb_filter. Qed.

(* every packed reference below the prefix has a loose file *)
Definition covered (inside : list str -> bool) (rs : refstore) : Prop :=
  forall loc, inside loc = true -> hasb loc (rs_packed rs) = true -> hasb loc (rs_loose rs) = true.

Lemma rs_unpack_no_broken inside rs : no_broken rs -> no_broken (rs_unpack inside rs).
Proof. unfold no_broken, rs_unpack. cbn. intros H. rewrite forallb_app, H. cbn.
  induction (filter _ (rs_packed rs)) as [|e t IH]; cbn; [reflexivity|exact IH]. Qed.

Lemma rs_unpack_covered inside rs : covered inside (rs_unpack inside rs).
Proof. unfold covered, rs_unpack, hasb. cbn. intros loc I P. rewrite existsb_app.
  destruct (existsb (fun e => path_eqb (fst e) loc) (rs_loose rs)) eqn:L; [reflexivity|]. cbn.
  apply existsb_exists in P as (e & In_e & E). apply path_eqb_eq in E.
  apply existsb_exists. exists (fst e, Some (snd e)). split; [|cbn; rewrite E; apply path_eqb_refl].
  apply in_map_iff. exists e. split; [reflexivity|]. apply filter_In. split; [exact In_e|].
  rewrite E, I. cbn. unfold hasb. now rewrite L. Qed.

Lemma rs_cas_inv inside loc new rs : inside loc = true -> no_broken rs -> covered inside rs ->
  no_broken (rs_cas loc new rs) /\ covered inside (rs_cas loc new rs).
Proof. intros I NB C. unfold rs_cas.
  assert (SetOK : no_broken (rs_set loc new rs) /\ covered inside (rs_set loc new rs)).
  { split; [now apply rs_set_no_broken|]. intros l Il P. cbn in *. apply hasb_set_at. now apply C. }
  destruct (lookup loc (rs_loose rs)) as [[h|]|] eqn:L; [exact SetOK|now split|].
  destruct (lookup loc (rs_packed rs)) as [h|] eqn:P; [|exact SetOK].
  exfalso. apply lookup_none_hasb in L. rewrite C in L; [discriminate|exact I|].
  destruct (hasb loc (rs_packed rs)) eqn:X; [reflexivity|]. apply lookup_none_hasb in X. congruence. Qed.

Lemma rs_updates_inv inside ups : forall rs, no_broken rs -> covered inside rs ->
  no_broken (rs_updates inside ups rs) /\ covered inside (rs_updates inside ups rs).
Proof. unfold rs_updates. induction ups as [|u t IH]; intros rs NB C; cbn; [now split|].
  destruct (inside (fst u)) eqn:I; cbn; [|now apply IH].
  destruct (rs_cas_inv inside (fst u) (snd u) rs I NB C) as [NB' C']. now apply IH. Qed.

(* a fetch leaves no reference broken, wherever the references were (loose, packed, both) *)
Theorem fetch_no_broken inside ups rs : no_broken rs -> no_broken (rs_fetch inside ups rs).
Proof. intros NB. unfold rs_fetch. apply rs_updates_inv; [now apply rs_unpack_no_broken|apply rs_unpack_covered]. Qed.

(* ... and the reference it updates has the new value afterwards *)
Theorem fetch_updates_ref inside loc new rs : inside loc = true -> no_broken rs ->
  rs_view (rs_fetch inside [(loc, new)] rs) loc = RPoints new.
Proof. intros I NB. unfold rs_fetch, rs_updates. cbn. rewrite I. cbn.
  pose proof (rs_unpack_no_broken inside rs NB) as NB'. pose proof (rs_unpack_covered inside rs) as C.
  set (st := rs_unpack inside rs) in *. unfold rs_cas.
  assert (SetV : rs_view (rs_set loc new st) loc = RPoints new).
  { unfold rs_view, rs_set. cbn [rs_loose rs_packed]. now rewrite lookup_set_same. }
  destruct (lookup loc (rs_loose st)) as [[h|]|] eqn:L; [exact SetV|exfalso; now apply (no_broken_lookup st loc NB')|].
  destruct (lookup loc (rs_packed st)) as [h|] eqn:P; [|exact SetV].
  exfalso. apply lookup_none_hasb in L. rewrite C in L; [discriminate|exact I|].
  destruct (hasb loc (rs_packed st)) eqn:X; [reflexivity|]. apply lookup_none_hasb in X. congruence. Qed.

(* whatever git-bug's fetches, writes and removals and stock git's packing do, in whatever order, no reference is ever
   left broken *)
Theorem ref_session_no_broken steps : forall rs, no_broken rs -> no_broken (rs_run steps rs).
Proof. unfold rs_run. induction steps as [|s t IH]; intros rs NB; cbn; [exact NB|]. apply IH.
  destruct s as [inside ups|loc h|loc|]; cbn.
  - now apply fetch_no_broken.
  - now apply rs_set_no_broken.
  - now apply rs_del_no_broken.
  - now apply rs_pack_all_no_broken. Qed.

(* why the packed references have to be made loose before EVERY fetch (and not once per opened repository): a
   reference fetched before, packed by git pack-refs / git gc, then updated without unpacking, is left broken *)
Definition ex_loc : list str := [s_refs; s_remotes; lit "origin"; s_bugs; lit "b1"].
Definition ex_inside (l : list str) : bool := prefixb str_eqb [s_refs; s_remotes; lit "origin"; s_bugs] l.
Lemma fetch_without_unpack_breaks :
  let rs1 := rs_fetch ex_inside [(ex_loc, 1)] (mkrs [] []) in     (* first pull: unpacks, creates the tracking reference *)
  let rs2 := rs_pack_all rs1 in                                  (* git gc *)
  rs_view rs2 ex_loc = RPoints 1 /\
  rs_view (rs_updates ex_inside [(ex_loc, 2)] rs2) ex_loc = RBroken /\     (* second pull, no unpacking *)
  rs_view (rs_fetch ex_inside [(ex_loc, 2)] rs2) ex_loc = RPoints 2.       (* second pull as FetchRefs does it *)
Proof. vm_compute. repeat split. Qed.

(* ------------------------------------------------------------------ packed-refs is stock git's; git-bug never packs

   The packed-refs file as stock git reads it (refs/packed-backend.c): a line is a header or comment ("# pack-refs
   with: ..."), a peeled value ("^" and an object id) or an object id, one blank and a reference name. Anything else —
   "ref: refs/remotes/origin/main refs/remotes/origin/HEAD", what go-git's PackRefs writes for a symbolic reference such
   as the refs/remotes/origin/HEAD of every clone — makes every git command die with "unexpected line in
   .git/packed-refs". git pack-refs leaves symbolic references loose. git-bug has no reason to write into that file at
   all: none of its steps adds an entry, however many references there are and however long the process lives; the
   only entries that ever appear are those stock git's own packing puts there. *)
Definition is_hex (c : N) : bool := is_digit c || ((97 <=? c) && (c <=? 102)).
Definition oid_okb (l : str) : bool := Nat.eqb (List.length l) 40 && forallb is_hex l.
Definition refname_char (c : N) : bool := (32 <? c) && negb (c =? 127).
Definition packed_line_okb (l : str) : bool :=
  match l with
  | 35 :: _ => true                                                  (* # ... *)
  | 94 :: r => oid_okb r                                             (* ^<object id>: the peeled value of the tag above *)
  | _ => oid_okb (firstn 40 l) &&
         match skipn 40 l with
         | 32 :: name => prefixb N.eqb (lit "refs/") name && forallb refname_char name
         | _ => false
         end
  end.

Definition is_pack (s : rstep) : bool := match s with SPackAll => true | _ => false end.

Lemma rs_cas_packed loc new rs : rs_packed (rs_cas loc new rs) = rs_packed rs.
Proof. unfold rs_cas. destruct (lookup loc (rs_loose rs)) as [[h|]|]; [reflexivity|reflexivity|].
  destruct (lookup loc (rs_packed rs)); reflexivity. Qed.

Lemma rs_updates_packed inside ups : forall rs, rs_packed (rs_updates inside ups rs) = rs_packed rs.
Proof. unfold rs_updates. induction (filter (fun u => inside (fst u)) ups) as [|u t IH]; intros rs; cbn; [reflexivity|].
  rewrite IH. apply rs_cas_packed. Qed.

Lemma rs_step_packed rs s : is_pack s = false -> incl (rs_packed (rs_step rs s)) (rs_packed rs).
Proof. destruct s as [inside ups|loc h|loc|]; cbn; intros H; [| | |discriminate].
  - unfold rs_fetch. rewrite rs_updates_packed. cbn. apply incl_refl.
  - apply incl_refl.
  - unfold del_at. intros e He. now apply filter_In in He as [He _]. Qed.

(* whatever git-bug's fetches, reference writes and removals, in whatever number and order: every entry of packed-refs
   afterwards was there before *)
Theorem gitbug_never_packs steps : forall rs, forallb (fun s => negb (is_pack s)) steps = true ->
  incl (rs_packed (rs_run steps rs)) (rs_packed rs).
Proof. unfold rs_run. induction steps as [|s t IH]; intros rs H; cbn; [apply incl_refl|].
  cbn in H. apply andb_true_iff in H as [Hs Ht]. apply negb_true_iff in Hs.
  eapply incl_tran; [apply IH; exact Ht|]. now apply rs_step_packed. Qed.

Lemma packed_line_examples :
  packed_line_okb (lit "# pack-refs with: peeled fully-peeled sorted ") = true /\
  packed_line_okb (lit "5f2d3a0c9b8e7d6c5b4a39281706f5e4d3c2b1a0 refs/remotes/origin/main") = true /\
  packed_line_okb (lit "^5f2d3a0c9b8e7d6c5b4a39281706f5e4d3c2b1a0") = true /\
  packed_line_okb (lit "ref: refs/remotes/origin/main refs/remotes/origin/HEAD") = false /\
  packed_line_okb (lit "5f2d3a0c9b8e7d6c5b4a39281706f5e4d3c2b1a0 refs/heads/with blank") = false /\
  packed_line_okb (lit "5f2d3a0c9b8e7d6c5b4a39281706f5e4d3c2b1a0") = false.
Proof. vm_compute. repeat split; reflexivity. Qed.
