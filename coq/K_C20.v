(* C20 — correspondence and property checkers evaluated on the implementation's observations. *)
From Coq Require Import List Arith Lia Bool ZArith.
Import ListNotations.
From GB Require Export Page.

(* what the harness observed from the real *Con function *)
Inductive obs :=
| OOk (items : list nat) (hasnext hasprev : bool) (total : nat) (startc endc : option nat) (nodes_ok : bool)
| OErrFirst | OErrLast | OOther.

Record case := mkcase { c_n : nat; c_in : input; c_obs : obs }.

Fixpoint list_nat_eqb (a b : list nat) : bool :=
  match a, b with [], [] => true | x :: a', y :: b' => Nat.eqb x y && list_nat_eqb a' b' | _, _ => false end.
Definition opt_nat_eqb (a b : option nat) :=
  match a, b with Some x, Some y => Nat.eqb x y | None, None => true | _, _ => false end.

(* model prediction, in the shape of an observation *)
Definition predict (c : case) : obs :=
  match paginate (c_n c) (c_in c) with
  | Ok p => OOk (p_items p) (p_hasnext p) (p_hasprev p) (p_total p)
                (hd_error (p_items p)) (hd_error (rev (p_items p))) true
  | ErrFirst => OErrFirst
  | ErrLast => OErrLast
  end.

Definition obs_eqb (a b : obs) : bool :=
  match a, b with
  | OOk i1 n1 p1 t1 s1 e1 k1, OOk i2 n2 p2 t2 s2 e2 k2 =>
      list_nat_eqb i1 i2 && Bool.eqb n1 n2 && Bool.eqb p1 p2 && Nat.eqb t1 t2 &&
      opt_nat_eqb s1 s2 && opt_nat_eqb e1 e2 && Bool.eqb k1 k2
  | OErrFirst, OErrFirst | OErrLast, OErrLast => true
  | _, _ => false
  end.

Definition agrees (c : case) : bool := obs_eqb (predict c) (c_obs c).

(* ---- the property itself, as a predicate on what the implementation returned ---- *)

Definition neg (z : option Z) := match z with Some v => (v <? 0)%Z | None => false end.

(* offset designated by a cursor, if it designates an element of the list *)
Definition cur_off (n : nat) (c : option cursor) : option nat :=
  match c with Some (Off o) => if Nat.ltb o n then Some o else None | _ => None end.

Fixpoint consecutive (l : list nat) : bool :=
  match l with
  | a :: ((b :: _) as t) => Nat.eqb b (S a) && consecutive t
  | _ => true
  end.

(* inside the requested window: strictly after the element `after` designates, strictly before the one `before`
   designates - whatever their relative position (the checker used to follow the pinned template here, which looked
   for `before` only in what was left after `after`: a loosened check, corrected) *)
Definition in_window (n : nat) (i : input) (x : nat) : bool :=
  Nat.ltb x n &&
  match cur_off n (i_after i) with Some a => Nat.ltb a x | None => true end &&
  match cur_off n (i_before i) with Some b => Nat.ltb x b | None => true end.

Definition C20_ok (c : case) : bool :=
  let n := c_n c in let i := c_in c in
  match c_obs c with
  | OErrFirst => neg (i_first i)
  | OErrLast => neg (i_last i) && negb (neg (i_first i))
  | OOther => false
  | OOk items hn hp total sc ec nodes_ok =>
      negb (neg (i_first i)) && negb (neg (i_last i)) &&
      nodes_ok && Nat.eqb total n &&
      consecutive items && forallb (in_window n i) items &&
      opt_nat_eqb sc (hd_error items) && opt_nat_eqb ec (hd_error (rev items)) &&
      (* forward paging: first/after only *)
      match i_first i, i_last i, i_before i with
      | Some f, None, None =>
          let o := match cur_off n (i_after i) with Some a => S a | None => 0 end in
          let k := Z.to_nat f in
          list_nat_eqb items (seq o (Nat.min k (n - o))) && Bool.eqb hn (Nat.ltb k (n - o))
      | _, _, _ => true
      end &&
      (* backward paging: last/before only *)
      match i_last i, i_first i, i_after i with
      | Some l, None, None =>
          let b := match cur_off n (i_before i) with Some b => b | None => n end in
          let k := Z.to_nat l in
          list_nat_eqb items (seq (b - Nat.min k b) (Nat.min k b)) && Bool.eqb hp (Nat.ltb k b)
      | _, _, _ => true
      end
  end.

Fixpoint index_filter {A} (f : A -> bool) (i : nat) (l : list A) : list nat :=
  match l with [] => [] | x :: t => if f x then index_filter f (S i) t else i :: index_filter f (S i) t end.

Definition mismatches (cs : list case) : list nat := index_filter agrees 0 cs.
Definition failing (cs : list case) : list nat := index_filter C20_ok 0 cs.
