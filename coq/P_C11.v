(* C11 — the cache always agrees with a cache rebuilt from the git data. Property theorems only.

   Model: Cache.v (cache.RepoCache: one bug and one identity SubCache per user) layered on the session
   model Sync.sstep / World.step; `rebuild` of the git data is the specification.  `fixed` is the
   repaired code; the four `_refuted` theorems are the code as found (one defect each). *)
From Coq Require Import List Arith NArith Lia Bool.
Import ListNotations.
From GB Require Import Reach Sort Read World Sync KMap SubCache SyncFrame Cache K_C11.

(* every quiescent state reachable by any sequence of cache-level actions of any number of users is coherent:
   excerpts = rebuilt excerpts, index = rebuilt index, every loaded entity = what its ref reads as (bugs and identities) *)
Theorem C11_coherent n cap evs cw : crun fixed cap (cw0 n) evs = Some cw ->
  forall r, r < length (ucs cw) -> quiescent cw r -> coherent cw r.
Proof. exact (Cache.C11_coherent n cap evs cw). Qed.
Print Assumptions C11_coherent.

(* a coherent cache serves what the rebuilt cache serves: same excerpts, same index documents, same resolved entities *)
Theorem C11_views_equal cw r : coherent cw r ->
  let u := ucache_of cw r in let rb := rebuilt (bug_git cw r) in let ri := rebuilt (id_git cw r) in
  sx (cb u) = sx rb /\ si (cb u) = si rb /\ (forall e, bug_served cw r (cb u) e = bug_served cw r rb e) /\
  sx (ci u) = sx ri /\ si (ci u) = si ri /\ (forall k, id_served cw r (ci u) k = id_served cw r ri k).
Proof. exact (Cache.C11_views_equal cw r). Qed.
Print Assumptions C11_views_equal.

(* ... hence the same listing, known labels, answers to every query of the battery incl. full-text search, and
   metadata lookups: K_C11.answers computes them from exactly these components (for any operation table) *)
Theorem C11_answers_equal cw r t ir : coherent cw r ->
  let u := ucache_of cw r in
  answers t ir (st (ww (gw cw))) (sx (cb u)) (si (cb u)) (sx (ci u)) (si (ci u)) =
  answers t ir (st (ww (gw cw))) (rebuild (bug_git cw r)) (rebuild (bug_git cw r)) (rebuild (id_git cw r)) (rebuild (id_git cw r)).
Proof. exact (Cache.C11_any_view cw r _ (answers t ir (st (ww (gw cw))))). Qed.
Print Assumptions C11_answers_equal.

(* a pull makes new and updated bugs and identities visible, searchable and resolvable without a rebuild *)
Theorem C11_pull_visible n cap evs r ims bms cw : crun fixed cap (cw0 n) (evs ++ [VPull r ims bms]) = Some cw ->
  r < length (ucs cw) -> quiescent cw r ->
  (forall e b, gfb (gw cw) r e = Some b ->
     kget e (sx (cb (ucache_of cw r))) = Some (clean b) /\ kget e (si (cb (ucache_of cw r))) = Some (clean b) /\
     bug_served cw r (cb (ucache_of cw r)) e = Some (clean b)) /\
  (forall k l, gfi (iw cw) r k = Some l ->
     kget k (sx (ci (ucache_of cw r))) = Some (clean l) /\ id_served cw r (ci (ucache_of cw r)) k = Some (clean l)).
Proof. exact (Cache.C11_pull_visible n cap evs r ims bms cw). Qed.
Print Assumptions C11_pull_visible.

(* a loaded bug always is the entity its ref points to (head and operations): an edit made through the cache
   after a merge is committed on top of the merged head *)
Theorem C11_edit_after_merge_builds_on_merge n cap evs cw : crun fixed cap (cw0 n) evs = Some cw ->
  forall r, r < length (ucs cw) -> forall e m, kget e (sl (cb (ucache_of cw r))) = Some m ->
  gfb (gw cw) r e = Some (m_base m) /\ alookup e (locals (ww (gw cw)) r) = Some (fst (m_base m)).
Proof. exact (Cache.C11_edit_after_merge_builds_on_merge n cap evs cw). Qed.
Print Assumptions C11_edit_after_merge_builds_on_merge.

(* ... and the commit itself: a successful Commit through the cache writes one commit whose only parent is the head of the
   loaded bug, which is where the user's ref was (after a pull: the merged head, whatever was staged when the pull arrived),
   and moves the ref there: later edits build on the merged history *)
Theorem C11_commit_is_child_of_loaded_head n cap evs cw r e id au cw' : crun fixed cap (cw0 n) evs = Some cw ->
  cstep fixed cap cw (VCommit r e id au) = Some (cw', CDone) ->
  exists h m, kget e (sl (cb (ucache_of cw r))) = Some m /\ fst (m_base m) = h /\
              alookup e (locals (ww (gw cw)) r) = Some h /\
              alookup e (locals (ww (gw cw')) r) = Some (length (st (ww (gw cw)))) /\
              parents (st (ww (gw cw'))) (length (st (ww (gw cw)))) = [h].
Proof. exact (Cache.C11_commit_is_child_of_loaded_head n cap evs cw r e id au cw'). Qed.
Print Assumptions C11_commit_is_child_of_loaded_head.

(* saving with CommitAsNeeded (terminal UI, bridge exporters): with staged operations it is exactly Commit (so the theorems above
   and C11_coherent cover it: the excerpt, the index document and the cache file are refreshed after the commit); with nothing
   staged it succeeds, writes nothing and leaves everything the cache serves as it was *)
Theorem C11_commit_as_needed n cap evs cw r e id au m : crun fixed cap (cw0 n) evs = Some cw -> r < length (ucs cw) ->
  kget e (sl (cb (ucache_of cw r))) = Some m ->
  (is_dirty m = true -> cstep fixed cap cw (VCommitAsNeeded r e id au) = cstep fixed cap cw (VCommit r e id au)) /\
  (is_dirty m = false -> exists cw', cstep fixed cap cw (VCommitAsNeeded r e id au) = Some (cw', CDone) /\ gw cw' = gw cw /\ iw cw' = iw cw /\
     sx (cb (ucache_of cw' r)) = sx (cb (ucache_of cw r)) /\ si (cb (ucache_of cw' r)) = si (cb (ucache_of cw r)) /\
     sl (cb (ucache_of cw' r)) = sl (cb (ucache_of cw r)) /\ ci (ucache_of cw' r) = ci (ucache_of cw r) /\
     forall r', r' <> r -> ucache_of cw' r' = ucache_of cw r').
Proof. exact (Cache.C11_commit_as_needed n cap evs cw r e id au m). Qed.
Print Assumptions C11_commit_as_needed.

(* the code as found: each defect alone leads to a quiescent state that is not coherent *)
Theorem C11_index_on_merge_refuted :
  refuted {| v_index_merged := false; v_ident_updated := true; v_merge_result := true; v_keep_newest := true |} 2.
Proof. exact Cache.index_on_merge_refuted. Qed.
Print Assumptions C11_index_on_merge_refuted.

Theorem C11_identity_merge_refuted :
  refuted {| v_index_merged := true; v_ident_updated := false; v_merge_result := true; v_keep_newest := true |} 2.
Proof. exact Cache.identity_merge_refuted. Qed.
Print Assumptions C11_identity_merge_refuted.

Theorem C11_merge_result_refuted :
  refuted {| v_index_merged := true; v_ident_updated := true; v_merge_result := false; v_keep_newest := true |} 2.
Proof. exact Cache.merge_result_refuted. Qed.
Print Assumptions C11_merge_result_refuted.

Theorem C11_evict_newest_refuted :
  refuted {| v_index_merged := true; v_ident_updated := true; v_merge_result := true; v_keep_newest := false |} 1.
Proof. exact Cache.evict_newest_refuted. Qed.
Print Assumptions C11_evict_newest_refuted.

(* the hypotheses are satisfiable: the four witness sessions run to the end under the repaired code; in the third
   the edit made after the merge is a child of the merge commit and the bug reads with both users' operations *)
Example C11_sessions_exist :
  (exists cw, crun fixed 2 (cw0 2) witness_index = Some cw) /\ (exists cw, crun fixed 2 (cw0 2) witness_identity = Some cw) /\
  (exists cw, crun fixed 1 (cw0 2) witness_evict = Some cw) /\
  (exists cw, crun fixed 2 (cw0 2) (witness_merge ++ [VResolve 1 0; VStage 1 0 202%N; VCommit 1 0 14%N 2%N]) = Some cw /\
              quiescentb_at cw 1 = true /\
              gfb (gw cw) 1 0 = Some (4, [100%N; 101%N; 201%N; 202%N]) /\ parents (st (ww (gw cw))) 4 = [3] /\ parents (st (ww (gw cw))) 3 = [2; 1]).
Proof. exact Cache.witnesses_run_fixed. Qed.

(* a pull that updates a bug loaded with a staged operation: the merged entity replaces it, the cache is quiescent and the
   next edit made through the cache is a child of the merged head *)
Example C11_pull_over_staged_session :
  (exists cw, crun fixed 2 (cw0 2) witness_pull_over_staged = Some cw /\ quiescentb_at cw 1 = true /\
              kget 0 (sl (cb (ucache_of cw 1))) = Some (clean (1, [100%N; 101%N]))) /\
  (exists cw, crun fixed 2 (cw0 2) (witness_pull_over_staged ++ [VResolve 1 0; VStage 1 0 202%N; VCommit 1 0 12%N 2%N]) = Some cw /\
              gfb (gw cw) 1 0 = Some (2, [100%N; 101%N; 202%N]) /\ parents (st (ww (gw cw))) 2 = [1]).
Proof. exact Cache.pull_over_staged_runs_fixed. Qed.

(* a bug edited and saved with CommitAsNeeded: one commit on top of its head, quiescent, excerpt = the committed bug; CommitAsNeeded
   again (bug, then identity) with nothing staged: success, git data and excerpts unchanged *)
Example C11_commit_as_needed_session :
  (exists cw, crun fixed 2 (cw0 2) witness_commit_as_needed = Some cw /\ quiescentb_at cw 0 = true /\
              gfb (gw cw) 0 0 = Some (2, [100%N; 101%N]) /\ parents (st (ww (gw cw))) 2 = [0] /\
              kget 0 (sx (cb (ucache_of cw 0))) = Some (clean (2, [100%N; 101%N])) /\
              exists cw', cstep fixed 2 cw (VCommitAsNeeded 0 0 0%N 0%N) = Some (cw', CDone) /\ gw cw' = gw cw /\
                          sx (cb (ucache_of cw' 0)) = sx (cb (ucache_of cw 0)) /\
                          exists cw'', cstep fixed 2 cw' (VIdCommitAsNeeded 0 0) = Some (cw'', CDone) /\ iw cw'' = iw cw /\
                                       sx (ci (ucache_of cw'' 0)) = sx (ci (ucache_of cw 0))).
Proof. exact Cache.commit_as_needed_runs_fixed. Qed.

(* ---- added after the audit of the unchanged tree (C11-A3, C11-A4, C11-A1) ---- *)

(* Identity.Commit, repaired: when it accepts, the new chain extends the chain the reference holds: no version the reference had
   (after a pull: the pulled ones) is dropped, whichever in-memory object commits *)
Theorem C11_identity_commit_keeps_versions ref known news l : id_commit true ref known news = Some l -> exists s, l = ref ++ s.
Proof. exact (Cache.id_commit_keeps_versions ref known news l). Qed.
Print Assumptions C11_identity_commit_keeps_versions.

(* the code as found: an object that knows [1] commits version 2 while the reference holds [1; 3] (version 3 was pulled): [1; 2] *)
Theorem C11_identity_commit_unguarded_refuted : exists ref known news l, id_commit false ref known news = Some l /\ ~ exists s, l = ref ++ s.
Proof. exact Cache.id_commit_unguarded_refuted. Qed.
Print Assumptions C11_identity_commit_unguarded_refuted.

(* RepoCache.Pull, repaired, reads every merge result (the sub-caches register merged entities while their results are read; C11_pull_visible
   and C11_coherent then hold whatever the statuses are, refused entities included); as found it stopped at the first refused entity *)
Theorem C11_pull_reads_every_result rs : pull_read true rs = rs.
Proof. exact (Cache.pull_reads_every_result rs). Qed.
Print Assumptions C11_pull_reads_every_result.
Theorem C11_pull_early_return_refuted : exists rs, In MNew rs /\ ~ In MNew (pull_read false rs).
Proof. exact Cache.pull_early_return_refuted. Qed.
Print Assumptions C11_pull_early_return_refuted.

(* a pull in which an identity edited on both sides is refused and a bug is new: outcome (invalid; new), the identity keeps the local chain,
   the bug is listed, indexed and resolvable at once *)
Example C11_refused_pull_session :
  exists cw, crun fixed 2 (cw0 2) witness_refused_pull = Some cw /\
  exists cw', cstep fixed 2 cw (VPull 0 [1] [(0, 0%N, 0%N)]) = Some (cw', CPulled [MInvalid] [MNew]) /\
              quiescentb_at cw' 0 = true /\
              gfi (iw cw') 0 1 = Some [2%N; 5%N] /\
              kget 0 (sx (cb (ucache_of cw' 0))) = Some (clean (0, [100%N])) /\
              kget 0 (si (cb (ucache_of cw' 0))) = Some (clean (0, [100%N])) /\
              bug_served cw' 0 (cb (ucache_of cw' 0)) 0 = Some (clean (0, [100%N])).
Proof. exact Cache.refused_pull_runs_fixed. Qed.

(* closing with an uncommitted operation: the excerpt holds it; K_C11.forget (the repaired Close) then reopen: excerpts and index = rebuilt *)
Example C11_close_with_uncommitted_session :
  exists cw, crun fixed 2 (cw0 2) witness_close_staged = Some cw /\ quiescentb_at cw 0 = false /\
  kget 0 (sx (cb (ucache_of cw 0))) = Some {| m_base := (0, [100%N]); m_staged := [101%N] |} /\
  cstep fixed 2 cw (VReopen 0 0) = None /\
  exists cw', cstep fixed 2 (forget cw 0) (VReopen 0 0) = Some (cw', CDone) /\
              sx (cb (ucache_of cw' 0)) = rebuild (bug_git cw' 0) /\ si (cb (ucache_of cw' 0)) = rebuild (bug_git cw' 0) /\
              sl (cb (ucache_of cw' 0)) = [].
Proof. exact K_C11.close_staged_runs_fixed. Qed.
