(* Further facts about Read.read used by the C03 property file. *)
From Coq Require Import List Arith NArith Lia Bool Sorting.Sorted Sorting.Permutation.
Import ListNotations.
From GB Require Import Reach Sort Read.
Local Open Scope N_scope.

Lemma read_order s h ops : read s h = Some ops ->
  exists l, ops = concat (map p_ops l) /\ sorted l /\ Permutation l (packs_of s (reachl s h)).
Proof. unfold read. destruct (valid s h); [|discriminate]. intros H. inversion H; subst.
  eexists. split; [reflexivity|]. split; [apply isort_sorted|]. symmetry. apply isort_perm. Qed.

(* the result does not depend on the order in which the reachable packs are enumerated *)
Lemma isort_perm_indep l1 l2 : Permutation l1 l2 -> key_inj l1 -> isort l1 = isort l2.
Proof. intros HP Hinj. apply sorted_perm_unique; try apply isort_sorted.
  - rewrite <- (isort_perm l1), <- (isort_perm l2). exact HP.
  - intros a b Ha Hb. apply Hinj; eapply Permutation_in; try (symmetry; apply isort_perm); assumption. Qed.

Lemma valid_check s h i : wf_store s -> valid s h = true -> reach s h i -> check_commit s i = true.
Proof. apply valid_reach_check. Qed.

Lemma refused_if s h i : wf_store s -> reach s h i -> check_commit s i = false -> read s h = None.
Proof. intros W R C. unfold read. destruct (valid s h) eqn:V; [|reflexivity].
  rewrite (valid_check s h i W V R) in C. discriminate. Qed.

Section anomalies.
Variables (s : store) (h i : nat) (c : commit).
Hypothesis W : wf_store s.
Hypothesis R : reach s h i.
Hypothesis Hc : nth_error s i = Some c.

Lemma refuse_clock_not_increasing q cq : In q (c_parents c) -> nth_error s q = Some cq ->
  p_edit (c_pack c) <= p_edit (c_pack cq) -> read s h = None.
Proof. intros Hq Hcq Hle. apply (refused_if s h i W R). unfold check_commit. rewrite Hc.
  apply andb_false_iff. right. apply not_true_is_false. intros F. rewrite forallb_forall in F.
  specialize (F q Hq). rewrite Hcq in F. apply andb_true_iff in F as [F _]. apply N.ltb_lt in F. lia. Qed.

Lemma refuse_jump q cq : c_parents c = [q] -> nth_error s q = Some cq ->
  jump_limit < p_edit (c_pack c) - p_edit (c_pack cq) -> read s h = None.
Proof. intros Hq Hcq Hj. apply (refused_if s h i W R). unfold check_commit. rewrite Hc, Hq. cbn [forallb length Nat.ltb Nat.leb].
  rewrite Hcq. apply andb_false_iff. right. cbn. rewrite andb_true_r. apply andb_false_iff. right.
  apply N.leb_gt. exact Hj. Qed.

Lemma refuse_merge_with_ops : (1 < length (c_parents c))%nat -> p_ops (c_pack c) <> [] -> read s h = None.
Proof. intros Hm Ho. apply (refused_if s h i W R). unfold check_commit. rewrite Hc.
  apply Nat.ltb_lt in Hm. rewrite Hm. destruct (p_ops (c_pack c)); [contradiction|].
  rewrite andb_false_r. reflexivity. Qed.

Lemma refuse_root_without_create : c_parents c = [] -> p_create (c_pack c) = 0 -> read s h = None.
Proof. intros Hp Hz. apply (refused_if s h i W R). unfold check_commit. rewrite Hc, Hp, Hz. cbn.
  rewrite !andb_false_r. reflexivity. Qed.

Lemma refuse_zero_edit : p_edit (c_pack c) = 0 -> read s h = None.
Proof. intros Hz. apply (refused_if s h i W R). unfold check_commit. rewrite Hc, Hz. reflexivity. Qed.
End anomalies.

Lemma refuse_two_roots s h a b : wf_store s -> reach s h a -> reach s h b -> a <> b ->
  parents s a = [] -> parents s b = [] -> read s h = None.
Proof. intros W Ra Rb Hab Pa Pb. unfold read. destruct (valid s h) eqn:V; [|reflexivity].
  unfold valid in V. apply andb_true_iff in V as [_ V]. apply Nat.eqb_eq in V.
  assert (Ia : In a (filter (is_root s) (reachl s h))) by (apply filter_In; split; [now apply reachl_spec|unfold is_root; now rewrite Pa]).
  assert (Ib : In b (filter (is_root s) (reachl s h))) by (apply filter_In; split; [now apply reachl_spec|unfold is_root; now rewrite Pb]).
  destruct (filter (is_root s) (reachl s h)) as [|x [|y t]]; cbn in V; try discriminate.
  destruct Ia as [<-|[]]. destruct Ib as [<-|[]]. contradiction. Qed.
