From Coq Require Import List Arith NArith Bool Lia Sorting.Sorted.
Import ListNotations.
Local Open Scope N_scope.

Section Sig.
Variable key : Type.

(* one identity version as seen by ValidKeysAtTime: the time recorded for the clock (if any) and the key set *)
Definition version := (option N * list key)%type.

(* transcription of the loop *)
Fixpoint vk_go (vs : list version) (last : N) (t : N) (result : list key) : list key :=
  match vs with
  | [] => result
  | (ot, ks) :: rest =>
      let ref := match ot with Some x => x | None => last end in
      if N.ltb t ref then result else vk_go rest ref t ks
  end.
Definition valid_keys_at (vs : list version) (t : N) : list key := vk_go vs 0 t [].

(* effective times: a version without the clock inherits the previous reference time *)
Fixpoint eff (vs : list version) (last : N) : list (N * list key) :=
  match vs with
  | [] => []
  | (ot, ks) :: rest => let ref := match ot with Some x => x | None => last end in (ref, ks) :: eff rest ref
  end.

Definition spec (l : list (N * list key)) (t : N) (dflt : list key) : list key :=
  fold_left (fun acc p => if N.leb (fst p) t then snd p else acc) l dflt.

Lemma vk_go_eff vs last t result : vk_go vs last t result =
  (fix go (l : list (N * list key)) (res : list key) := match l with [] => res | (r, ks) :: rest => if N.ltb t r then res else go rest ks end) (eff vs last) result.
Proof. revert last result. induction vs as [|[ot ks] rest IH]; intros last result; cbn; [reflexivity|].
  destruct (N.ltb t _); [reflexivity|]. apply IH. Qed.

(* under non-decreasing effective times (Identity.Validate), stopping at the first version that is too recent
   is the same as taking the keys of the last version whose time is <= t *)
Lemma go_spec l : forall res t lo, Sorted N.le (lo :: map fst l) ->
  (fix go (l : list (N * list key)) (res : list key) := match l with [] => res | (r, ks) :: rest => if N.ltb t r then res else go rest ks end) l res
  = spec l t res.
Proof. induction l as [|[r ks] rest IH]; intros res t lo S; cbn; [reflexivity|].
  inversion S as [|? ? S' Hd]; subst. destruct (N.ltb_spec t r) as [Hlt|Hge].
  - (* every later version is too recent as well *)
    assert (N.leb r t = false) as -> by (apply N.leb_gt; exact Hlt).
    clear IH. cbn in S'. assert (F : Forall (fun p => t < fst p) rest).
    { apply Sorted_StronglySorted in S'; [|intros x y z; apply N.le_trans]. inversion S' as [|? ? _ Hall]; subst.
      rewrite Forall_forall in *. intros p Hp. specialize (Hall (fst p) (in_map fst _ _ Hp)). lia. }
    clear S S' Hd. induction rest as [|p rest IHr]; cbn; [reflexivity|]. inversion F; subst.
    assert (N.leb (fst p) t = false) as -> by (apply N.leb_gt; assumption). now apply IHr.
  - assert (N.leb r t = true) as -> by (apply N.leb_le; exact Hge). apply (IH ks t r). exact S'. Qed.

Theorem C08_keys_interval vs t : Sorted N.le (0 :: map fst (eff vs 0)) ->
  valid_keys_at vs t = spec (eff vs 0) t [].
Proof. intros S. unfold valid_keys_at. rewrite vk_go_eff. now apply (go_spec _ _ _ 0). Qed.

(* acceptance rule of readOperationPack, with OpenPGP as an oracle *)
Variable sig payload : Type.
Variable sig_ok : key -> payload -> sig -> bool.
Definition accept (vs : list version) (t : N) (p : payload) (s : option sig) : bool :=
  match valid_keys_at vs t with
  | [] => true
  | ks => match s with None => false | Some sg => existsb (fun k => sig_ok k p sg) ks end
  end.

Theorem C08_accept_unsigned vs t p s : valid_keys_at vs t = [] -> accept vs t p s = true.
Proof. unfold accept. now intros ->. Qed.
Theorem C08_reject_unsigned vs t p : valid_keys_at vs t <> [] -> accept vs t p None = false.
Proof. unfold accept. destruct (valid_keys_at vs t); [congruence|reflexivity]. Qed.
Theorem C08_reject_foreign vs t p sg : valid_keys_at vs t <> [] ->
  (forall k, In k (valid_keys_at vs t) -> sig_ok k p sg = false) -> accept vs t p (Some sg) = false.
Proof. unfold accept. destruct (valid_keys_at vs t) as [|k ks] eqn:E; [congruence|]. intros _ H.
  apply not_true_is_false. intros Hex. apply existsb_exists in Hex as (k' & Hin & Hok). rewrite H in Hok; [discriminate|exact Hin]. Qed.
Theorem C08_accept_signed vs t p sg k : In k (valid_keys_at vs t) -> sig_ok k p sg = true -> accept vs t p (Some sg) = true.
Proof. unfold accept. destruct (valid_keys_at vs t) as [|k0 ks] eqn:E; [reflexivity|]. intros Hin Hok.
  apply existsb_exists. exists k. split; auto. Qed.
End Sig.
Print Assumptions C08_keys_interval.
Print Assumptions C08_reject_foreign.
