From Coq Require Import List Arith NArith Bool Lia Sorting.Sorted.
Import ListNotations.
Local Open Scope N_scope.

Section Sig.
Variable key : Type.

(* one identity version as seen by ValidKeysAtTime: the time recorded for the clock (if any) and the key set *)
Definition version := (option N * list key)%type.

(* transcription of the loop *)
Fixpoint vk_go (vs : list version) (last : N) (t : N) (result : list key) : list key :=
  match vs with
  | [] => result
  | (ot, ks) :: rest =>
      let ref := match ot with Some x => x | None => last end in
      if N.ltb t ref then result else vk_go rest ref t ks
  end.
Definition valid_keys_at (vs : list version) (t : N) : list key := vk_go vs 0 t [].

(* effective times: a version without the clock inherits the previous reference time *)
Fixpoint eff (vs : list version) (last : N) : list (N * list key) :=
  match vs with
  | [] => []
  | (ot, ks) :: rest => let ref := match ot with Some x => x | None => last end in (ref, ks) :: eff rest ref
  end.

Definition spec (l : list (N * list key)) (t : N) (dflt : list key) : list key :=
  fold_left (fun acc p => if N.leb (fst p) t then snd p else acc) l dflt.

Lemma vk_go_eff vs last t result : vk_go vs last t result =
  (fix go (l : list (N * list key)) (res : list key) := match l with [] => res | (r, ks) :: rest => if N.ltb t r then res else go rest ks end) (eff vs last) result.
Proof. revert last result. induction vs as [|[ot ks] rest IH]; intros last result; cbn; [reflexivity|].
  destruct (N.ltb t _); [reflexivity|]. apply IH. Qed.

(* under non-decreasing effective times (Identity.Validate), stopping at the first version that is too recent
   is the same as taking the keys of the last version whose time is <= t *)
Lemma go_spec l : forall res t lo, Sorted N.le (lo :: map fst l) ->
  (fix go (l : list (N * list key)) (res : list key) := match l with [] => res | (r, ks) :: rest => if N.ltb t r then res else go rest ks end) l res
  = spec l t res.
Proof. induction l as [|[r ks] rest IH]; intros res t lo S; cbn; [reflexivity|].
  inversion S as [|? ? S' Hd]; subst. destruct (N.ltb_spec t r) as [Hlt|Hge].
  - (* every later version is too recent as well *)
    assert (N.leb r t = false) as -> by (apply N.leb_gt; exact Hlt).
    clear IH. cbn in S'. assert (F : Forall (fun p => t < fst p) rest).
    { apply Sorted_StronglySorted in S'; [|intros x y z; apply N.le_trans]. inversion S' as [|? ? _ Hall]; subst.
      rewrite Forall_forall in *. intros p Hp. specialize (Hall (fst p) (in_map fst _ _ Hp)). lia. }
    clear S S' Hd. induction rest as [|p rest IHr]; cbn; [reflexivity|]. inversion F; subst.
    assert (N.leb (fst p) t = false) as -> by (apply N.leb_gt; assumption). now apply IHr.
  - assert (N.leb r t = true) as -> by (apply N.leb_le; exact Hge). apply (IH ks t r). exact S'. Qed.

Theorem C08_keys_interval vs t : Sorted N.le (0 :: map fst (eff vs 0)) ->
  valid_keys_at vs t = spec (eff vs 0) t [].
Proof. intros S. unfold valid_keys_at. rewrite vk_go_eff. now apply (go_spec _ _ _ 0). Qed.

(* the clock part of Identity.Validate, for the one clock that matters here: once a version records the clock every
   later version records it too, with a value that does not decrease *)
Fixpoint id_valid (vs : list version) (last : option N) : bool :=
  match vs with
  | [] => true
  | (ot, _) :: rest =>
      match last, ot with
      | Some l, Some x => N.leb l x && id_valid rest (Some x)
      | Some _, None => false
      | None, _ => id_valid rest ot
      end
  end.
Lemma id_valid_sorted vs : forall lo last, match lo with Some l => l = last | None => last = 0 end ->
  id_valid vs lo = true -> Sorted N.le (last :: map fst (eff vs last)).
Proof. induction vs as [|[ot ks] rest IH]; intros lo last Hl V; cbn; [repeat constructor|].
  destruct lo as [l|]; cbn in V.
  - subst last. destruct ot as [x|]; [|discriminate]. apply andb_true_iff in V as [Hle V]. apply N.leb_le in Hle.
    constructor; [exact (IH (Some x) x eq_refl V)|constructor; exact Hle].
  - subst last. destruct ot as [x|].
    + constructor; [exact (IH (Some x) x eq_refl V)|constructor; apply N.le_0_l].
    + constructor; [exact (IH None 0 eq_refl V)|constructor; apply N.le_refl]. Qed.
Theorem C08_keys_interval_validated vs t : id_valid vs None = true -> valid_keys_at vs t = spec (eff vs 0) t [].
Proof. intros V. apply C08_keys_interval. exact (id_valid_sorted vs None 0 eq_refl V). Qed.

(* readable corollaries of the interval theorem *)
Lemma spec_app l1 l2 t d : spec (l1 ++ l2) t d = spec l2 t (spec l1 t d).
Proof. unfold spec. apply fold_left_app. Qed.

Lemma spec_all_later l t d : Forall (fun p => t < fst p) l -> spec l t d = d.
Proof. unfold spec. revert d. induction l as [|p l IH]; intros d F; cbn; [reflexivity|]. inversion F; subst.
  assert (N.leb (fst p) t = false) as -> by (apply N.leb_gt; assumption). now apply IH. Qed.

(* the keys in force at t are those of the LAST version whose time is <= t ... *)
Theorem C08_keys_last vs t l1 r ks l2 : Sorted N.le (0 :: map fst (eff vs 0)) ->
  eff vs 0 = l1 ++ (r, ks) :: l2 -> r <= t -> Forall (fun p => t < fst p) l2 -> valid_keys_at vs t = ks.
Proof. intros S E Hr F. rewrite (C08_keys_interval vs t S), E, spec_app. cbn [spec fold_left]. change (fold_left _ l2 ?d) with (spec l2 t d).
  cbn [fst snd]. assert (N.leb r t = true) as -> by (apply N.leb_le; exact Hr). now apply spec_all_later. Qed.

(* ... and there is none before the first version's time (no ordering needed: the loop stops at once) *)
Theorem C08_keys_none_before_first vs t r ks l : eff vs 0 = (r, ks) :: l -> t < r -> valid_keys_at vs t = [].
Proof. intros E Hlt. unfold valid_keys_at. rewrite vk_go_eff, E. assert (N.ltb t r = true) as -> by (apply N.ltb_lt; exact Hlt). reflexivity. Qed.

(* when no version is more recent than t the loop runs to the end: the keys of the last version *)
Definition last_keys (vs : list version) : list key := fold_left (fun _ v => snd v) vs [].
Lemma vk_go_all_le vs : forall last t res, Forall (fun p => fst p <= t) (eff vs last) ->
  vk_go vs last t res = fold_left (fun _ v => snd v) vs res.
Proof. induction vs as [|[ot ks] rest IH]; intros last t res F; cbn; [reflexivity|]. cbn in F. inversion F as [|? ? H1 H2]; subst. cbn in H1.
  assert (N.ltb t (match ot with Some x => x | None => last end) = false) as -> by (apply N.ltb_ge; exact H1). now apply IH. Qed.
Lemma keys_after_all vs t : Forall (fun p => fst p <= t) (eff vs 0) -> valid_keys_at vs t = last_keys vs.
Proof. intros F. unfold valid_keys_at, last_keys. now apply vk_go_all_le. Qed.

(* ---- later versions do not reach back ----
   A version created after a commit was written must not change which keys were in force at that commit's time:
   it has to carry a time strictly greater (Identity.Mutate gives it the clock's next value). *)
Definition lastref (vs : list version) (last : N) : N :=
  fold_left (fun l v => match fst v with Some x => x | None => l end) vs last.

Lemma vk_go_all_later more last t res : (forall p, In p (eff more last) -> t < fst p) -> vk_go more last t res = res.
Proof. destruct more as [|[ot ks] rest]; intros H; cbn; [reflexivity|].
  assert (N.ltb t (match ot with Some x => x | None => last end) = true) as ->; [|reflexivity].
  apply N.ltb_lt. apply (H (match ot with Some x => x | None => last end, ks)). cbn. left; reflexivity. Qed.

Lemma vk_go_later vs more t : forall last res, (forall p, In p (eff more (lastref vs last)) -> t < fst p) ->
  vk_go (vs ++ more) last t res = vk_go vs last t res.
Proof. induction vs as [|[ot ks] rest IH]; intros last res H; cbn.
  - apply vk_go_all_later. exact H.
  - destruct (N.ltb t _); [reflexivity|]. apply IH. exact H. Qed.

Theorem later_versions_do_not_reach_back vs more t : (forall p, In p (eff more (lastref vs 0)) -> t < fst p) ->
  valid_keys_at (vs ++ more) t = valid_keys_at vs t.
Proof. intros H. unfold valid_keys_at. apply vk_go_later. exact H. Qed.

(* acceptance rule of readOperationPack, with OpenPGP as an oracle *)
Variable sig payload : Type.
Variable sig_ok : key -> payload -> sig -> bool.
Definition accept (vs : list version) (t : N) (p : payload) (s : option sig) : bool :=
  match valid_keys_at vs t with
  | [] => true
  | ks => match s with None => false | Some sg => existsb (fun k => sig_ok k p sg) ks end
  end.

Theorem C08_accept_unsigned vs t p s : valid_keys_at vs t = [] -> accept vs t p s = true.
Proof. unfold accept. now intros ->. Qed.
Theorem C08_reject_unsigned vs t p : valid_keys_at vs t <> [] -> accept vs t p None = false.
Proof. unfold accept. destruct (valid_keys_at vs t); [congruence|reflexivity]. Qed.
Theorem C08_reject_foreign vs t p sg : valid_keys_at vs t <> [] ->
  (forall k, In k (valid_keys_at vs t) -> sig_ok k p sg = false) -> accept vs t p (Some sg) = false.
Proof. unfold accept. destruct (valid_keys_at vs t) as [|k ks] eqn:E; [congruence|]. intros _ H.
  apply not_true_is_false. intros Hex. apply existsb_exists in Hex as (k' & Hin & Hok). rewrite H in Hok; [discriminate|exact Hin]. Qed.
Theorem C08_accept_signed_ok vs t p sg k : In k (valid_keys_at vs t) -> sig_ok k p sg = true -> accept vs t p (Some sg) = true.
Proof. unfold accept. destruct (valid_keys_at vs t) as [|k0 ks] eqn:E; [reflexivity|]. intros Hin Hok.
  apply existsb_exists. exists k. split; auto. Qed.

(* OpenPGP as assumed: signatures are produced by [sign]; a signature made with key k' over payload p'
   verifies under k' over p' (correctness) and under no other key and over no other payload (unforgeability,
   restricted to honestly produced signatures: the only ones the harness can exhibit) *)
Variable sign : key -> payload -> sig.
Hypothesis sign_correct : forall k p, sig_ok k p (sign k p) = true.
Hypothesis sign_unforgeable : forall k p k' p', sig_ok k p (sign k' p') = true -> k = k' /\ p = p'.

Theorem C08_reject vs t p s : valid_keys_at vs t <> [] ->
  (s = None \/ exists k' p', s = Some (sign k' p') /\ (~ In k' (valid_keys_at vs t) \/ p' <> p)) ->
  accept vs t p s = false.
Proof. intros NE [->|(k' & p' & -> & Hbad)]; [now apply C08_reject_unsigned|]. apply C08_reject_foreign; [exact NE|].
  intros k Hin. apply not_true_is_false. intros Hok. apply sign_unforgeable in Hok as [-> ->]. destruct Hbad as [Hn|Hn]; [exact (Hn Hin)|now apply Hn]. Qed.

Theorem C08_accept_signed vs t p k : In k (valid_keys_at vs t) -> accept vs t p (Some (sign k p)) = true.
Proof. intros Hin. apply (C08_accept_signed_ok vs t p (sign k p) k Hin). apply sign_correct. Qed.

(* both directions at once, for a signature made with k' over p' *)
Theorem C08_accept_iff vs t p k' p' : accept vs t p (Some (sign k' p')) = true <->
  valid_keys_at vs t = [] \/ (In k' (valid_keys_at vs t) /\ p' = p).
Proof. split.
  - intros A. destruct (valid_keys_at vs t) as [|k0 ks] eqn:E; [now left|right].
    unfold accept in A. rewrite E in A. apply existsb_exists in A as (k & Hin & Hok). apply sign_unforgeable in Hok as [-> ->]. now split.
  - intros [E|[Hin ->]]; [now apply C08_accept_unsigned|now apply C08_accept_signed]. Qed.

(* the writer: operationPack.Write signs with Author.SigningKey = the first key of the LAST version whose private
   part is available (in memory or in the keyring); [have] says which private parts are available.
   [write_pinned]: the snapshot's writer stores an unsigned commit when there is none.
   [write]: the repaired writer refuses to store a commit which the reader would reject for want of a signature. *)
Definition signing_key (have : key -> bool) (vs : list version) : option key := find have (last_keys vs).
Definition write_pinned (vs : list version) (have : key -> bool) (p : payload) : option (option sig) :=
  Some (match signing_key have vs with Some k => Some (sign k p) | None => None end).
Definition write (vs : list version) (t : N) (have : key -> bool) (p : payload) : option (option sig) :=
  match signing_key have vs with
  | Some k => Some (Some (sign k p))
  | None => match valid_keys_at vs t with [] => Some None | _ => None end
  end.

(* whatever the repaired writer stores at a time not earlier than any version of its author is accepted back *)
Theorem C08_written_accepted vs t have p s : Forall (fun q => fst q <= t) (eff vs 0) ->
  write vs t have p = Some s -> accept vs t p s = true.
Proof. intros F W. unfold write, signing_key in W. destruct (find have (last_keys vs)) as [k|] eqn:Fk.
  - injection W as <-. apply C08_accept_signed. rewrite (keys_after_all vs t F). now apply find_some in Fk.
  - destruct (valid_keys_at vs t) eqn:E; [|discriminate]. injection W as <-. now apply C08_accept_unsigned. Qed.

(* row 20 of the defect table, as a statement about the snapshot's writer: with keys in force and no private key
   at hand it stores a commit which the reader rejects *)
Theorem C08_pinned_writer_unreadable vs t have p : valid_keys_at vs t <> [] -> signing_key have vs = None ->
  exists s, write_pinned vs have p = Some s /\ accept vs t p s = false.
Proof. intros NE Sk. exists None. unfold write_pinned. rewrite Sk. split; [reflexivity|now apply C08_reject_unsigned]. Qed.
(* what the writer stored stays readable whatever versions its author adds afterwards, provided they take a
   time after the commit's *)
Theorem C08_written_stays_accepted vs more t have p s : Forall (fun q => fst q <= t) (eff vs 0) ->
  (forall q, In q (eff more (lastref vs 0)) -> t < fst q) ->
  write vs t have p = Some s -> accept (vs ++ more) t p s = true.
Proof. intros F L W. unfold accept. rewrite (later_versions_do_not_reach_back vs more t L).
  exact (C08_written_accepted vs t have p s F W). Qed.
End Sig.
Print Assumptions C08_keys_interval.
Print Assumptions C08_reject.

Arguments valid_keys_at {key}.
Arguments eff {key}.
Arguments id_valid {key}.
Arguments spec {key}.
Arguments last_keys {key}.
Arguments signing_key {key}.
Arguments accept {key sig payload}.
Arguments write {key sig payload}.
Arguments write_pinned {key sig payload}.
Arguments lastref {key}.

(* an ideal signature scheme (a signature names its key and its payload): shows the hypotheses on the oracle are
   satisfiable (P_C08.v) and instantiates the model in the correspondence check (K_C08.v) *)
Definition ideal_ok (k p : N) (s : N * N) : bool := N.eqb k (fst s) && N.eqb p (snd s).
Definition ideal_sign (k p : N) : N * N := (k, p).

(* example history used in P_C08.v *)
Definition ex_history : list (version N) := [(None, []); (Some 3, [1]); (Some 5, [2]); (Some 7, [])].

(* a version that takes the SAME time as a commit written before it (the pinned Identity.Mutate recorded the
   clock's current value, which is the time of the last commit written) does reach back: the author's own last
   commit, rightly unsigned, now needs a signature *)
Lemma same_time_version_reaches_back : exists (vs : list (version N)) v t,
  fst v = Some t /\ valid_keys_at vs t = [] /\ valid_keys_at (vs ++ [v]) t <> [].
Proof. exists [(Some 1, [])], (Some 3, [7]), 3. split; [reflexivity|]. split; [reflexivity|]. vm_compute. discriminate. Qed.
