(* Lemmas about the importer model of Import.v. *)
From Coq Require Import List Arith NArith Bool Lia.
Import ListNotations.
From GB Require Import Import ImportText.
Local Open Scope N_scope.

(* ------------------------------------------------------------------ small facts *)

Lemma memN_In x l : memN x l = true <-> In x l.
Proof. induction l as [|y t IH]; cbn; [split; [discriminate|tauto]|].
  rewrite orb_true_iff, IH, N.eqb_eq. split; intros [H|H]; auto. Qed.
Lemma memN_false x l : memN x l = false <-> ~ In x l.
Proof. rewrite <- memN_In. destruct (memN x l); split; intros; congruence. Qed.
Lemma memN_app x a b : memN x (a ++ b) = memN x a || memN x b.
Proof. induction a; cbn; [reflexivity|]. now rewrite IHa, orb_assoc. Qed.

Lemma text_eqb_refl a : text_eqb a a = true.
Proof. induction a; cbn; [reflexivity|]. now rewrite N.eqb_refl. Qed.
Lemma text_eqb_eq a b : text_eqb a b = true <-> a = b.
Proof. revert b. induction a as [|x a IH]; destruct b as [|y b]; cbn; try (split; [discriminate|discriminate]); [tauto|].
  rewrite andb_true_iff, N.eqb_eq, IH. split; [intros [-> ->]; reflexivity|intros H; inversion H; auto]. Qed.

Lemma req_eqb_refl q : req_eqb q q = true.
Proof. destruct q; cbn; rewrite ?N.eqb_refl, ?Nat.eqb_refl; reflexivity. Qed.

(* ------------------------------------------------------------------ identities *)

Definition resolvable (c : cfg) (us : list user) (uid : N) : bool :=
  match find_user us uid with Some u => negb (u_gone u) && ident_valid c u | None => false end.
Definition person_ok (c : cfg) (us : list user) (idents : list N) (uid : N) : bool := memN uid idents || resolvable c us uid.
Definition idents_after (c : cfg) (us : list user) (idents : list N) (uid : N) : list N :=
  if memN uid idents then idents else if resolvable c us uid then idents ++ [uid] else idents.

Lemma send_proj q s : rs_idents (fst (send q s)) = rs_idents s /\ rs_bugs (fst (send q s)) = rs_bugs s /\
  rs_res (fst (send q s)) = rs_res s /\ (rs_fault s = None -> rs_fault (fst (send q s)) = None /\ snd (send q s) = true).
Proof. unfold send. cbn. split; [reflexivity|]. split; [reflexivity|]. split; [reflexivity|]. intros ->. cbn. split; reflexivity. Qed.

(* without a pending failure ensurePerson is a function of the identities known so far *)
Lemma ep_clean c us uid s : rs_fault s = None ->
  rs_idents (fst (ensure_person c us uid s)) = idents_after c us (rs_idents s) uid /\
  snd (ensure_person c us uid s) = person_ok c us (rs_idents s) uid /\
  rs_bugs (fst (ensure_person c us uid s)) = rs_bugs s /\ rs_fault (fst (ensure_person c us uid s)) = None.
Proof. intros F. unfold ensure_person, idents_after, person_ok, resolvable.
  destruct (memN uid (rs_idents s)) eqn:M; cbn; [auto|].
  unfold send. rewrite F. cbn.
  destruct (find_user us uid) as [u|]; cbn; [|auto].
  destruct (u_gone u); cbn; [auto|]. destruct (ident_valid c u); cbn; auto. Qed.

(* in general: it may also fail, and then changes nothing but the request log and the pending failure *)
Lemma ep_any c us uid s :
  let r := ensure_person c us uid s in
  rs_bugs (fst r) = rs_bugs s /\
  (snd r = true -> person_ok c us (rs_idents s) uid = true /\ rs_idents (fst r) = idents_after c us (rs_idents s) uid) /\
  (snd r = false -> rs_idents (fst r) = rs_idents s) /\
  (rs_fault s = None -> rs_fault (fst r) = None).
Proof. cbn. unfold ensure_person, idents_after, person_ok, resolvable.
  destruct (memN uid (rs_idents s)) eqn:M; cbn; [repeat split; auto; discriminate|].
  unfold send. destruct (match rs_fault s with Some f => req_eqb f (QUser uid) | None => false end) eqn:Hit; cbn.
  - repeat split; auto; try discriminate.
  - destruct (find_user us uid) as [u|]; cbn; [|repeat split; auto; discriminate].
    destruct (u_gone u); cbn; [repeat split; auto; discriminate|].
    destruct (ident_valid c u); cbn; repeat split; auto; discriminate. Qed.

Lemma idents_after_incl c us idents uid x : In x idents -> In x (idents_after c us idents uid).
Proof. unfold idents_after. destruct (memN uid idents); [auto|]. destruct (resolvable c us uid); [|auto].
  intros H. apply in_or_app. now left. Qed.
Lemma idents_after_new c us idents uid x : In x (idents_after c us idents uid) -> In x idents \/ (x = uid /\ resolvable c us uid = true).
Proof. unfold idents_after. destruct (memN uid idents); [auto|]. destruct (resolvable c us uid) eqn:R; [|auto].
  intros H. apply in_app_or in H as [H|[<-|[]]]; auto. Qed.
Lemma idents_after_ok c us idents uid : person_ok c us idents uid = true -> In uid (idents_after c us idents uid).
Proof. unfold person_ok, idents_after. destruct (memN uid idents) eqn:M; [intros _; now apply memN_In|].
  cbn. intros ->. apply in_or_app. right. now left. Qed.

(* person_ok only depends on the identities that were there before the import began *)
Definition grown (c : cfg) (us : list user) (base cur : list N) : Prop :=
  (forall x, In x base -> In x cur) /\ (forall x, In x cur -> In x base \/ resolvable c us x = true).
Lemma grown_refl c us l : grown c us l l.
Proof. split; auto. Qed.
Lemma grown_after c us base cur uid : grown c us base cur -> grown c us base (idents_after c us cur uid).
Proof. intros [A B]. split.
  - intros x Hx. now apply idents_after_incl, A.
  - intros x Hx. apply idents_after_new in Hx as [Hx|[-> R]]; auto. Qed.
Lemma grown_trans c us a b d : grown c us a b -> grown c us b d -> grown c us a d.
Proof. intros [A B] [A' B']. split; [auto|]. intros x Hx. destruct (B' x Hx) as [H|H]; auto. Qed.
Lemma grown_ok c us base cur uid : grown c us base cur -> person_ok c us cur uid = person_ok c us base uid.
Proof. intros [A B]. unfold person_ok. destruct (resolvable c us uid) eqn:R; [now rewrite !orb_true_r|].
  rewrite !orb_false_r. destruct (memN uid cur) eqn:M.
  - apply memN_In in M. destruct (B _ M) as [H|H]; [symmetry; now apply memN_In|congruence].
  - symmetry. apply memN_false. intros H. apply memN_false in M. apply M, A, H. Qed.

(* ------------------------------------------------------------------ the gitlab-id lookup *)

Definition gids (ops : list op) : list N := flat_map (fun o => match o_gid o with Some g => [g] | None => [] end) ops.

Lemma gids_app a b : gids (a ++ b) = gids a ++ gids b.
Proof. unfold gids. apply flat_map_app. Qed.

Lemma gid_is_spec g o : gid_is g o = true <-> o_gid o = Some g.
Proof. unfold gid_is. destruct (o_gid o) as [x|]; [|split; discriminate].
  rewrite N.eqb_eq. split; [intros ->; reflexivity|intros H; now inversion H]. Qed.

Lemma positions_app g a b i : positions g (a ++ b) i = positions g a i ++ positions g b (i + length a).
Proof. revert i. induction a as [|o a IH]; intros i; cbn; [now rewrite Nat.add_0_r|].
  rewrite IH. replace (S i + length a)%nat with (i + S (length a))%nat by lia. destruct (gid_is g o); reflexivity. Qed.

Lemma positions_bound g ops i p : In p (positions g ops i) -> (i <= p < i + length ops)%nat /\ exists o, nth_error ops (p - i) = Some o /\ gid_is g o = true.
Proof. revert i. induction ops as [|o t IH]; intros i; cbn; [tauto|].
  destruct (gid_is g o) eqn:G; cbn.
  - intros [<-|H]. { split; [lia|]. rewrite Nat.sub_diag. cbn. eauto. }
    destruct (IH _ H) as [B [o' [N' G']]]. split; [lia|]. exists o'. replace (p - i)%nat with (S (p - S i)) by lia. cbn. auto.
  - intros H. destruct (IH _ H) as [B [o' [N' G']]]. split; [lia|]. exists o'. replace (p - i)%nat with (S (p - S i)) by lia. cbn. auto. Qed.

Lemma positions_nil g ops i : positions g ops i = [] <-> ~ In g (gids ops).
Proof. revert i. induction ops as [|o t IH]; intros i; cbn; [tauto|].
  destruct (gid_is g o) eqn:G.
  - apply gid_is_spec in G. rewrite G. cbn. split; [discriminate|intros H; exfalso; apply H; now left].
  - rewrite IH. unfold gid_is in G. destruct (o_gid o) as [x|]; cbn; [|tauto].
    apply N.eqb_neq in G. split; [intros H [E|E]; [congruence|auto]|intros H E; apply H; now right]. Qed.

Lemma resolve_none g ops : resolve g ops = LNone <-> ~ In g (gids ops).
Proof. unfold resolve. rewrite <- (positions_nil g ops 0). destruct (positions g ops 0) as [|p [|q t]]; split; intros; congruence. Qed.

Lemma resolve_one g ops p : resolve g ops = LOne p -> (p < length ops)%nat /\ exists o, nth_error ops p = Some o /\ gid_is g o = true.
Proof. unfold resolve. destruct (positions g ops 0) as [|q [|q' t]] eqn:E; try discriminate. intros H. inversion H; subst.
  destruct (positions_bound g ops 0 p) as [B [o [N' G]]]; [rewrite E; now left|]. rewrite Nat.sub_0_r in N'. split; [lia|eauto]. Qed.

Lemma resolve_app g ops o :
  resolve g (ops ++ [o]) = if gid_is g o then match resolve g ops with LNone => LOne (length ops) | _ => LMany end else resolve g ops.
Proof. unfold resolve. rewrite positions_app. cbn. destruct (gid_is g o); [|now rewrite app_nil_r].
  destruct (positions g ops 0) as [|p [|q t]]; cbn; reflexivity. Qed.

(* ------------------------------------------------------------------ comment texts *)

Lemma last_edit_app p a b cur : last_edit p (a ++ b) cur = last_edit p b (last_edit p a cur).
Proof. revert cur. induction a as [|o a IH]; intros cur; cbn; [reflexivity|].
  destruct (o_k o); try apply IH. destruct (Nat.eqb p target); apply IH. Qed.

Definition edits_to (p : nat) (o : op) : option text :=
  match o_k o with OEdit q m => if Nat.eqb p q then Some m else None | _ => None end.

Lemma comment_text_app ops o p : (p < length ops)%nat ->
  comment_text (ops ++ [o]) p =
  match comment_text ops p with None => None | Some cur => Some (match edits_to p o with Some m => m | None => cur end) end.
Proof. intros L. unfold comment_text. rewrite nth_error_app1 by exact L.
  destruct (nth_error ops p) as [x|]; [|reflexivity]. destruct (creates_comment x) as [m0|]; [|reflexivity].
  rewrite last_edit_app. cbn. unfold edits_to. destruct (o_k o); try reflexivity. destruct (Nat.eqb p target); reflexivity. Qed.

Lemma cur_title_app a b cur : cur_title (a ++ b) cur = cur_title b (cur_title a cur).
Proof. revert cur. induction a as [|o a IH]; intros cur; cbn; [reflexivity|]. destruct (o_k o); apply IH. Qed.

(* the recorded previous title is a title that was validated *)
Lemma cur_title_safe c ops cur : Forall (fun o => op_valid c o = true) ops -> safe1 cur = true -> safe1 (cur_title ops cur) = true.
Proof. intros H. revert cur. induction H as [|o t Ho Ht IH]; intros cur Hc; cbn; [exact Hc|].
  unfold op_valid in Ho. destruct (o_k o); try (apply IH; exact Hc).
  - apply IH. apply andb_true_iff in Ho as [Ho _]. unfold title_valid in Ho. now apply andb_true_iff in Ho as [_ Ho].
  - apply IH. apply andb_true_iff in Ho as [Ho _]. unfold title_valid in Ho. now apply andb_true_iff in Ho as [_ Ho]. Qed.

(* ------------------------------------------------------------------ one event on the operation list *)

Definition inv_ops (c : cfg) (iss : issue) (ops : list op) : Prop :=
  (exists o rest, ops = o :: rest /\ o_gid o = Some (i_iid iss) /\ creates_comment o <> None) /\
  Forall (fun o => op_valid c o = true) ops /\
  (forall o q m, In o ops -> o_k o = OEdit q m -> (q < length ops)%nat).

Definition In_ev (iss : issue) (e : event) : Prop :=
  match e with
  | ENote n => In n (i_notes iss)
  | ELabel l => In l (i_labels iss)
  | EState s => In s (i_states iss)
  | EError => True
  end.

(* note ids are distinct, and none equals the issue's IID *)
Definition wf_issue (iss : issue) : Prop := NoDup (map n_id (i_notes iss)) /\ ~ In (i_iid iss) (map n_id (i_notes iss)).

Lemma step_cases c iss ok ops e :
  step c iss ok ops e = ops \/
  exists o r, step c iss ok ops e = ops ++ [o] /\ decide c iss ops e = AAppend o r /\ op_valid c o = true /\ ok = true /\
              resolve (ev_id e) ops <> LMany /\ e <> EError.
Proof. unfold step. destruct e as [n|l|s|]; try (now left);
  (destruct (resolve _ ops) eqn:R; [| |now left]; (destruct ok; [|now left]);
   (destruct (decide c iss ops _) as [| |o r] eqn:D; [now left|now left|]);
   (destruct (op_valid c o) eqn:V; [|now left]); right; exists o, r; repeat split; auto; try congruence; discriminate). Qed.

Lemma kcomment_is_note e : ev_kind e = KComment -> exists n, e = ENote n.
Proof. destruct e as [n|l|s|]; cbn; [eauto| | |discriminate].
  - destruct (l_action l =? 0); [discriminate|]. destruct (l_action l =? 1); discriminate.
  - destruct (s_state s =? 0); [discriminate|]. destruct (s_state s =? 1); discriminate. Qed.
Lemma kdesc_is_note e : ev_kind e = KDesc -> exists n, e = ENote n.
Proof. destruct e as [n|l|s|]; cbn; [eauto| | |discriminate].
  - destruct (l_action l =? 0); [discriminate|]. destruct (l_action l =? 1); discriminate.
  - destruct (s_state s =? 0); [discriminate|]. destruct (s_state s =? 1); discriminate. Qed.

(* what can be appended: an operation carrying the event's id when that id was not there, or an edit of the comment the id designates *)
Lemma decide_append c iss ops e o r : c_dedupe_labels c = true -> decide c iss ops e = AAppend o r ->
  (o_gid o = Some (ev_id e) /\ resolve (ev_id e) ops <> LOne 0 /\ (forall p, resolve (ev_id e) ops <> LOne p) /\
   match ev_kind e with
   | KComment => o_k o = OComment (cleanup (note_body e))
   | KDesc => o_k o = OEdit 0 (cleanup (i_desc iss)) /\ exists first, comment_text ops 0 = Some first /\ first <> cleanup (i_desc iss)
   | _ => forall q m, o_k o <> OEdit q m
   end) \/
  (exists p cur, o_gid o = None /\ o_k o = OEdit p (cleanup (note_body e)) /\ resolve (ev_id e) ops = LOne p /\ ev_kind e = KComment /\
                 comment_text ops p = Some cur /\ cur <> cleanup (note_body e)).
Proof. intros Dd. unfold decide. rewrite Dd. cbn [andb].
  destruct (ev_kind e) eqn:K.
  - (* comment *) destruct (resolve (ev_id e) ops) as [|p|] eqn:R.
    + intros H. inversion H; subst. left. cbn. repeat split; try discriminate; try (intros ?; discriminate).
    + destruct (comment_text ops p) as [cur|] eqn:T; [|discriminate]. destruct (text_eqb cur _) eqn:Q; [discriminate|].
      intros H. inversion H; subst. right. exists p, cur. cbn. repeat split; auto. intros ->. now rewrite text_eqb_refl in Q.
    + intros H. inversion H; subst. left. cbn. repeat split; try discriminate; try (intros ?; discriminate).
  - (* title *) destruct (resolve (ev_id e) ops) as [|p|] eqn:R; [|discriminate|];
    (destruct (new_title (note_body e)); [|discriminate]); intros H; inversion H; subst; left; cbn; repeat split; try discriminate; try (intros ?; discriminate).
  - (* description *) destruct (comment_text ops 0) as [first|] eqn:T; [|discriminate].
    destruct (resolve (ev_id e) ops) as [|p|] eqn:R; cbn; try discriminate;
    (destruct (text_eqb (cleanup (i_desc iss)) first) eqn:Q; cbn; [discriminate|]); intros H; inversion H; subst; left; cbn;
    (repeat split; try discriminate; try (intros ?; discriminate); exists first; split; [reflexivity|]; intros ->; now rewrite text_eqb_refl in Q).
  - destruct (resolve (ev_id e) ops) as [|p|] eqn:R; [|discriminate|]; intros H; inversion H; subst; left; cbn; repeat split; try discriminate; try (intros ?; discriminate).
  - destruct (resolve (ev_id e) ops) as [|p|] eqn:R; [|discriminate|]; intros H; inversion H; subst; left; cbn; repeat split; try discriminate; try (intros ?; discriminate).
  - destruct (resolve (ev_id e) ops) as [|p|] eqn:R; [|discriminate|]; intros H; inversion H; subst; left; cbn; repeat split; try discriminate; try (intros ?; discriminate).
  - destruct (resolve (ev_id e) ops) as [|p|] eqn:R; [|discriminate|]; intros H; inversion H; subst; left; cbn; repeat split; try discriminate; try (intros ?; discriminate).
  - discriminate.
  - discriminate. Qed.

Lemma inv_ops_step c iss ok ops e : c_dedupe_labels c = true -> inv_ops c iss ops -> inv_ops c iss (step c iss ok ops e).
Proof. intros Dd I. destruct (step_cases c iss ok ops e) as [->|[o [r [-> [D [V [_ [NM _]]]]]]]]; [exact I|].
  destruct I as [[o0 [rest [E [G Cc]]]] [Va Tg]]. split; [|split].
  - exists o0, (rest ++ [o]). subst ops. auto.
  - apply Forall_app. split; [exact Va|]. constructor; [exact V|constructor].
  - intros x q m Hx Hk. rewrite app_length. cbn. apply in_app_or in Hx as [Hx|[<-|[]]].
    + specialize (Tg x q m Hx Hk). lia.
    + destruct (decide_append c iss ops e o r Dd D) as [[_ [_ [_ Hkind]]]|[p [cur [_ [Hk' [R _]]]]]].
      * destruct (ev_kind e); try (exfalso; now apply (Hkind q m)).
        -- rewrite Hkind in Hk. discriminate.
        -- destruct Hkind as [Hk' _]. rewrite Hk' in Hk. inversion Hk; subst. cbn. lia.
      * rewrite Hk' in Hk. inversion Hk; subst. apply resolve_one in R as [L _]. lia. Qed.

(* an event is settled when looking at it again changes nothing *)
Definition settled (c : cfg) (iss : issue) (ops : list op) (e : event) : Prop := step c iss true ops e = ops.

Lemma settled_of_noop c iss ok ops e : ok = true -> step c iss ok ops e = ops -> settled c iss ops e.
Proof. intros -> H. exact H. Qed.

Lemma app_one_neq {A} (l : list A) x : l ++ [x] <> l.
Proof. intros H. apply (f_equal (@length A)) in H. rewrite app_length in H. cbn in H. lia. Qed.

(* L1: after an event has been looked at (with its author there), it is settled *)
Lemma step_settles c iss ops e : c_dedupe_labels c = true -> inv_ops c iss ops -> settled c iss (step c iss true ops e) e.
Proof. intros Dd I. unfold settled.
  destruct (step_cases c iss true ops e) as [E|[o [r [E [D [V [_ [NM NE]]]]]]]]; [now rewrite E|].
  rewrite E. destruct (step_cases c iss true (ops ++ [o]) e) as [E2|[o2 [r2 [E2 [D2 [V2 [_ [NM2 _]]]]]]]]; [exact E2|exfalso].
  destruct (decide_append c iss ops e o r Dd D) as [[G [_ [NoOne Hkind]]]|[p [cur [G [Hk [R [K [T _]]]]]]]].
  - (* the operation carries the id: the id is now found *)
    assert (R1 : resolve (ev_id e) ops = LNone) by (destruct (resolve (ev_id e) ops) as [|p|] eqn:R; [reflexivity|exfalso; now apply (NoOne p)|congruence]).
    assert (R2 : resolve (ev_id e) (ops ++ [o]) = LOne (length ops)).
    { rewrite resolve_app. apply gid_is_spec in G. now rewrite G, R1. }
    unfold decide in D2. rewrite R2, Dd in D2. cbn [andb] in D2.
    destruct (ev_kind e) eqn:K; try discriminate.
    + (* comment: its text is the one just stored *)
      assert (T : comment_text (ops ++ [o]) (length ops) = Some (cleanup (note_body e))).
      { unfold comment_text. rewrite nth_error_app2 by lia. rewrite Nat.sub_diag. cbn. unfold creates_comment. rewrite Hkind.
        f_equal. rewrite last_edit_app. cbn. rewrite Hkind.
        destruct I as [_ [_ Tg]]. clear - Tg. revert Tg. generalize (cleanup (note_body e)) as m. generalize (length ops) as n.
        intros n m Tg. assert (forall l, (forall o q m, In o l -> o_k o = OEdit q m -> (q < n)%nat) -> last_edit n l m = m).
        { induction l as [|x l IH]; intros H; cbn; [reflexivity|]. destruct (o_k x) eqn:Kx; try (apply IH; intros; eapply H; eauto; now right).
          destruct (Nat.eqb_spec n target).
          - exfalso. specialize (H x target msg (or_introl eq_refl) Kx). lia.
          - apply IH. intros; eapply H; eauto. now right. }
        apply H. exact Tg. }
      rewrite T, text_eqb_refl in D2. discriminate.
    + (* description *) destruct (comment_text (ops ++ [o]) 0); discriminate.
  - (* the comment was edited: it now has the tracker's text *)
    assert (R2 : resolve (ev_id e) (ops ++ [o]) = LOne p).
    { rewrite resolve_app. unfold gid_is. now rewrite G. }
    pose proof (resolve_one _ _ _ R) as [L _].
    unfold decide in D2. rewrite R2, K in D2. rewrite comment_text_app, T in D2 by exact L.
    unfold edits_to in D2. rewrite Hk, Nat.eqb_refl, text_eqb_refl in D2. discriminate. Qed.

Lemma settled_inv c iss ops e o r : settled c iss ops e -> e <> EError -> resolve (ev_id e) ops <> LMany ->
  decide c iss ops e = AAppend o r -> op_valid c o = false.
Proof. unfold settled, step. intros S NE NM D.
  destruct (op_valid c o) eqn:V; [exfalso|reflexivity].
  destruct e as [n|l|s|]; try congruence;
  (destruct (resolve _ ops) eqn:R; try congruence; rewrite D, V in S; exact (app_one_neq _ _ S)). Qed.

Lemma NoDup_map_inj {A B} (f : A -> B) (l : list A) a b : NoDup (map f l) -> In a l -> In b l -> f a = f b -> a = b.
Proof. induction l as [|x l IH]; cbn; [tauto|]. intros ND [->|Ha] [->|Hb] E; auto.
  - inversion ND; subst. exfalso. apply H1. rewrite E. now apply in_map.
  - inversion ND; subst. exfalso. apply H1. rewrite <- E. now apply in_map.
  - inversion ND; subst. auto. Qed.

Lemma op_valid_comment c g a t m : op_valid c (mkop g a t (OComment (cleanup m))) = true.
Proof. cbn. apply cleanup_safe. Qed.
Lemma op_valid_edit c g a t p m : op_valid c (mkop g a t (OEdit p (cleanup m))) = true.
Proof. cbn. apply cleanup_safe. Qed.

(* L2: an event that is settled stays settled when another event of the same issue appends an operation *)
Lemma settled_app c iss ops e e' ok o' :
  c_dedupe_labels c = true -> inv_ops c iss ops -> wf_issue iss -> In_ev iss e -> In_ev iss e' ->
  settled c iss ops e -> step c iss ok ops e' = ops ++ [o'] -> settled c iss (ops ++ [o']) e.
Proof. intros Dd I [ND NI] He He' S E'.
  destruct (step_cases c iss ok ops e') as [X|[o [r [X [D' [V' [_ [NM' NE']]]]]]]]; [rewrite X in E'; symmetry in E'; exfalso; exact (app_one_neq _ _ E')|].
  rewrite X in E'. apply app_inv_head in E'. inversion E'; subst o'. clear E' X.
  unfold settled. destruct (step_cases c iss true (ops ++ [o]) e) as [X|[o2 [r2 [_ [D2 [V2 [_ [NM2 NE]]]]]]]]; [exact X|exfalso].
  pose proof I as [[o0 [rest [Eops [G0 C0]]]] [Va Tg]].
  (* the id of a comment note is not the issue's IID, so it does not designate position 0 *)
  assert (NotZero : forall x, In_ev iss x -> ev_kind x = KComment -> resolve (ev_id x) ops = LOne 0 -> False).
  { intros x Hx Kx Rx. destruct (kcomment_is_note x Kx) as [n ->]. cbn in Hx, Rx.
    apply resolve_one in Rx as [_ [y [Ny Gy]]]. rewrite Eops in Ny. cbn in Ny. inversion Ny; subst y. apply gid_is_spec in Gy.
    rewrite G0 in Gy. inversion Gy as [Gy']. apply NI. rewrite Gy'. now apply in_map. }
  assert (LM : resolve (ev_id e) ops <> LMany).
  { intros R. apply NM2. rewrite resolve_app, R. now destruct (gid_is (ev_id e) o). }
  assert (SI := fun o r => settled_inv c iss ops e o r S NE LM).
  destruct (decide_append c iss (ops ++ [o]) e o2 r2 Dd D2) as [[G2 [_ [NoOne2 Hk2]]]|[p [cur2 [G2 [Hk2 [R2 [K [T2 Ne2]]]]]]]].
  - (* e would append an operation carrying its id: its id is in neither list *)
    assert (R2 : resolve (ev_id e) (ops ++ [o]) = LNone) by (destruct (resolve (ev_id e) (ops ++ [o])) as [|p|] eqn:R; [reflexivity|exfalso; now apply (NoOne2 p)|congruence]).
    assert (R1 : resolve (ev_id e) ops = LNone).
    { rewrite resolve_app in R2. destruct (gid_is (ev_id e) o); [destruct (resolve (ev_id e) ops); discriminate|exact R2]. }
    unfold decide in D2. rewrite R2, Dd in D2. cbn [andb negb] in D2.
    destruct (ev_kind e) eqn:K.
    + (* comment *)
      assert (F : op_valid c (mkop (Some (ev_id e)) (ev_user e) (ev_time e) (OComment (cleanup (note_body e)))) = false)
        by (apply (SI _ (Some (RComment (i_iid iss)))); unfold decide; now rewrite K, R1).
      now rewrite op_valid_comment in F.
    + (* title *) destruct (new_title (note_body e)) as [t|] eqn:NT; [|discriminate]. inversion D2; subst o2.
      assert (F : op_valid c (mkop (Some (ev_id e)) (ev_user e) (ev_time e) (OTitle t (cur_title ops []))) = false)
        by (apply (SI _ (Some (RTitle (i_iid iss)))); unfold decide; now rewrite K, R1, NT).
      cbn in V2. apply andb_true_iff in V2 as [V2 _]. cbn in F. rewrite V2 in F. cbn in F.
      rewrite (cur_title_safe c ops [] Va eq_refl) in F. discriminate.
    + (* description *) destruct Hk2 as [_ [first2 [T2 Ne2]]].
      assert (L0 : (0 < length ops)%nat) by (rewrite Eops; cbn; lia).
      rewrite comment_text_app in T2 by exact L0.
      destruct (comment_text ops 0) as [first|] eqn:T1; [|discriminate]. inversion T2; subst first2. clear T2.
      destruct (text_eqb (cleanup (i_desc iss)) first) eqn:Q.
      * apply text_eqb_eq in Q. subst first.
        unfold edits_to in Ne2. destruct (o_k o) as [| |q m| | |] eqn:Ko; try (now apply Ne2).
        destruct (Nat.eqb_spec 0 q) as [<-|]; [|now apply Ne2].
        destruct (decide_append c iss ops e' o r Dd D') as [[_ [_ [_ Hk']]]|[p' [cur' [_ [Hk' [R' [K' _]]]]]]].
        -- destruct (ev_kind e') eqn:K'; try (now apply (Hk' 0%nat m)).
           ++ rewrite Hk' in Ko. discriminate.
           ++ destruct Hk' as [Hk' _]. rewrite Hk' in Ko. inversion Ko; subst m. now apply Ne2.
        -- rewrite Hk' in Ko. inversion Ko; subst. exact (NotZero e' He' K' R').
      * assert (F : op_valid c (mkop (Some (ev_id e)) (ev_user e) (note_updated e) (OEdit 0 (cleanup (i_desc iss)))) = false)
          by (apply (SI _ (Some (RTitle (i_iid iss)))); unfold decide; rewrite K, R1, T1; cbn; now rewrite Q).
        now rewrite op_valid_edit in F.
    + inversion D2; subst o2. rewrite (SI _ (Some (RStatus (i_iid iss)))) in V2; [discriminate|]. unfold decide. now rewrite K, R1.
    + inversion D2; subst o2. rewrite (SI _ (Some (RStatus (i_iid iss)))) in V2; [discriminate|]. unfold decide. now rewrite K, R1.
    + inversion D2; subst o2. rewrite (SI _ None) in V2; [discriminate|]. unfold decide. now rewrite K, R1, Dd.
    + inversion D2; subst o2. rewrite (SI _ None) in V2; [discriminate|]. unfold decide. now rewrite K, R1, Dd.
    + discriminate.
    + discriminate.
  - (* e would edit its comment *)
    rewrite resolve_app in R2. destruct (gid_is (ev_id e) o) eqn:Go.
    + (* the new operation carries e's id: e was not there, and would have been added *)
      destruct (resolve (ev_id e) ops) eqn:R1; try discriminate.
      assert (F : op_valid c (mkop (Some (ev_id e)) (ev_user e) (ev_time e) (OComment (cleanup (note_body e)))) = false)
        by (apply (SI _ (Some (RComment (i_iid iss)))); unfold decide; now rewrite K, R1).
      now rewrite op_valid_comment in F.
    + pose proof (resolve_one _ _ _ R2) as [L _]. rewrite comment_text_app in T2 by exact L.
      destruct (comment_text ops p) as [cur|] eqn:T1; [|discriminate]. inversion T2; subst cur2. clear T2.
      destruct (text_eqb cur (cleanup (note_body e))) eqn:Q.
      * apply text_eqb_eq in Q. subst cur.
        unfold edits_to in Ne2. destruct (o_k o) as [| |q m| | |] eqn:Ko; try (now apply Ne2).
        destruct (Nat.eqb_spec p q) as [<-|]; [|now apply Ne2].
        destruct (decide_append c iss ops e' o r Dd D') as [[_ [_ [_ Hk']]]|[p' [cur' [_ [Hk' [R' [K' _]]]]]]].
        -- destruct (ev_kind e') eqn:K'; try (now apply (Hk' p m)).
           ++ rewrite Hk' in Ko. discriminate.
           ++ destruct Hk' as [Hk' _]. rewrite Hk' in Ko. inversion Ko; subst. exact (NotZero e He K R2).
        -- rewrite Hk' in Ko. inversion Ko; subst p' m.
           (* both notes designate the operation at p: they have the same id, hence are the same note *)
           apply resolve_one in R2 as [_ [y [Ny Gy]]]. apply resolve_one in R' as [_ [y' [Ny' Gy']]].
           rewrite Ny in Ny'. inversion Ny'; subst y'. apply gid_is_spec in Gy, Gy'. rewrite Gy in Gy'. inversion Gy' as [Eid].
           destruct (kcomment_is_note e K) as [n ->]. destruct (kcomment_is_note e' K') as [n' ->]. cbn in *.
           assert (n = n') by (eapply (NoDup_map_inj n_id); eauto). subst n'. now apply Ne2.
      * assert (F : op_valid c (mkop None (ev_user e) (note_updated e) (OEdit p (cleanup (note_body e)))) = false)
          by (apply (SI _ (Some (RCommentEdit (i_iid iss)))); unfold decide; now rewrite K, R2, T1, Q).
        now rewrite op_valid_edit in F. Qed.
