(* Lemmas about the importer model of Import.v. *)
From Coq Require Import List Arith NArith Bool Lia.
Import ListNotations.
From GB Require Import Import ImportText.
Local Open Scope N_scope.

(* ------------------------------------------------------------------ small facts *)

Lemma memN_In x l : memN x l = true <-> In x l.
Proof. induction l as [|y t IH]; cbn; [split; [discriminate|tauto]|].
  rewrite orb_true_iff, IH, N.eqb_eq. split; intros [H|H]; auto. Qed.
Lemma memN_false x l : memN x l = false <-> ~ In x l.
Proof. rewrite <- memN_In. destruct (memN x l); split; intros; congruence. Qed.
Lemma memN_app x a b : memN x (a ++ b) = memN x a || memN x b.
Proof. induction a; cbn; [reflexivity|]. now rewrite IHa, orb_assoc. Qed.

Lemma text_eqb_refl a : text_eqb a a = true.
Proof. induction a; cbn; [reflexivity|]. now rewrite N.eqb_refl. Qed.
Lemma text_eqb_eq a b : text_eqb a b = true <-> a = b.
Proof. revert b. induction a as [|x a IH]; destruct b as [|y b]; cbn; try (split; [discriminate|discriminate]); [tauto|].
  rewrite andb_true_iff, N.eqb_eq, IH. split; [intros [-> ->]; reflexivity|intros H; inversion H; auto]. Qed.

Lemma req_eqb_refl q : req_eqb q q = true.
Proof. destruct q; cbn; rewrite ?N.eqb_refl, ?Nat.eqb_refl; reflexivity. Qed.

(* ------------------------------------------------------------------ identities *)

Definition resolvable (c : cfg) (us : list user) (uid : N) : bool :=
  is_ghost c uid || match find_user us uid with Some u => negb (u_gone u) && ident_valid c u | None => false end.
Definition person_ok (c : cfg) (us : list user) (idents : list N) (uid : N) : bool := memN uid idents || resolvable c us uid.
Definition idents_after (c : cfg) (us : list user) (idents : list N) (uid : N) : list N :=
  if memN uid idents then idents else if resolvable c us uid then idents ++ [uid] else idents.

Lemma send_proj q s : rs_idents (fst (send q s)) = rs_idents s /\ rs_bugs (fst (send q s)) = rs_bugs s /\
  rs_res (fst (send q s)) = rs_res s /\ (rs_fault s = None -> rs_fault (fst (send q s)) = None /\ snd (send q s) = true).
Proof. unfold send. cbn. split; [reflexivity|]. split; [reflexivity|]. split; [reflexivity|]. intros ->. cbn. split; reflexivity. Qed.

(* without a pending failure ensurePerson is a function of the identities known so far *)
Lemma ep_clean c us uid s : rs_fault s = None ->
  rs_idents (fst (ensure_person c us uid s)) = idents_after c us (rs_idents s) uid /\
  snd (ensure_person c us uid s) = person_ok c us (rs_idents s) uid /\
  rs_bugs (fst (ensure_person c us uid s)) = rs_bugs s /\ rs_fault (fst (ensure_person c us uid s)) = None.
Proof. intros F. unfold ensure_person, idents_after, person_ok, resolvable.
  destruct (memN uid (rs_idents s)) eqn:M; cbn; [auto|].
  destruct (is_ghost c uid); cbn; [auto|].
  unfold send. rewrite F. cbn.
  destruct (find_user us uid) as [u|]; cbn; [|auto].
  destruct (u_gone u); cbn; [auto|]. destruct (ident_valid c u); cbn; auto. Qed.

(* in general: it may also fail, and then changes nothing but the request log and the pending failure *)
Lemma ep_any c us uid s :
  let r := ensure_person c us uid s in
  rs_bugs (fst r) = rs_bugs s /\
  (snd r = true -> person_ok c us (rs_idents s) uid = true /\ rs_idents (fst r) = idents_after c us (rs_idents s) uid) /\
  (snd r = false -> rs_idents (fst r) = rs_idents s) /\
  (rs_fault s = None -> rs_fault (fst r) = None).
Proof. cbn. unfold ensure_person, idents_after, person_ok, resolvable.
  destruct (memN uid (rs_idents s)) eqn:M; cbn; [repeat split; auto; discriminate|].
  destruct (is_ghost c uid); cbn; [repeat split; auto; discriminate|].
  unfold send. destruct (match rs_fault s with Some f => req_eqb f (QUser uid) | None => false end) eqn:Hit; cbn.
  - repeat split; auto; try discriminate.
  - destruct (find_user us uid) as [u|]; cbn; [|repeat split; auto; discriminate].
    destruct (u_gone u); cbn; [repeat split; auto; discriminate|].
    destruct (ident_valid c u); cbn; repeat split; auto; discriminate. Qed.

Lemma idents_after_incl c us idents uid x : In x idents -> In x (idents_after c us idents uid).
Proof. unfold idents_after. destruct (memN uid idents); [auto|]. destruct (resolvable c us uid); [|auto].
  intros H. apply in_or_app. now left. Qed.
Lemma idents_after_new c us idents uid x : In x (idents_after c us idents uid) -> In x idents \/ (x = uid /\ resolvable c us uid = true).
Proof. unfold idents_after. destruct (memN uid idents); [auto|]. destruct (resolvable c us uid) eqn:R; [|auto].
  intros H. apply in_app_or in H as [H|[<-|[]]]; auto. Qed.
Lemma idents_after_ok c us idents uid : person_ok c us idents uid = true -> In uid (idents_after c us idents uid).
Proof. unfold person_ok, idents_after. destruct (memN uid idents) eqn:M; [intros _; now apply memN_In|].
  cbn. intros ->. apply in_or_app. right. now left. Qed.

(* person_ok only depends on the identities that were there before the import began *)
Definition grown (c : cfg) (us : list user) (base cur : list N) : Prop :=
  (forall x, In x base -> In x cur) /\ (forall x, In x cur -> In x base \/ resolvable c us x = true).
Lemma grown_refl c us l : grown c us l l.
Proof. split; auto. Qed.
Lemma grown_after c us base cur uid : grown c us base cur -> grown c us base (idents_after c us cur uid).
Proof. intros [A B]. split.
  - intros x Hx. now apply idents_after_incl, A.
  - intros x Hx. apply idents_after_new in Hx as [Hx|[-> R]]; auto. Qed.
Lemma grown_trans c us a b d : grown c us a b -> grown c us b d -> grown c us a d.
Proof. intros [A B] [A' B']. split; [auto|]. intros x Hx. destruct (B' x Hx) as [H|H]; auto. Qed.
Lemma grown_ok c us base cur uid : grown c us base cur -> person_ok c us cur uid = person_ok c us base uid.
Proof. intros [A B]. unfold person_ok. destruct (resolvable c us uid) eqn:R; [now rewrite !orb_true_r|].
  rewrite !orb_false_r. destruct (memN uid cur) eqn:M.
  - apply memN_In in M. destruct (B _ M) as [H|H]; [symmetry; now apply memN_In|congruence].
  - symmetry. apply memN_false. intros H. apply memN_false in M. apply M, A, H. Qed.

(* ------------------------------------------------------------------ the gitlab-id lookup *)

Definition gids (ops : list op) : list N := flat_map (fun o => match o_gid o with Some g => [g] | None => [] end) ops.

Lemma gids_app a b : gids (a ++ b) = gids a ++ gids b.
Proof. unfold gids. apply flat_map_app. Qed.

Lemma gid_is_spec g o : gid_is g o = true <-> o_gid o = Some g.
Proof. unfold gid_is. destruct (o_gid o) as [x|]; [|split; discriminate].
  rewrite N.eqb_eq. split; [intros ->; reflexivity|intros H; now inversion H]. Qed.

Lemma positions_app g a b i : positions g (a ++ b) i = positions g a i ++ positions g b (i + length a).
Proof. revert i. induction a as [|o a IH]; intros i; cbn; [now rewrite Nat.add_0_r|].
  rewrite IH. replace (S i + length a)%nat with (i + S (length a))%nat by lia. destruct (gid_is g o); reflexivity. Qed.

Lemma positions_bound g ops i p : In p (positions g ops i) -> (i <= p < i + length ops)%nat /\ exists o, nth_error ops (p - i) = Some o /\ gid_is g o = true.
Proof. revert i. induction ops as [|o t IH]; intros i; cbn; [tauto|].
  destruct (gid_is g o) eqn:G; cbn.
  - intros [<-|H]. { split; [lia|]. rewrite Nat.sub_diag. cbn. eauto. }
    destruct (IH _ H) as [B [o' [N' G']]]. split; [lia|]. exists o'. replace (p - i)%nat with (S (p - S i)) by lia. cbn. auto.
  - intros H. destruct (IH _ H) as [B [o' [N' G']]]. split; [lia|]. exists o'. replace (p - i)%nat with (S (p - S i)) by lia. cbn. auto. Qed.

Lemma positions_nil g ops i : positions g ops i = [] <-> ~ In g (gids ops).
Proof. revert i. induction ops as [|o t IH]; intros i; cbn; [tauto|].
  destruct (gid_is g o) eqn:G.
  - apply gid_is_spec in G. rewrite G. cbn. split; [discriminate|intros H; exfalso; apply H; now left].
  - rewrite IH. unfold gid_is in G. destruct (o_gid o) as [x|]; cbn; [|tauto].
    apply N.eqb_neq in G. split; [intros H [E|E]; [congruence|auto]|intros H E; apply H; now right]. Qed.

Lemma resolve_none g ops : resolve g ops = LNone <-> ~ In g (gids ops).
Proof. unfold resolve. rewrite <- (positions_nil g ops 0). destruct (positions g ops 0) as [|p [|q t]]; split; intros; congruence. Qed.

Lemma resolve_one g ops p : resolve g ops = LOne p -> (p < length ops)%nat /\ exists o, nth_error ops p = Some o /\ gid_is g o = true.
Proof. unfold resolve. destruct (positions g ops 0) as [|q [|q' t]] eqn:E; try discriminate. intros H. inversion H; subst.
  destruct (positions_bound g ops 0 p) as [B [o [N' G]]]; [rewrite E; now left|]. rewrite Nat.sub_0_r in N'. split; [lia|eauto]. Qed.

Lemma resolve_app g ops o :
  resolve g (ops ++ [o]) = if gid_is g o then match resolve g ops with LNone => LOne (length ops) | _ => LMany end else resolve g ops.
Proof. unfold resolve. rewrite positions_app. cbn. destruct (gid_is g o); [|now rewrite app_nil_r].
  destruct (positions g ops 0) as [|p [|q t]]; cbn; reflexivity. Qed.

(* ------------------------------------------------------------------ comment texts *)

Lemma last_edit_app p a b cur : last_edit p (a ++ b) cur = last_edit p b (last_edit p a cur).
Proof. revert cur. induction a as [|o a IH]; intros cur; cbn; [reflexivity|].
  destruct (o_k o); try apply IH. destruct (Nat.eqb p target); apply IH. Qed.

Definition edits_to (p : nat) (o : op) : option text :=
  match o_k o with OEdit q m => if Nat.eqb p q then Some m else None | _ => None end.

Lemma comment_text_app ops o p : (p < length ops)%nat ->
  comment_text (ops ++ [o]) p =
  match comment_text ops p with None => None | Some cur => Some (match edits_to p o with Some m => m | None => cur end) end.
Proof. intros L. unfold comment_text. rewrite nth_error_app1 by exact L.
  destruct (nth_error ops p) as [x|]; [|reflexivity]. destruct (creates_comment x) as [m0|]; [|reflexivity].
  rewrite last_edit_app. cbn. unfold edits_to. destruct (o_k o); try reflexivity. destruct (Nat.eqb p target); reflexivity. Qed.

Lemma cur_title_app a b cur : cur_title (a ++ b) cur = cur_title b (cur_title a cur).
Proof. revert cur. induction a as [|o a IH]; intros cur; cbn; [reflexivity|]. destruct (o_k o); apply IH. Qed.

(* the recorded previous title is a title that was validated *)
Lemma cur_title_safe c ops cur : Forall (fun o => op_valid c o = true) ops -> safe1 cur = true -> safe1 (cur_title ops cur) = true.
Proof. intros H. revert cur. induction H as [|o t Ho Ht IH]; intros cur Hc; cbn; [exact Hc|].
  unfold op_valid in Ho. destruct (o_k o); try (apply IH; exact Hc).
  - apply IH. apply andb_true_iff in Ho as [Ho _]. unfold title_valid in Ho. now apply andb_true_iff in Ho as [_ Ho].
  - apply IH. apply andb_true_iff in Ho as [Ho _]. unfold title_valid in Ho. now apply andb_true_iff in Ho as [_ Ho]. Qed.

(* ------------------------------------------------------------------ one event on the operation list *)

Definition inv_ops (c : cfg) (iss : issue) (ops : list op) : Prop :=
  (exists o rest, ops = o :: rest /\ o_gid o = Some (i_iid iss) /\ creates_comment o <> None) /\
  Forall (fun o => op_valid c o = true) ops /\
  (forall o q m, In o ops -> o_k o = OEdit q m -> (q < length ops)%nat) /\
  NoDup (gids ops).

Definition In_ev (iss : issue) (e : event) : Prop :=
  match e with
  | ENote n => In n (i_notes iss)
  | ELabel l => In l (i_labels iss)
  | EState s => In s (i_states iss)
  | EError => True
  end.

(* note ids are distinct, and none equals the issue's IID *)
Definition wf_issue (iss : issue) : Prop := NoDup (map n_id (i_notes iss)) /\ ~ In (i_iid iss) (map n_id (i_notes iss)).

Lemma step_cases c iss ok ops e :
  step c iss ok ops e = ops \/
  exists o r, step c iss ok ops e = ops ++ [o] /\ decide c iss ops e = AAppend o r /\ op_valid c o = true /\ ok = true /\
              resolve (ev_id e) ops <> LMany /\ e <> EError.
Proof. unfold step. destruct e as [n|l|s|]; try (now left);
  (destruct (resolve _ ops) eqn:R; [| |now left]; (destruct ok; [|now left]);
   (destruct (decide c iss ops _) as [| |o r] eqn:D; [now left|now left|]);
   (destruct (op_valid c o) eqn:V; [|now left]); right; exists o, r; repeat split; auto; try congruence; discriminate). Qed.

Lemma kcomment_is_note e : ev_kind e = KComment -> exists n, e = ENote n.
Proof. destruct e as [n|l|s|]; cbn; [eauto| | |discriminate].
  - destruct (l_action l =? 0); [discriminate|]. destruct (l_action l =? 1); discriminate.
  - destruct (s_state s =? 0); [discriminate|]. destruct (s_state s =? 1); discriminate. Qed.
Lemma kdesc_is_note e : ev_kind e = KDesc -> exists n, e = ENote n.
Proof. destruct e as [n|l|s|]; cbn; [eauto| | |discriminate].
  - destruct (l_action l =? 0); [discriminate|]. destruct (l_action l =? 1); discriminate.
  - destruct (s_state s =? 0); [discriminate|]. destruct (s_state s =? 1); discriminate. Qed.

(* what can be appended: an operation carrying the event's id when that id was not there, or an edit of the comment the id designates *)
Lemma decide_append c iss ops e o r : c_dedupe_labels c = true -> decide c iss ops e = AAppend o r ->
  (o_gid o = Some (ev_id e) /\ resolve (ev_id e) ops <> LOne 0 /\ (forall p, resolve (ev_id e) ops <> LOne p) /\
   match ev_kind e with
   | KComment => o_k o = OComment (cleanup (note_body e))
   | KDesc => o_k o = OEdit 0 (cleanup (i_desc iss)) /\ exists first, comment_text ops 0 = Some first /\ first <> cleanup (i_desc iss)
   | _ => forall q m, o_k o <> OEdit q m
   end) \/
  (exists p cur, o_gid o = None /\ o_k o = OEdit p (cleanup (note_body e)) /\ resolve (ev_id e) ops = LOne p /\ ev_kind e = KComment /\
                 comment_text ops p = Some cur /\ cur <> cleanup (note_body e)).
Proof. intros Dd. unfold decide. rewrite Dd. cbn [andb].
  destruct (ev_kind e) eqn:K.
  - (* comment *) destruct (resolve (ev_id e) ops) as [|p|] eqn:R.
    + intros H. inversion H; subst. left. cbn. repeat split; try discriminate; try (intros ?; discriminate).
    + destruct (comment_text ops p) as [cur|] eqn:T; [|discriminate]. destruct (text_eqb cur _) eqn:Q; [discriminate|].
      intros H. inversion H; subst. right. exists p, cur. cbn. repeat split; auto. intros ->. now rewrite text_eqb_refl in Q.
    + intros H. inversion H; subst. left. cbn. repeat split; try discriminate; try (intros ?; discriminate).
  - (* title *) destruct (resolve (ev_id e) ops) as [|p|] eqn:R; [|discriminate|];
    (destruct (new_title_c c (note_body e)); [|discriminate]); intros H; inversion H; subst; left; cbn; repeat split; try discriminate; try (intros ?; discriminate).
  - (* description *) destruct (comment_text ops 0) as [first|] eqn:T; [|discriminate].
    destruct (resolve (ev_id e) ops) as [|p|] eqn:R; cbn; try discriminate;
    (destruct (text_eqb (cleanup (i_desc iss)) first) eqn:Q; cbn; [discriminate|]); intros H; inversion H; subst; left; cbn;
    (repeat split; try discriminate; try (intros ?; discriminate); exists first; split; [reflexivity|]; intros ->; now rewrite text_eqb_refl in Q).
  - destruct (resolve (ev_id e) ops) as [|p|] eqn:R; [|discriminate|]; intros H; inversion H; subst; left; cbn; repeat split; try discriminate; try (intros ?; discriminate).
  - destruct (resolve (ev_id e) ops) as [|p|] eqn:R; [|discriminate|]; intros H; inversion H; subst; left; cbn; repeat split; try discriminate; try (intros ?; discriminate).
  - destruct (resolve (ev_id e) ops) as [|p|] eqn:R; [|discriminate|]; (destruct (no_label c e); [discriminate|]); intros H; inversion H; subst; left; cbn; repeat split; try discriminate; try (intros ?; discriminate).
  - destruct (resolve (ev_id e) ops) as [|p|] eqn:R; [|discriminate|]; (destruct (no_label c e); [discriminate|]); intros H; inversion H; subst; left; cbn; repeat split; try discriminate; try (intros ?; discriminate).
  - discriminate.
  - discriminate. Qed.

Lemma inv_ops_step c iss ok ops e : c_dedupe_labels c = true -> inv_ops c iss ops -> inv_ops c iss (step c iss ok ops e).
Proof. intros Dd I. destruct (step_cases c iss ok ops e) as [->|[o [r [-> [D [V [_ [NM _]]]]]]]]; [exact I|].
  destruct I as [[o0 [rest [E [G Cc]]]] [Va [Tg Nd]]]. split; [|split; [|split]].
  - exists o0, (rest ++ [o]). subst ops. auto.
  - apply Forall_app. split; [exact Va|]. constructor; [exact V|constructor].
  - intros x q m Hx Hk. rewrite app_length. cbn. apply in_app_or in Hx as [Hx|[<-|[]]].
    + specialize (Tg x q m Hx Hk). lia.
    + destruct (decide_append c iss ops e o r Dd D) as [[_ [_ [_ Hkind]]]|[p [cur [_ [Hk' [R _]]]]]].
      * destruct (ev_kind e); try (exfalso; now apply (Hkind q m)).
        -- rewrite Hkind in Hk. discriminate.
        -- destruct Hkind as [Hk' _]. rewrite Hk' in Hk. inversion Hk; subst. cbn. lia.
      * rewrite Hk' in Hk. inversion Hk; subst. apply resolve_one in R as [L _]. lia.
  - rewrite gids_app. destruct (decide_append c iss ops e o r Dd D) as [[Gi [_ [NoOne _]]]|[p [cur [Gi _]]]]; cbn; rewrite Gi; [|now rewrite app_nil_r].
    assert (R1 : resolve (ev_id e) ops = LNone) by (destruct (resolve (ev_id e) ops) as [|p|] eqn:R; [reflexivity|exfalso; now apply (NoOne p)|congruence]).
    apply resolve_none in R1. clear - Nd R1. induction (gids ops) as [|x l IH]; cbn; [constructor; [tauto|constructor]|].
    inversion Nd; subst. constructor; [|apply IH; [assumption|intros X; apply R1; now right]].
    intros X. apply in_app_or in X as [X|[X|[]]]; [contradiction|]. apply R1. now left. Qed.

(* an event is settled when looking at it again changes nothing *)
Definition settled (c : cfg) (iss : issue) (ops : list op) (e : event) : Prop := step c iss true ops e = ops.

Lemma settled_of_noop c iss ok ops e : ok = true -> step c iss ok ops e = ops -> settled c iss ops e.
Proof. intros -> H. exact H. Qed.

Lemma app_one_neq {A} (l : list A) x : l ++ [x] <> l.
Proof. intros H. apply (f_equal (@length A)) in H. rewrite app_length in H. cbn in H. lia. Qed.

(* L1: after an event has been looked at (with its author there), it is settled *)
Lemma step_settles c iss ops e : c_dedupe_labels c = true -> inv_ops c iss ops -> settled c iss (step c iss true ops e) e.
Proof. intros Dd I. unfold settled.
  destruct (step_cases c iss true ops e) as [E|[o [r [E [D [V [_ [NM NE]]]]]]]]; [now rewrite E|].
  rewrite E. destruct (step_cases c iss true (ops ++ [o]) e) as [E2|[o2 [r2 [E2 [D2 [V2 [_ [NM2 _]]]]]]]]; [exact E2|exfalso].
  destruct (decide_append c iss ops e o r Dd D) as [[G [_ [NoOne Hkind]]]|[p [cur [G [Hk [R [K [T _]]]]]]]].
  - (* the operation carries the id: the id is now found *)
    assert (R1 : resolve (ev_id e) ops = LNone) by (destruct (resolve (ev_id e) ops) as [|p|] eqn:R; [reflexivity|exfalso; now apply (NoOne p)|congruence]).
    assert (R2 : resolve (ev_id e) (ops ++ [o]) = LOne (length ops)).
    { rewrite resolve_app. apply gid_is_spec in G. now rewrite G, R1. }
    unfold decide in D2. rewrite R2, Dd in D2. cbn [andb] in D2.
    destruct (ev_kind e) eqn:K; try discriminate.
    + (* comment: its text is the one just stored *)
      assert (T : comment_text (ops ++ [o]) (length ops) = Some (cleanup (note_body e))).
      { unfold comment_text. rewrite nth_error_app2 by lia. rewrite Nat.sub_diag. cbn. unfold creates_comment. rewrite Hkind.
        f_equal. rewrite last_edit_app. cbn. rewrite Hkind.
        destruct I as [_ [_ [Tg _]]]. clear - Tg. revert Tg. generalize (cleanup (note_body e)) as m. generalize (length ops) as n.
        intros n m Tg. assert (forall l, (forall o q m, In o l -> o_k o = OEdit q m -> (q < n)%nat) -> last_edit n l m = m).
        { induction l as [|x l IH]; intros H; cbn; [reflexivity|]. destruct (o_k x) eqn:Kx; try (apply IH; intros; eapply H; eauto; now right).
          destruct (Nat.eqb_spec n target).
          - exfalso. specialize (H x target msg (or_introl eq_refl) Kx). lia.
          - apply IH. intros; eapply H; eauto. now right. }
        apply H. exact Tg. }
      rewrite T, text_eqb_refl in D2. discriminate.
    + (* description *) destruct (comment_text (ops ++ [o]) 0); discriminate.
  - (* the comment was edited: it now has the tracker's text *)
    assert (R2 : resolve (ev_id e) (ops ++ [o]) = LOne p).
    { rewrite resolve_app. unfold gid_is. now rewrite G. }
    pose proof (resolve_one _ _ _ R) as [L _].
    unfold decide in D2. rewrite R2, K in D2. rewrite comment_text_app, T in D2 by exact L.
    unfold edits_to in D2. rewrite Hk, Nat.eqb_refl, text_eqb_refl in D2. discriminate. Qed.

Lemma settled_inv c iss ops e o r : settled c iss ops e -> e <> EError -> resolve (ev_id e) ops <> LMany ->
  decide c iss ops e = AAppend o r -> op_valid c o = false.
Proof. unfold settled, step. intros S NE NM D.
  destruct (op_valid c o) eqn:V; [exfalso|reflexivity].
  destruct e as [n|l|s|]; try congruence;
  (destruct (resolve _ ops) eqn:R; try congruence; rewrite D, V in S; exact (app_one_neq _ _ S)). Qed.

Lemma NoDup_map_inj {A B} (f : A -> B) (l : list A) a b : NoDup (map f l) -> In a l -> In b l -> f a = f b -> a = b.
Proof. induction l as [|x l IH]; cbn; [tauto|]. intros ND [->|Ha] [->|Hb] E; auto.
  - inversion ND; subst. exfalso. apply H1. rewrite E. now apply in_map.
  - inversion ND; subst. exfalso. apply H1. rewrite <- E. now apply in_map.
  - inversion ND; subst. auto. Qed.

Lemma op_valid_comment c g a t m : op_valid c (mkop g a t (OComment (cleanup m))) = true.
Proof. cbn. apply cleanup_safe. Qed.
Lemma op_valid_edit c g a t p m : op_valid c (mkop g a t (OEdit p (cleanup m))) = true.
Proof. cbn. apply cleanup_safe. Qed.

(* L2: an event that is settled stays settled when another event of the same issue appends an operation *)
Lemma settled_app c iss ops e e' ok o' :
  c_dedupe_labels c = true -> inv_ops c iss ops -> wf_issue iss -> In_ev iss e -> In_ev iss e' ->
  settled c iss ops e -> step c iss ok ops e' = ops ++ [o'] -> settled c iss (ops ++ [o']) e.
Proof. intros Dd I [ND NI] He He' S E'.
  destruct (step_cases c iss ok ops e') as [X|[o [r [X [D' [V' [_ [NM' NE']]]]]]]]; [rewrite X in E'; symmetry in E'; exfalso; exact (app_one_neq _ _ E')|].
  rewrite X in E'. apply app_inv_head in E'. inversion E'; subst o'. clear E' X.
  unfold settled. destruct (step_cases c iss true (ops ++ [o]) e) as [X|[o2 [r2 [_ [D2 [V2 [_ [NM2 NE]]]]]]]]; [exact X|exfalso].
  pose proof I as [[o0 [rest [Eops [G0 C0]]]] [Va [Tg _]]].
  (* the id of a comment note is not the issue's IID, so it does not designate position 0 *)
  assert (NotZero : forall x, In_ev iss x -> ev_kind x = KComment -> resolve (ev_id x) ops = LOne 0 -> False).
  { intros x Hx Kx Rx. destruct (kcomment_is_note x Kx) as [n ->]. cbn in Hx, Rx.
    apply resolve_one in Rx as [_ [y [Ny Gy]]]. rewrite Eops in Ny. cbn in Ny. inversion Ny; subst y. apply gid_is_spec in Gy.
    rewrite G0 in Gy. inversion Gy as [Gy']. apply NI. rewrite Gy'. now apply in_map. }
  assert (LM : resolve (ev_id e) ops <> LMany).
  { intros R. apply NM2. rewrite resolve_app, R. now destruct (gid_is (ev_id e) o). }
  assert (SI := fun o r => settled_inv c iss ops e o r S NE LM).
  destruct (decide_append c iss (ops ++ [o]) e o2 r2 Dd D2) as [[G2 [_ [NoOne2 Hk2]]]|[p [cur2 [G2 [Hk2 [R2 [K [T2 Ne2]]]]]]]].
  - (* e would append an operation carrying its id: its id is in neither list *)
    assert (R2 : resolve (ev_id e) (ops ++ [o]) = LNone) by (destruct (resolve (ev_id e) (ops ++ [o])) as [|p|] eqn:R; [reflexivity|exfalso; now apply (NoOne2 p)|congruence]).
    assert (R1 : resolve (ev_id e) ops = LNone).
    { rewrite resolve_app in R2. destruct (gid_is (ev_id e) o); [destruct (resolve (ev_id e) ops); discriminate|exact R2]. }
    unfold decide in D2. rewrite R2, Dd in D2. cbn [andb negb] in D2.
    destruct (ev_kind e) eqn:K.
    + (* comment *)
      assert (F : op_valid c (mkop (Some (ev_id e)) (ev_user e) (ev_time e) (OComment (cleanup (note_body e)))) = false)
        by (apply (SI _ (Some (RComment (i_iid iss)))); unfold decide; now rewrite K, R1).
      now rewrite op_valid_comment in F.
    + (* title *) destruct (new_title_c c (note_body e)) as [t|] eqn:NT; [|discriminate]. inversion D2; subst o2.
      assert (F : op_valid c (mkop (Some (ev_id e)) (ev_user e) (ev_time e) (OTitle t (cur_title ops []))) = false)
        by (apply (SI _ (Some (RTitle (i_iid iss)))); unfold decide; now rewrite K, R1, NT).
      cbn in V2. apply andb_true_iff in V2 as [V2 _]. cbn in F. rewrite V2 in F. cbn in F.
      rewrite (cur_title_safe c ops [] Va eq_refl) in F. discriminate.
    + (* description *) destruct Hk2 as [_ [first2 [T2 Ne2]]].
      assert (L0 : (0 < length ops)%nat) by (rewrite Eops; cbn; lia).
      rewrite comment_text_app in T2 by exact L0.
      destruct (comment_text ops 0) as [first|] eqn:T1; [|discriminate]. inversion T2; subst first2. clear T2.
      destruct (text_eqb (cleanup (i_desc iss)) first) eqn:Q.
      * apply text_eqb_eq in Q. subst first.
        unfold edits_to in Ne2. destruct (o_k o) as [| |q m| | |] eqn:Ko; try (now apply Ne2).
        destruct (Nat.eqb_spec 0 q) as [<-|]; [|now apply Ne2].
        destruct (decide_append c iss ops e' o r Dd D') as [[_ [_ [_ Hk']]]|[p' [cur' [_ [Hk' [R' [K' _]]]]]]].
        -- destruct (ev_kind e') eqn:K'; try (now apply (Hk' 0%nat m)).
           ++ rewrite Hk' in Ko. discriminate.
           ++ destruct Hk' as [Hk' _]. rewrite Hk' in Ko. inversion Ko; subst m. now apply Ne2.
        -- rewrite Hk' in Ko. inversion Ko; subst. exact (NotZero e' He' K' R').
      * assert (F : op_valid c (mkop (Some (ev_id e)) (ev_user e) (note_updated e) (OEdit 0 (cleanup (i_desc iss)))) = false)
          by (apply (SI _ (Some (RTitle (i_iid iss)))); unfold decide; rewrite K, R1, T1; cbn; now rewrite Q).
        now rewrite op_valid_edit in F.
    + inversion D2; subst o2. rewrite (SI _ (Some (RStatus (i_iid iss)))) in V2; [discriminate|]. unfold decide. now rewrite K, R1.
    + inversion D2; subst o2. rewrite (SI _ (Some (RStatus (i_iid iss)))) in V2; [discriminate|]. unfold decide. now rewrite K, R1.
    + destruct (no_label c e) eqn:NL; [discriminate|]. inversion D2; subst o2. rewrite (SI _ None) in V2; [discriminate|]. unfold decide. now rewrite K, R1, Dd, NL.
    + destruct (no_label c e) eqn:NL; [discriminate|]. inversion D2; subst o2. rewrite (SI _ None) in V2; [discriminate|]. unfold decide. now rewrite K, R1, Dd, NL.
    + discriminate.
    + discriminate.
  - (* e would edit its comment *)
    rewrite resolve_app in R2. destruct (gid_is (ev_id e) o) eqn:Go.
    + (* the new operation carries e's id: e was not there, and would have been added *)
      destruct (resolve (ev_id e) ops) eqn:R1; try discriminate.
      assert (F : op_valid c (mkop (Some (ev_id e)) (ev_user e) (ev_time e) (OComment (cleanup (note_body e)))) = false)
        by (apply (SI _ (Some (RComment (i_iid iss)))); unfold decide; now rewrite K, R1).
      now rewrite op_valid_comment in F.
    + pose proof (resolve_one _ _ _ R2) as [L _]. rewrite comment_text_app in T2 by exact L.
      destruct (comment_text ops p) as [cur|] eqn:T1; [|discriminate]. inversion T2; subst cur2. clear T2.
      destruct (text_eqb cur (cleanup (note_body e))) eqn:Q.
      * apply text_eqb_eq in Q. subst cur.
        unfold edits_to in Ne2. destruct (o_k o) as [| |q m| | |] eqn:Ko; try (now apply Ne2).
        destruct (Nat.eqb_spec p q) as [<-|]; [|now apply Ne2].
        destruct (decide_append c iss ops e' o r Dd D') as [[_ [_ [_ Hk']]]|[p' [cur' [_ [Hk' [R' [K' _]]]]]]].
        -- destruct (ev_kind e') eqn:K'; try (now apply (Hk' p m)).
           ++ rewrite Hk' in Ko. discriminate.
           ++ destruct Hk' as [Hk' _]. rewrite Hk' in Ko. inversion Ko; subst. exact (NotZero e He K R2).
        -- rewrite Hk' in Ko. inversion Ko; subst p' m.
           (* both notes designate the operation at p: they have the same id, hence are the same note *)
           apply resolve_one in R2 as [_ [y [Ny Gy]]]. apply resolve_one in R' as [_ [y' [Ny' Gy']]].
           rewrite Ny in Ny'. inversion Ny'; subst y'. apply gid_is_spec in Gy, Gy'. rewrite Gy in Gy'. inversion Gy' as [Eid].
           destruct (kcomment_is_note e K) as [n ->]. destruct (kcomment_is_note e' K') as [n' ->]. cbn in *.
           assert (n = n') by (eapply (NoDup_map_inj n_id); eauto). subst n'. now apply Ne2.
      * assert (F : op_valid c (mkop None (ev_user e) (note_updated e) (OEdit p (cleanup (note_body e)))) = false)
          by (apply (SI _ (Some (RCommentEdit (i_iid iss)))); unfold decide; now rewrite K, R2, T1, Q).
        now rewrite op_valid_edit in F. Qed.

(* ------------------------------------------------------------------ a pass over the events of an issue *)

Lemma step_false c iss ops e : step c iss false ops e = ops.
Proof. unfold step. destruct e; try reflexivity; destruct (resolve _ ops); reflexivity. Qed.

Lemma step_many c iss ok ops e : resolve (ev_id e) ops = LMany -> step c iss ok ops e = ops.
Proof. intros R. unfold step. destruct e; try reflexivity; cbn [ev_id] in *; now rewrite R. Qed.

Lemma resolve_many_step c iss ok ops e g : resolve g ops = LMany -> resolve g (step c iss ok ops e) = LMany.
Proof. intros R. destruct (step_cases c iss ok ops e) as [->|[o [r [-> _]]]]; [exact R|].
  rewrite resolve_app, R. now destruct (gid_is g o). Qed.

Lemma settled_step c iss ops e e' ok :
  c_dedupe_labels c = true -> inv_ops c iss ops -> wf_issue iss -> In_ev iss e -> In_ev iss e' ->
  settled c iss ops e -> settled c iss (step c iss ok ops e') e.
Proof. intros Dd I W He He' S. destruct (step_cases c iss ok ops e') as [->|[o [r [E _]]]]; [exact S|].
  rewrite E. eapply settled_app; eauto. Qed.

Definition ensured (c : cfg) (us : list user) (idents : list N) (uid : N) : Prop := In uid idents \/ resolvable c us uid = false.

Lemma ensured_after c us idents uid : ensured c us (idents_after c us idents uid) uid.
Proof. unfold ensured, idents_after. destruct (memN uid idents) eqn:M; [left; now apply memN_In|].
  destruct (resolvable c us uid); [left; apply in_or_app; right; now left|now right]. Qed.
Lemma ensured_mono c us a b uid : (forall x, In x a -> In x b) -> ensured c us a uid -> ensured c us b uid.
Proof. intros H [E|E]; [left; auto|now right]. Qed.
Lemma ensured_noop c us idents uid : ensured c us idents uid -> idents_after c us idents uid = idents.
Proof. unfold idents_after. intros [E|E]; [apply memN_In in E; now rewrite E|]. rewrite E. now destruct (memN uid idents). Qed.

Lemma resolve_many_app g ops d : resolve g ops = LMany -> resolve g (ops ++ d) = LMany.
Proof. unfold resolve. rewrite positions_app. destruct (positions g ops 0) as [|p [|q t]]; try discriminate. reflexivity. Qed.

Lemma emit_proj r s : rs_idents (emit r s) = rs_idents s /\ rs_bugs (emit r s) = rs_bugs s /\ rs_fault (emit r s) = rs_fault s.
Proof. repeat split. Qed.

Definition idents_after_event (c : cfg) (us : list user) (idents : list N) (ops : list op) (e : event) : list N :=
  match e with
  | EError => idents
  | _ => match resolve (ev_id e) ops with LMany => idents | _ => idents_after c us idents (ev_user e) end
  end.

(* one event, no failure pending *)
Lemma ee_clean c us iss ops s e : rs_fault s = None ->
  let r := ensure_event c us iss (ops, s) e in
  fst r = step c iss (person_ok c us (rs_idents s) (ev_user e)) ops e /\
  rs_bugs (snd r) = rs_bugs s /\ rs_fault (snd r) = None /\
  rs_idents (snd r) = idents_after_event c us (rs_idents s) ops e.
Proof. intros F. cbn zeta. unfold ensure_event, idents_after_event.
  destruct e as [n|l|st|]; [| | |now cbn];
  (destruct (resolve _ ops) eqn:R;
   [ | |rewrite step_many by exact R; cbn; auto];
   (match goal with |- context [ensure_person c us ?u s] =>
      destruct (ep_clean c us u s F) as [A [B [C D]]]; destruct (ensure_person c us u s) as [s1 ok] end;
    cbn [fst snd] in *; subst ok;
    split; [reflexivity|];
    destruct (person_ok c us (rs_idents s) _); [destruct (decide c iss ops _) as [| |o r]; [|cbn|destruct (op_valid c o); [destruct r|]; cbn]|cbn]; auto)). Qed.

Lemma idents_after_event_incl c us idents ops e x : In x idents -> In x (idents_after_event c us idents ops e).
Proof. unfold idents_after_event. destruct e; auto; destruct (resolve _ ops); auto; apply idents_after_incl. Qed.
Lemma grown_after_event c us base cur ops e : grown c us base cur -> grown c us base (idents_after_event c us cur ops e).
Proof. unfold idents_after_event. destruct e; auto; destruct (resolve _ ops); auto; apply grown_after. Qed.

(* all the events of an issue, no failure pending *)
Lemma events_clean c us iss base : c_dedupe_labels c = true -> wf_issue iss -> forall evs ops s,
  rs_fault s = None -> inv_ops c iss ops -> grown c us base (rs_idents s) -> Forall (In_ev iss) evs ->
  let r := fold_left (ensure_event c us iss) evs (ops, s) in
  inv_ops c iss (fst r) /\ rs_bugs (snd r) = rs_bugs s /\ rs_fault (snd r) = None /\ grown c us base (rs_idents (snd r)) /\
  (forall x, In x (rs_idents s) -> In x (rs_idents (snd r))) /\
  (exists d, fst r = ops ++ d) /\
  (forall e, In e evs -> person_ok c us base (ev_user e) = true -> settled c iss (fst r) e) /\
  (forall e, In e evs -> e <> EError -> resolve (ev_id e) (fst r) <> LMany -> ensured c us (rs_idents (snd r)) (ev_user e)) /\
  (forall e, In_ev iss e -> settled c iss ops e -> settled c iss (fst r) e).
Proof. intros Dd W. induction evs as [|e t IH]; intros ops s F I G Hev; cbn zeta.
  - cbn. split; [exact I|]. split; [reflexivity|]. split; [exact F|]. split; [exact G|]. split; [auto|].
    split; [exists []; now rewrite app_nil_r|]. split; [tauto|]. split; [tauto|auto].
  - cbn [fold_left]. inversion Hev as [|? ? He Ht]; subst.
    destruct (ee_clean c us iss ops s e F) as [E1 [E2 [E3 E4]]].
    destruct (ensure_event c us iss (ops, s) e) as [ops1 s1] eqn:EE. cbn [fst snd] in *.
    rewrite (grown_ok c us base (rs_idents s) _ G) in E1.
    assert (I1 : inv_ops c iss ops1) by (subst ops1; now apply inv_ops_step).
    assert (G1 : grown c us base (rs_idents s1)) by (rewrite E4; now apply grown_after_event).
    specialize (IH ops1 s1 E3 I1 G1 Ht). cbn zeta in IH.
    destruct IH as [J1 [J2 [J3 [J4 [J5 [[d J6] [J7 [J8 J9]]]]]]]].
    assert (Ex : exists d1, ops1 = ops ++ d1).
    { subst ops1. destruct (step_cases c iss (person_ok c us base (ev_user e)) ops e) as [->|[o [r [-> _]]]]; [exists []; now rewrite app_nil_r|eauto]. }
    destruct Ex as [d1 Ed1].
    split; [exact J1|]. split; [congruence|]. split; [exact J3|]. split; [exact J4|].
    split; [|split; [|split; [|split]]].
    + intros x Hx. apply J5. rewrite E4. now apply idents_after_event_incl.
    + exists (d1 ++ d). rewrite J6, Ed1. now rewrite app_assoc.
    + intros e' [<-|Hin] P; [|now apply J7].
      apply J9; [exact He|]. subst ops1. rewrite P. now apply step_settles.
    + intros e' [<-|Hin] NE NM; [|now apply J8].
      apply (ensured_mono c us (rs_idents s1)); [exact J5|]. rewrite E4. unfold idents_after_event.
      destruct e; try congruence;
      (destruct (resolve _ ops) eqn:R; try apply ensured_after; exfalso; apply NM; rewrite J6, Ed1, <- app_assoc; now apply resolve_many_app).
    + intros e' He' S. apply J9; [exact He'|]. subst ops1. now apply settled_step. Qed.

(* looking again at events that are all settled changes nothing *)
Lemma events_noop c us iss : forall evs ops s,
  rs_fault s = None ->
  (forall e, In e evs -> person_ok c us (rs_idents s) (ev_user e) = true -> settled c iss ops e) ->
  (forall e, In e evs -> e <> EError -> resolve (ev_id e) ops <> LMany -> ensured c us (rs_idents s) (ev_user e)) ->
  let r := fold_left (ensure_event c us iss) evs (ops, s) in
  fst r = ops /\ rs_idents (snd r) = rs_idents s /\ rs_bugs (snd r) = rs_bugs s /\ rs_fault (snd r) = None.
Proof. induction evs as [|e t IH]; intros ops s F S En; cbn zeta; [cbn; auto|].
  cbn [fold_left]. destruct (ee_clean c us iss ops s e F) as [E1 [E2 [E3 E4]]].
  destruct (ensure_event c us iss (ops, s) e) as [ops1 s1] eqn:EE. cbn [fst snd] in *.
  assert (O : ops1 = ops).
  { subst ops1. destruct (person_ok c us (rs_idents s) (ev_user e)) eqn:P; [|apply step_false].
    apply S; [now left|exact P]. }
  assert (Id : rs_idents s1 = rs_idents s).
  { rewrite E4. unfold idents_after_event. destruct e; auto;
    (destruct (resolve _ ops) eqn:R; auto; apply ensured_noop; (apply En; [now left|discriminate|congruence])). }
  subst ops1. specialize (IH ops s1 E3). cbn zeta in IH. rewrite Id in IH.
  destruct IH as [K1 [K2 [K3 K4]]].
  - intros e' H. apply S. now right.
  - intros e' H. apply En. now right.
  - repeat split; auto; congruence. Qed.

(* ------------------------------------------------------------------ paginated listings *)

Definition same_core (s s' : rs) : Prop :=
  rs_idents s' = rs_idents s /\ rs_bugs s' = rs_bugs s /\ rs_res s' = rs_res s /\ rs_fault s' = rs_fault s.
Lemma same_core_refl s : same_core s s. Proof. repeat split. Qed.
Lemma same_core_trans a b d : same_core a b -> same_core b d -> same_core a d.
Proof. intros [A1 [A2 [A3 A4]]] [B1 [B2 [B3 B4]]]. repeat split; congruence. Qed.

Lemma send_clean q s : rs_fault s = None -> exists s', send q s = (s', true) /\ same_core s s'.
Proof. intros F. unfold send. rewrite F. cbn. eexists. split; [reflexivity|]. repeat split; cbn; auto. Qed.

Lemma skipn_add {A} a b (l : list A) : skipn (a + b) l = skipn b (skipn a l).
Proof. revert l. induction a as [|a IH]; intros l; cbn; [reflexivity|]. destruct l; [now destruct b|apply IH]. Qed.

Lemma npages_cover {A} p (l : list A) : (1 <= p)%nat -> (length l <= npages p l * p)%nat.
Proof. intros Hp. unfold npages. set (n := length l).
  assert (n <= ((n + p - 1) / p) * p)%nat.
  { pose proof (Nat.div_mod (n + p - 1) p ltac:(lia)) as E. pose proof (Nat.mod_upper_bound (n + p - 1) p ltac:(lia)) as U.
    rewrite Nat.mul_comm in E. lia. }
  nia. Qed.

(* the listings are followed to their last page: the page size is positive, and either the code looks at X-Next-Page or
   the server sends X-Total-Pages *)
Definition paging_ok (c : cfg) (p : nat) : Prop := (1 <= p)%nat /\ (c_next_page c = true \/ c_totals c = true).

Lemma last_page_ok {A} c p (l : list A) k : paging_ok c p -> last_page c p l k = Nat.leb (npages p l) k.
Proof. intros [_ [H|H]]; unfold last_page; rewrite H; [reflexivity|]. now destruct (c_next_page c). Qed.

Lemma fetch_pages_clean {A} c (mk : nat -> req) p (l : list A) : paging_ok c p -> forall fuel k s,
  rs_fault s = None -> (1 <= k)%nat -> (fuel + k = npages p l + 1)%nat ->
  exists s', fetch_pages c fuel mk p l k s = (s', skipn ((k - 1) * p) l, false) /\ same_core s s'.
Proof. intros Hpg. pose proof (proj1 Hpg) as Hp. pose proof (npages_cover p l Hp) as Cov.
  induction fuel as [|f IH]; intros k s F Hk E; cbn [fetch_pages].
  - exists s. split; [|apply same_core_refl]. f_equal. f_equal. symmetry. apply skipn_all2.
    replace (k - 1)%nat with (npages p l) by lia. exact Cov.
  - destruct (send_clean (mk k) s F) as [s1 [-> C1]]. cbn [negb]. rewrite (last_page_ok c p l k Hpg).
    destruct (Nat.leb_spec (npages p l) k) as [Le|Lt].
    + exists s1. split; [|exact C1]. f_equal. f_equal. unfold page_of. apply firstn_all2. rewrite skipn_length. nia.
    + assert (F1 : rs_fault s1 = None) by (destruct C1 as [_ [_ [_ X]]]; congruence).
      destruct (IH (S k) s1 F1 ltac:(lia) ltac:(lia)) as [s2 [-> C2]].
      exists s2. split; [|eapply same_core_trans; eauto]. f_equal. f_equal. unfold page_of.
      replace (S k - 1)%nat with (k - 1 + 1)%nat by lia. rewrite Nat.mul_add_distr_r, Nat.mul_1_l, skipn_add.
      apply firstn_skipn. Qed.

Lemma fetch_all_clean {A} c (mk : nat -> req) p (l : list A) s : paging_ok c p -> rs_fault s = None ->
  exists s', fetch_all c mk p l s = (s', l, false) /\ same_core s s'.
Proof. intros Hp F. unfold fetch_all. destruct (fetch_pages_clean c mk p l Hp (npages p l) 1 s F ltac:(lia) ltac:(lia)) as [s' [E C]].
  exists s'. split; [|exact C]. rewrite E. reflexivity. Qed.

Lemma skipn_In {A} n (l : list A) x : In x (skipn n l) -> In x l.
Proof. revert l. induction n; intros l; cbn; [auto|]. destruct l; [auto|]. intros H. right. now apply IHn. Qed.
Lemma firstn_In' {A} n (l : list A) x : In x (firstn n l) -> In x l.
Proof. revert l. induction n; intros l; cbn; [tauto|]. destruct l; cbn; [tauto|]. intros [H|H]; auto. Qed.

(* in general a listing returns some of the items *)
Lemma fetch_pages_incl {A} c (mk : nat -> req) p (l : list A) : forall fuel k s x,
  In x (snd (fst (fetch_pages c fuel mk p l k s))) -> In x l.
Proof. induction fuel as [|f IH]; intros k s x; cbn [fetch_pages]; [cbn; tauto|].
  destruct (send (mk k) s) as [s1 ok]. destruct ok; cbn [negb]; [|cbn; tauto].
  destruct (last_page c p l k).
  - cbn. unfold page_of. intros H. apply firstn_In' in H. eapply skipn_In; eauto.
  - destruct (fetch_pages c f mk p l (S k) s1) as [[s2 rest] failed] eqn:E. cbn. intros H. apply in_app_or in H as [H|H].
    + unfold page_of in H. apply firstn_In' in H. eapply skipn_In; eauto.
    + apply (IH (S k) s1). now rewrite E. Qed.


(* ------------------------------------------------------------------ the merged event stream *)

Lemma merge3_in fuel : forall a b c e, In e (merge3 fuel a b c) -> In e a \/ In e b \/ In e c.
Proof. induction fuel as [|f IH]; intros a b c e; cbn [merge3]; [cbn; tauto|].
  destruct (earlier (head_time c) _).
  - destruct c as [|x c']; [cbn; tauto|]. intros [<-|H]; [right; right; now left|]. apply IH in H. cbn. tauto.
  - destruct (earlier (head_time b) (head_time a)).
    + destruct b as [|x b']; [cbn; tauto|]. intros [<-|H]; [right; left; now left|]. apply IH in H. cbn. tauto.
    + destruct a as [|x a']; [cbn; tauto|]. intros [<-|H]; [left; now left|]. apply IH in H. cbn. tauto. Qed.

Definition evs_of (iss : issue) : list event :=
  sorted_events (map ENote (i_notes iss)) (map ELabel (i_labels iss)) (map EState (i_states iss)).

Lemma with_error_in evs failed e : In e (with_error evs failed) -> In e evs \/ e = EError.
Proof. unfold with_error. destruct failed; [|auto]. intros H. apply in_app_or in H as [H|[<-|[]]]; auto. Qed.

Lemma sorted_events_in_ev iss ns ls ss fn fl fs :
  (forall n, In n ns -> In n (i_notes iss)) -> (forall l, In l ls -> In l (i_labels iss)) -> (forall s, In s ss -> In s (i_states iss)) ->
  Forall (In_ev iss) (sorted_events (with_error (map ENote ns) fn) (with_error (map ELabel ls) fl) (with_error (map EState ss) fs)).
Proof. intros Hn Hl Hs. apply Forall_forall. intros e H. unfold sorted_events in H. apply merge3_in in H.
  destruct H as [H|[H|H]]; apply with_error_in in H as [H| ->]; cbn; auto; apply in_map_iff in H as [x [<- Hx]]; cbn; auto. Qed.

Lemma evs_of_in_ev iss : Forall (In_ev iss) (evs_of iss).
Proof. apply (sorted_events_in_ev iss _ _ _ false false false); auto. Qed.

(* ------------------------------------------------------------------ the list of bugs *)

Lemma find_bug_iid iid bs b : find_bug iid bs = Some b -> b_iid b = iid.
Proof. induction bs as [|x t IH]; cbn; [discriminate|]. destruct (N.eqb_spec (b_iid x) iid); [intros H; now inversion H; subst|exact IH]. Qed.
Lemma find_put_same b bs : find_bug (b_iid b) (put_bug b bs) = Some b.
Proof. induction bs as [|x t IH]; cbn; [now rewrite N.eqb_refl|].
  destruct (N.eqb_spec (b_iid x) (b_iid b)); cbn; [now rewrite N.eqb_refl|]. destruct (N.eqb_spec (b_iid x) (b_iid b)); [contradiction|exact IH]. Qed.
Lemma find_put_other iid b bs : iid <> b_iid b -> find_bug iid (put_bug b bs) = find_bug iid bs.
Proof. intros Ne. induction bs as [|x t IH]; cbn.
  - destruct (N.eqb_spec (b_iid b) iid); [congruence|reflexivity].
  - destruct (N.eqb_spec (b_iid x) (b_iid b)) as [E|E]; cbn.
    + destruct (N.eqb_spec (b_iid b) iid); [congruence|]. destruct (N.eqb_spec (b_iid x) iid); [congruence|reflexivity].
    + destruct (N.eqb_spec (b_iid x) iid); [reflexivity|exact IH]. Qed.

(* ------------------------------------------------------------------ one issue, no failure pending *)

Definition create_op (c : cfg) (iss : issue) : op :=
  mkop (Some (i_iid iss)) (i_author iss) (i_created iss) (OCreate (issue_title c iss) (cleanup (i_desc iss))).

Definition finish (c : cfg) (us : list user) (iss : issue) (ops0 : list op) (s : rs) : rs * bool :=
  let '(ops1, s6) := fold_left (ensure_event c us iss) (evs_of iss) (ops0, s) in
  if Nat.eqb (length ops1) (length ops0) then (emit (RNothing (i_iid iss)) s6, true)
  else (set_bugs (put_bug (mkbug (i_iid iss) ops1) (rs_bugs s6)) s6, true).

Lemma import_issue_clean c us p iss s : paging_ok c p -> rs_fault s = None ->
  let ids1 := idents_after c us (rs_idents s) (i_author iss) in
  if person_ok c us (rs_idents s) (i_author iss) then
    match find_bug (i_iid iss) (rs_bugs s) with
    | Some b => exists s2, rs_idents s2 = ids1 /\ rs_bugs s2 = rs_bugs s /\ rs_fault s2 = None /\
                           import_issue c us p iss s = finish c us iss (b_ops b) s2
    | None => if op_valid c (create_op c iss)
              then exists s2, rs_idents s2 = ids1 /\ rs_bugs s2 = put_bug (mkbug (i_iid iss) [create_op c iss]) (rs_bugs s) /\ rs_fault s2 = None /\
                              import_issue c us p iss s = finish c us iss [create_op c iss] s2
              else exists s', import_issue c us p iss s = (s', false) /\ rs_idents s' = ids1 /\ rs_bugs s' = rs_bugs s /\ rs_fault s' = None
    end
  else exists s', import_issue c us p iss s = (s', false) /\ rs_idents s' = rs_idents s /\ rs_bugs s' = rs_bugs s /\ rs_fault s' = None.
Proof. intros Hp F. cbn zeta. unfold import_issue.
  destruct (ep_clean c us (i_author iss) s F) as [A [B [C D]]].
  destruct (ensure_person c us (i_author iss) s) as [s1 ok]. cbn [fst snd] in *. subst ok.
  destruct (person_ok c us (rs_idents s) (i_author iss)) eqn:P; cbn [negb].
  2:{ eexists. split; [reflexivity|]. cbn. repeat split; auto. unfold idents_after in A. unfold person_ok in P.
      apply orb_false_iff in P as [P1 P2]. now rewrite P1, P2 in A. }
  rewrite C. fold (create_op c iss).
  assert (Fin : forall ops0 s2, rs_fault s2 = None ->
            exists s5, same_core s2 s5 /\
            (let '(s3, ns, fn) := fetch_all c (QNotes (i_iid iss)) p (i_notes iss) s2 in
             let '(s4, ls, fl) := fetch_all c (QLabels (i_iid iss)) p (i_labels iss) s3 in
             let '(s5, ss, fs) := fetch_all c (QStates (i_iid iss)) p (i_states iss) s4 in
             let evs := sorted_events (with_error (map ENote ns) fn) (with_error (map ELabel ls) fl) (with_error (map EState ss) fs) in
             let '(ops1, s6) := fold_left (ensure_event c us iss) evs (ops0, s5) in
             if Nat.eqb (length ops1) (length ops0) then (emit (RNothing (i_iid iss)) s6, true)
             else (set_bugs (put_bug (mkbug (i_iid iss) ops1) (rs_bugs s6)) s6, true)) = finish c us iss ops0 s5).
  { intros ops0 s2 F2.
    destruct (fetch_all_clean c (QNotes (i_iid iss)) p (i_notes iss) s2 Hp F2) as [s3 [E3 C3]]. rewrite E3.
    assert (F3 : rs_fault s3 = None) by (destruct C3 as [_ [_ [_ X]]]; congruence).
    destruct (fetch_all_clean c (QLabels (i_iid iss)) p (i_labels iss) s3 Hp F3) as [s4 [E4 C4]]. rewrite E4.
    assert (F4 : rs_fault s4 = None) by (destruct C4 as [_ [_ [_ X]]]; congruence).
    destruct (fetch_all_clean c (QStates (i_iid iss)) p (i_states iss) s4 Hp F4) as [s5 [E5 C5]]. rewrite E5.
    exists s5. split; [eapply same_core_trans; [eapply same_core_trans|]; eauto|]. reflexivity. }
  destruct (find_bug (i_iid iss) (rs_bugs s)) as [b|] eqn:FB.
  - destruct (Fin (b_ops b) s1 D) as [s5 [[X1 [X2 [X3 X4]]] E]]. exists s5. repeat split; try congruence. exact E.
  - destruct (op_valid c (create_op c iss)) eqn:V.
    + set (s2 := emit (RBug (i_iid iss)) (set_bugs (put_bug (mkbug (i_iid iss) [create_op c iss]) (rs_bugs s)) s1)).
      destruct (Fin [create_op c iss] s2 D) as [s5 [[X1 [X2 [X3 X4]]] E]]. exists s5.
      repeat split; try (subst s2; cbn in *; congruence).
    + eexists. split; [reflexivity|]. cbn. repeat split; auto. Qed.

(* the issue has been looked at completely: its author and the authors of its events are there (or cannot be), its bug exists and
   all its events are settled *)
Definition issue_done (c : cfg) (us : list user) (iss : issue) (idents : list N) (bugs : list bug) : Prop :=
  In (i_author iss) idents /\
  exists b, find_bug (i_iid iss) bugs = Some b /\ inv_ops c iss (b_ops b) /\
    (forall e, In e (evs_of iss) -> person_ok c us idents (ev_user e) = true -> settled c iss (b_ops b) e) /\
    (forall e, In e (evs_of iss) -> e <> EError -> resolve (ev_id e) (b_ops b) <> LMany -> ensured c us idents (ev_user e)).

Lemma finish_first c us iss base ops0 s2 b0 : c_dedupe_labels c = true -> wf_issue iss ->
  rs_fault s2 = None -> inv_ops c iss ops0 -> grown c us base (rs_idents s2) ->
  find_bug (i_iid iss) (rs_bugs s2) = Some b0 -> b_ops b0 = ops0 ->
  let r := finish c us iss ops0 s2 in
  snd r = true /\ rs_fault (fst r) = None /\ grown c us base (rs_idents (fst r)) /\
  (forall x, In x (rs_idents s2) -> In x (rs_idents (fst r))) /\
  (forall iid', iid' <> i_iid iss -> find_bug iid' (rs_bugs (fst r)) = find_bug iid' (rs_bugs s2)) /\
  exists b, find_bug (i_iid iss) (rs_bugs (fst r)) = Some b /\ inv_ops c iss (b_ops b) /\ (exists d, b_ops b = ops0 ++ d) /\
    (forall e, In e (evs_of iss) -> person_ok c us base (ev_user e) = true -> settled c iss (b_ops b) e) /\
    (forall e, In e (evs_of iss) -> e <> EError -> resolve (ev_id e) (b_ops b) <> LMany -> ensured c us (rs_idents (fst r)) (ev_user e)).
Proof. intros Dd W F I G FB Eb. cbn zeta. unfold finish.
  pose proof (events_clean c us iss base Dd W (evs_of iss) ops0 s2 F I G (evs_of_in_ev iss)) as H. cbn zeta in H.
  destruct (fold_left (ensure_event c us iss) (evs_of iss) (ops0, s2)) as [ops1 s6]. cbn [fst snd] in H.
  destruct H as [J1 [J2 [J3 [J4 [J5 [[d J6] [J7 [J8 _]]]]]]]].
  destruct (Nat.eqb_spec (length ops1) (length ops0)) as [L|L]; cbn [fst snd].
  - assert (d = []) by (rewrite J6, app_length in L; destruct d; [reflexivity|cbn in L; lia]).
    subst d. rewrite app_nil_r in J6. subst ops1. cbn [rs_fault rs_idents rs_bugs emit].
    split; [reflexivity|]. split; [exact J3|]. split; [exact J4|]. split; [exact J5|].
    split; [intros iid' _; now rewrite J2|].
    exists b0. rewrite J2. split; [exact FB|]. rewrite Eb. split; [exact J1|]. split; [exists []; now rewrite app_nil_r|]. split; assumption.
  - cbn [rs_fault rs_idents rs_bugs set_bugs].
    split; [reflexivity|]. split; [exact J3|]. split; [exact J4|]. split; [exact J5|].
    split; [intros iid' Ne; rewrite find_put_other by (cbn; exact Ne); now rewrite J2|].
    exists (mkbug (i_iid iss) ops1). split; [apply (find_put_same (mkbug (i_iid iss) ops1))|]. cbn [b_ops].
    split; [exact J1|]. split; [eauto|]. split; assumption. Qed.

Lemma finish_again c us iss s2 b : rs_fault s2 = None -> find_bug (i_iid iss) (rs_bugs s2) = Some b ->
  (forall e, In e (evs_of iss) -> person_ok c us (rs_idents s2) (ev_user e) = true -> settled c iss (b_ops b) e) ->
  (forall e, In e (evs_of iss) -> e <> EError -> resolve (ev_id e) (b_ops b) <> LMany -> ensured c us (rs_idents s2) (ev_user e)) ->
  let r := finish c us iss (b_ops b) s2 in
  snd r = true /\ rs_idents (fst r) = rs_idents s2 /\ rs_bugs (fst r) = rs_bugs s2 /\ rs_fault (fst r) = None.
Proof. intros F FB S En. cbn zeta. unfold finish.
  pose proof (events_noop c us iss (evs_of iss) (b_ops b) s2 F S En) as H. cbn zeta in H.
  destruct (fold_left (ensure_event c us iss) (evs_of iss) (b_ops b, s2)) as [ops1 s6]. cbn [fst snd] in H.
  destruct H as [-> [K2 [K3 K4]]]. rewrite Nat.eqb_refl. cbn. auto. Qed.

(* what the bugs of the tracker's issues look like *)
Definition bug_ok (c : cfg) (iss : issue) (bugs : list bug) : Prop :=
  forall b, find_bug (i_iid iss) bugs = Some b -> inv_ops c iss (b_ops b).

Lemma inv_ops_create c iss : op_valid c (create_op c iss) = true -> inv_ops c iss [create_op c iss].
Proof. intros V. split; [|split; [|split]].
  - exists (create_op c iss), []. repeat split. cbn. discriminate.
  - constructor; [exact V|constructor].
  - intros o q m [<-|[]]. cbn. discriminate.
  - cbn. constructor; [tauto|constructor]. Qed.

(* first time *)
Lemma issue_first c us p iss s : c_dedupe_labels c = true -> paging_ok c p -> wf_issue iss -> rs_fault s = None -> bug_ok c iss (rs_bugs s) ->
  let r := import_issue c us p iss s in
  rs_fault (fst r) = None /\ grown c us (rs_idents s) (rs_idents (fst r)) /\
  (forall iid', iid' <> i_iid iss -> find_bug iid' (rs_bugs (fst r)) = find_bug iid' (rs_bugs s)) /\
  bug_ok c iss (rs_bugs (fst r)) /\
  (snd r = true -> issue_done c us iss (rs_idents (fst r)) (rs_bugs (fst r))) /\
  (snd r = false -> rs_bugs (fst r) = rs_bugs s /\ rs_idents (fst r) = idents_after c us (rs_idents s) (i_author iss) /\
                    (person_ok c us (rs_idents s) (i_author iss) = false \/
                     (find_bug (i_iid iss) (rs_bugs s) = None /\ op_valid c (create_op c iss) = false))).
Proof. intros Dd Hp W F BO. cbn zeta. pose proof (import_issue_clean c us p iss s Hp F) as H. cbn zeta in H.
  destruct (person_ok c us (rs_idents s) (i_author iss)) eqn:P.
  2:{ destruct H as [s' [-> [A [B C]]]]. cbn [fst snd]. rewrite A, B.
      split; [exact C|]. split; [apply grown_refl|]. split; [auto|]. split; [exact BO|]. split; [discriminate|].
      intros _. split; [reflexivity|]. split; [|now left].
      unfold idents_after. unfold person_ok in P. apply orb_false_iff in P as [P1 P2]. now rewrite P1, P2. }
  assert (G1 : grown c us (rs_idents s) (idents_after c us (rs_idents s) (i_author iss))) by (apply grown_after, grown_refl).
  assert (Au : In (i_author iss) (idents_after c us (rs_idents s) (i_author iss))) by (now apply idents_after_ok).
  assert (Done : forall ops0 s2 b0, rs_idents s2 = idents_after c us (rs_idents s) (i_author iss) -> rs_fault s2 = None ->
            inv_ops c iss ops0 -> find_bug (i_iid iss) (rs_bugs s2) = Some b0 -> b_ops b0 = ops0 ->
            (forall iid', iid' <> i_iid iss -> find_bug iid' (rs_bugs s2) = find_bug iid' (rs_bugs s)) ->
            let r := finish c us iss ops0 s2 in
            rs_fault (fst r) = None /\ grown c us (rs_idents s) (rs_idents (fst r)) /\
            (forall iid', iid' <> i_iid iss -> find_bug iid' (rs_bugs (fst r)) = find_bug iid' (rs_bugs s)) /\
            bug_ok c iss (rs_bugs (fst r)) /\
            (snd r = true -> issue_done c us iss (rs_idents (fst r)) (rs_bugs (fst r))) /\
            (snd r = false -> rs_bugs (fst r) = rs_bugs s /\ rs_idents (fst r) = idents_after c us (rs_idents s) (i_author iss) /\
                    (true = false \/ (find_bug (i_iid iss) (rs_bugs s) = None /\ op_valid c (create_op c iss) = false)))).
  { intros ops0 s2 b0 Ids F2 I0 FB Eb Fr. cbn zeta.
    assert (G2 : grown c us (rs_idents s) (rs_idents s2)) by (now rewrite Ids).
    pose proof (finish_first c us iss (rs_idents s) ops0 s2 b0 Dd W F2 I0 G2 FB Eb) as X. cbn zeta in X.
    destruct (finish c us iss ops0 s2) as [s' go]. cbn [fst snd] in *.
    destruct X as [-> [X2 [X3 [X4 [X5 [b [X6 [X7 [_ [X8 X9]]]]]]]]]].
    split; [exact X2|]. split; [exact X3|]. split; [intros iid' Ne; rewrite X5 by exact Ne; now apply Fr|].
    split; [intros b' Hb'; rewrite X6 in Hb'; now inversion Hb'; subst|].
    split; [|discriminate]. intros _. split; [apply X4; now rewrite Ids|].
    exists b. split; [exact X6|]. split; [exact X7|]. split; [|exact X9].
    intros e He Pe. apply X8; [exact He|]. now rewrite <- (grown_ok c us (rs_idents s) _ _ X3). }
  destruct (find_bug (i_iid iss) (rs_bugs s)) as [b|] eqn:FB.
  - destruct H as [s2 [A [B [C ->]]]]. apply (Done (b_ops b) s2 b); auto; try congruence; try (intros; now rewrite B).
  - destruct (op_valid c (create_op c iss)) eqn:V.
    + destruct H as [s2 [A [B [C ->]]]]. apply (Done [create_op c iss] s2 (mkbug (i_iid iss) [create_op c iss])); auto.
      * now apply inv_ops_create.
      * rewrite B. apply (find_put_same (mkbug (i_iid iss) [create_op c iss])).
      * intros iid' Ne. rewrite B. now apply find_put_other.
    + destruct H as [s' [-> [A [B C]]]]. cbn [fst snd]. rewrite A, B.
      split; [exact C|]. split; [exact G1|]. split; [auto|]. split; [exact BO|]. split; [discriminate|].
      intros _. split; [reflexivity|]. split; [reflexivity|]. right. now split. Qed.

(* second time: nothing changes *)
Lemma issue_again c us p iss s : paging_ok c p -> rs_fault s = None -> issue_done c us iss (rs_idents s) (rs_bugs s) ->
  let r := import_issue c us p iss s in
  snd r = true /\ rs_idents (fst r) = rs_idents s /\ rs_bugs (fst r) = rs_bugs s /\ rs_fault (fst r) = None.
Proof. intros Hp F [Au [b [FB [I [S En]]]]]. cbn zeta.
  pose proof (import_issue_clean c us p iss s Hp F) as H. cbn zeta in H.
  assert (P : person_ok c us (rs_idents s) (i_author iss) = true) by (unfold person_ok; apply memN_In in Au; now rewrite Au).
  assert (Ids : idents_after c us (rs_idents s) (i_author iss) = rs_idents s) by (apply ensured_noop; now left).
  rewrite P, FB, Ids in H. destruct H as [s2 [A [B [C ->]]]].
  pose proof (finish_again c us iss s2 b C) as X. cbn zeta in X. rewrite A, B in X. now apply X. Qed.

Lemma issue_done_frame c us iss idents bugs idents' bugs' :
  issue_done c us iss idents bugs -> grown c us idents idents' -> find_bug (i_iid iss) bugs' = find_bug (i_iid iss) bugs ->
  issue_done c us iss idents' bugs'.
Proof. intros [Au [b [FB [I [S En]]]]] G E. split; [now apply G|]. exists b. rewrite E. split; [exact FB|]. split; [exact I|]. split.
  - intros e He P. apply S; [exact He|]. now rewrite <- (grown_ok c us idents idents' _ G).
  - intros e He NE NM. eapply ensured_mono; [apply G|]. now apply En. Qed.

(* an issue that stopped the run stops it again, and nothing changes *)
Lemma issue_abort_again c us p iss s s1 : paging_ok c p -> rs_fault s = None -> import_issue c us p iss s = (s1, false) ->
  forall s', rs_fault s' = None -> rs_idents s' = rs_idents s1 -> rs_bugs s' = rs_bugs s1 ->
  let r := import_issue c us p iss s' in
  snd r = false /\ rs_idents (fst r) = rs_idents s' /\ rs_bugs (fst r) = rs_bugs s'.
Proof. intros Hp F E s' F' Ids Bs. cbn zeta.
  pose proof (import_issue_clean c us p iss s Hp F) as H. cbn zeta in H.
  pose proof (import_issue_clean c us p iss s' Hp F') as H'. cbn zeta in H'.
  assert (FinTrue : forall ops0 s2, snd (finish c us iss ops0 s2) = true).
  { intros. unfold finish. destruct (fold_left _ _ _) as [o1 s6]. now destruct (Nat.eqb _ _). }
  destruct (person_ok c us (rs_idents s) (i_author iss)) eqn:P.
  - destruct (find_bug (i_iid iss) (rs_bugs s)) as [b|] eqn:FB.
    + destruct H as [s2 [_ [_ [_ X]]]]. rewrite E in X. pose proof (FinTrue (b_ops b) s2) as Y. rewrite <- X in Y. discriminate.
    + destruct (op_valid c (create_op c iss)) eqn:V.
      * destruct H as [s2 [_ [_ [_ X]]]]. rewrite E in X. pose proof (FinTrue [create_op c iss] s2) as Y. rewrite <- X in Y. discriminate.
      * destruct H as [s0 [X [A [B _]]]]. rewrite E in X. inversion X; subst s0.
        assert (In (i_author iss) (rs_idents s')) by (rewrite Ids, A; now apply idents_after_ok).
        assert (P' : person_ok c us (rs_idents s') (i_author iss) = true) by (unfold person_ok; apply memN_In in H; now rewrite H).
        rewrite P', Bs, B, FB in H'. destruct H' as [s'' [-> [A' [B' _]]]]. cbn.
        split; [reflexivity|]. split; [|congruence]. rewrite A'. apply ensured_noop. now left.
  - destruct H as [s0 [X [A [B _]]]]. rewrite E in X. inversion X; subst s0.
    rewrite Ids, A, P in H'. destruct H' as [s'' [-> [A' [B' _]]]]. cbn. split; [reflexivity|]. split; congruence. Qed.

(* ------------------------------------------------------------------ the listed issues, no failure pending *)

Lemma import_issues_app c us p a b s :
  import_issues c us p (a ++ b) s = let '(s1, go) := import_issues c us p a s in if go then import_issues c us p b s1 else (s1, false).
Proof. revert s. induction a as [|i a IH]; intros s; cbn; [now destruct (import_issues c us p b s)|].
  destruct (import_issue c us p i s) as [s1 go]. destruct go; [apply IH|reflexivity]. Qed.

Lemma issues_first c us p : c_dedupe_labels c = true -> paging_ok c p -> forall l s,
  Forall wf_issue l -> NoDup (map i_iid l) -> rs_fault s = None -> (forall i, In i l -> bug_ok c i (rs_bugs s)) ->
  let r := import_issues c us p l s in
  rs_fault (fst r) = None /\ grown c us (rs_idents s) (rs_idents (fst r)) /\
  (forall iid', ~ In iid' (map i_iid l) -> find_bug iid' (rs_bugs (fst r)) = find_bug iid' (rs_bugs s)) /\
  (snd r = true -> forall i, In i l -> issue_done c us i (rs_idents (fst r)) (rs_bugs (fst r))) /\
  (snd r = false -> exists pre k post sk, l = pre ++ k :: post /\
      (forall i, In i pre -> issue_done c us i (rs_idents (fst r)) (rs_bugs (fst r))) /\
      rs_fault sk = None /\ import_issue c us p k sk = (fst r, false)).
Proof. intros Dd Hp. induction l as [|i t IH]; intros s W ND F BO; cbn zeta.
  - cbn. split; [exact F|]. split; [apply grown_refl|]. split; [auto|]. split; [intros _ i []|discriminate].
  - cbn [import_issues]. inversion W as [|? ? Wi Wt]; subst. cbn in ND. inversion ND as [|? ? Ni NDt]; subst.
    pose proof (issue_first c us p i s Dd Hp Wi F (BO i (or_introl eq_refl))) as X. cbn zeta in X.
    destruct (import_issue c us p i s) as [s1 go] eqn:E1. cbn [fst snd] in X.
    destruct X as [X1 [X2 [X3 [X4 [X5 X6]]]]].
    destruct go.
    + assert (BO1 : forall j, In j t -> bug_ok c j (rs_bugs s1)).
      { intros j Hj b Hb. apply (BO j (or_intror Hj)). rewrite <- Hb. symmetry. apply X3. intros Eq. apply Ni. rewrite <- Eq. now apply in_map. }
      specialize (IH s1 Wt NDt X1 BO1). cbn zeta in IH.
      destruct (import_issues c us p t s1) as [s2 go2]. cbn [fst snd] in *.
      destruct IH as [Y1 [Y2 [Y3 [Y4 Y5]]]].
      assert (Di : issue_done c us i (rs_idents s2) (rs_bugs s2)).
      { eapply issue_done_frame; [apply X5; reflexivity|exact Y2|]. now apply Y3. }
      split; [exact Y1|]. split; [eapply grown_trans; eauto|]. split; [|split].
      * intros iid' Nin. cbn in Nin. rewrite Y3 by tauto. apply X3. intros Eq. apply Nin. now left.
      * intros G j [<-|Hj]; [exact Di|now apply Y4].
      * intros G. destruct (Y5 G) as [pre [k [post [sk [-> [Z1 [Z2 Z3]]]]]]].
        exists (i :: pre), k, post, sk. split; [reflexivity|]. split; [|auto]. intros j [<-|Hj]; [exact Di|now apply Z1].
    + cbn [fst snd]. split; [exact X1|]. split; [exact X2|]. split; [|split; [discriminate|]].
      * intros iid' Nin. apply X3. intros Eq. apply Nin. cbn. now left.
      * intros _. exists [], i, t, s. split; [reflexivity|]. split; [intros j []|]. split; [exact F|exact E1]. Qed.

Lemma issues_again c us p : paging_ok c p -> forall l s, rs_fault s = None ->
  (forall i, In i l -> issue_done c us i (rs_idents s) (rs_bugs s)) ->
  let r := import_issues c us p l s in
  snd r = true /\ rs_idents (fst r) = rs_idents s /\ rs_bugs (fst r) = rs_bugs s /\ rs_fault (fst r) = None.
Proof. intros Hp. induction l as [|i t IH]; intros s F D; cbn zeta; [cbn; auto|].
  cbn [import_issues]. pose proof (issue_again c us p i s Hp F (D i (or_introl eq_refl))) as X. cbn zeta in X.
  destruct (import_issue c us p i s) as [s1 go]. cbn [fst snd] in X. destruct X as [-> [X2 [X3 X4]]].
  specialize (IH s1 X4). cbn zeta in IH. rewrite X2, X3 in IH.
  destruct IH as [Y1 [Y2 [Y3 Y4]]]; [intros j Hj; apply D; now right|]. auto. Qed.

(* ------------------------------------------------------------------ the result stream only grows; a request that failed is reported *)

Definition errs (s : rs) : bool := has_error (rs_res s).
Definition pending (s : rs) : bool := match rs_fault s with Some _ => true | None => false end.
Definition ext (s s' : rs) : Prop := exists d, rs_res s' = rs_res s ++ d.
(* the pending failure was used up between s and s' *)
Definition consumed (s s' : rs) : Prop := pending s = true /\ pending s' = false.
(* a failure does not appear out of nothing *)
Definition calm (s s' : rs) : Prop := pending s = false -> pending s' = false.

Lemma ext_refl s : ext s s. Proof. exists []. now rewrite app_nil_r. Qed.
Lemma ext_trans a b d : ext a b -> ext b d -> ext a d.
Proof. intros [x X] [y Y]. exists (x ++ y). now rewrite Y, X, app_assoc. Qed.
Lemma has_error_app a b : has_error (a ++ b) = has_error a || has_error b.
Proof. unfold has_error. apply existsb_app. Qed.
Lemma ext_errs s s' : ext s s' -> errs s = true -> errs s' = true.
Proof. intros [d E] H. unfold errs in *. now rewrite E, has_error_app, H. Qed.
Lemma emit_ext r s : ext s (emit r s). Proof. now exists [r]. Qed.
Lemma emit_error_errs s : errs (emit RError s) = true.
Proof. unfold errs. cbn. rewrite has_error_app. cbn. apply orb_true_r. Qed.
Lemma calm_refl s : calm s s. Proof. intros H; exact H. Qed.
Lemma calm_trans a b d : calm a b -> calm b d -> calm a d. Proof. unfold calm. auto. Qed.

Lemma calm_emit r s : calm s (emit r s). Proof. unfold calm, pending. cbn. auto. Qed.
Lemma calm_to_emit r a b : calm a b -> calm a (emit r b). Proof. unfold calm, pending. cbn. auto. Qed.

Lemma consumed_split a b d : calm a b -> calm b d -> consumed a d -> consumed a b \/ consumed b d.
Proof. intros C1 C2 [P Q]. destruct (pending b) eqn:B; [right; now split|left; now split]. Qed.

Lemma send_facts q s : let r := send q s in
  ext s (fst r) /\ calm s (fst r) /\ rs_res (fst r) = rs_res s /\ (snd r = false -> consumed s (fst r)) /\ (consumed s (fst r) -> snd r = false).
Proof. cbn zeta. unfold send, ext, calm, consumed, pending. cbn.
  destruct (rs_fault s) as [f|]; cbn.
  - destruct (req_eqb f q); cbn; repeat split; try (exists []; now rewrite app_nil_r); auto; try discriminate. intros [_ H]. discriminate.
  - repeat split; try (exists []; now rewrite app_nil_r); auto; try discriminate. intros [H _]. discriminate. Qed.

Lemma ep_facts c us uid s : let r := ensure_person c us uid s in
  ext s (fst r) /\ calm s (fst r) /\ errs (fst r) = errs s /\ (consumed s (fst r) -> snd r = false).
Proof. cbn zeta. unfold ensure_person. destruct (memN uid (rs_idents s)).
  - cbn. repeat split; [apply ext_refl|apply calm_refl|]. intros [P Q]. congruence.
  - destruct (is_ghost c uid).
    { cbn [fst snd]. split; [exists [RIdent uid]; reflexivity|]. split; [unfold calm, pending; cbn; auto|].
      split; [unfold errs; cbn; rewrite has_error_app; cbn; now rewrite orb_false_r|]. unfold consumed, pending. cbn. intros [P Q]. congruence. }
    pose proof (send_facts (QUser uid) s) as H. cbn zeta in H. destruct (send (QUser uid) s) as [s1 ok]. cbn [fst snd] in *.
    destruct H as [E [Ca [R [F1 F2]]]]. unfold errs. destruct ok; cbn [negb].
    + assert (NC : consumed s s1 -> False) by (intros X; specialize (F2 X); discriminate).
      destruct (find_user us uid) as [u|]; [destruct (u_gone u); [|destruct (ident_valid c u)]|]; cbn [fst snd];
      try (split; [exact E|]; split; [exact Ca|]; split; [now rewrite R|]; intros X; exfalso; now apply NC).
      split; [eapply ext_trans; [exact E|]; exists [RIdent uid]; reflexivity|]. split; [exact Ca|].
      split; [cbn; rewrite has_error_app, R; cbn; now rewrite orb_false_r|]. intros X. exfalso. now apply NC.
    + cbn. split; [exact E|]. split; [exact Ca|]. split; [now rewrite R|reflexivity]. Qed.

Lemma ee_facts c us iss ops s e : let r := ensure_event c us iss (ops, s) e in
  ext s (snd r) /\ calm s (snd r) /\ (consumed s (snd r) -> errs (snd r) = true) /\ (e = EError -> errs (snd r) = true).
Proof. cbn zeta. unfold ensure_event.
  assert (ErrCase : ext s (emit RError s) /\ calm s (emit RError s) /\ (consumed s (emit RError s) -> errs (emit RError s) = true) /\
                    (e = EError -> errs (emit RError s) = true)).
  { split; [apply emit_ext|]. split; [apply calm_emit|]. split; intros; apply emit_error_errs. }
  assert (AD : forall s1, let x := match decide c iss ops e with
                                   | ANone => s1
                                   | AError => emit RError s1
                                   | AAppend o r => if op_valid c o then match r with Some x => emit x s1 | None => s1 end else emit RError s1
                                   end in ext s1 x /\ pending x = pending s1).
  { intros s1. cbn zeta. destruct (decide c iss ops e) as [| |o r]; [split; [apply ext_refl|reflexivity]|split; [apply emit_ext|reflexivity]|].
    destruct (op_valid c o); [destruct r|]; split; try apply emit_ext; try apply ext_refl; reflexivity. }
  destruct e as [n|l|st|]; [| | |exact ErrCase];
  (destruct (resolve _ ops); [ | |exact ErrCase];
   (match goal with |- context [ensure_person c us ?u s] =>
      pose proof (ep_facts c us u s) as H; cbn zeta in H; destruct (ensure_person c us u s) as [s1 ok] end;
    cbn [fst snd] in *; destruct H as [E [Ca [Er Co]]];
    destruct ok;
    [ destruct (AD s1) as [A1 A2]; cbn zeta in A1, A2;
      split; [eapply ext_trans; [exact E|exact A1]|]; split; [intros P; rewrite A2; now apply Ca|]; split; [|discriminate];
      intros [X1 X2]; rewrite A2 in X2; assert (Q : snd (s1, true) = false) by (apply Co; now split); discriminate
    | split; [eapply ext_trans; [exact E|apply emit_ext]|]; split; [now apply calm_to_emit|]; split; [intros; apply emit_error_errs|discriminate] ])). Qed.

Lemma events_facts c us iss : forall evs ops s, let r := fold_left (ensure_event c us iss) evs (ops, s) in
  ext s (snd r) /\ calm s (snd r) /\ (consumed s (snd r) -> errs (snd r) = true) /\ (In EError evs -> errs (snd r) = true).
Proof. induction evs as [|e t IH]; intros ops s; cbn zeta.
  - cbn. split; [apply ext_refl|]. split; [apply calm_refl|]. split; [intros [P Q]; congruence|tauto].
  - cbn [fold_left]. pose proof (ee_facts c us iss ops s e) as H. cbn zeta in H.
    destruct (ensure_event c us iss (ops, s) e) as [ops1 s1]. cbn [fst snd] in H. destruct H as [E1 [C1 [K1 X1]]].
    specialize (IH ops1 s1). cbn zeta in IH. destruct IH as [E2 [C2 [K2 X2]]].
    split; [eapply ext_trans; eauto|]. split; [eapply calm_trans; eauto|]. split.
    + intros Co. destruct (consumed_split _ _ _ C1 C2 Co) as [A|A]; [eapply ext_errs; [exact E2|now apply K1]|now apply K2].
    + intros [He|Hin]; [eapply ext_errs; [exact E2|now apply X1]|now apply X2]. Qed.

Lemma fetch_pages_facts {A} c (mk : nat -> req) p (l : list A) : forall fuel k s,
  let r := fetch_pages c fuel mk p l k s in
  rs_res (fst (fst r)) = rs_res s /\ calm s (fst (fst r)) /\ (consumed s (fst (fst r)) -> snd r = true).
Proof. induction fuel as [|f IH]; intros k s; cbn zeta; cbn [fetch_pages].
  - cbn. split; [reflexivity|]. split; [apply calm_refl|]. intros [P Q]. congruence.
  - pose proof (send_facts (mk k) s) as H. cbn zeta in H. destruct (send (mk k) s) as [s1 ok]. cbn [fst snd] in H.
    destruct H as [_ [Ca [R [F1 F2]]]]. destruct ok; cbn [negb].
    + assert (NC : consumed s s1 -> False) by (intros X; specialize (F2 X); discriminate).
      destruct (last_page c p l k).
      * cbn. split; [exact R|]. split; [exact Ca|]. intros X. exfalso. now apply NC.
      * specialize (IH (S k) s1). cbn zeta in IH. destruct (fetch_pages c f mk p l (S k) s1) as [[s2 rest] failed]. cbn [fst snd] in *.
        destruct IH as [R2 [C2 K2]]. split; [congruence|]. split; [eapply calm_trans; eauto|].
        intros Co. destruct (consumed_split _ _ _ Ca C2 Co) as [X|X]; [exfalso; now apply NC|now apply K2].
    + cbn. split; [exact R|]. split; [exact Ca|]. reflexivity. Qed.

Lemma fetch_all_facts {A} c (mk : nat -> req) p (l : list A) s :
  let r := fetch_all c mk p l s in
  rs_res (fst (fst r)) = rs_res s /\ calm s (fst (fst r)) /\ (consumed s (fst (fst r)) -> snd r = true).
Proof. apply fetch_pages_facts. Qed.

(* nothing is lost by the merge *)
Lemma merge3_complete : forall fuel a b c e, (length a + length b + length c <= fuel)%nat ->
  In e a \/ In e b \/ In e c -> In e (merge3 fuel a b c).
Proof. induction fuel as [|f IH]; intros a b c e L H.
  - destruct a, b, c; cbn in L; try lia. cbn in H. tauto.
  - cbn [merge3]. destruct (earlier (head_time c) _) eqn:Pc.
    + destruct c as [|x c']; [cbn in Pc; now destruct (if earlier (head_time b) (head_time a) then head_time b else head_time a)|].
      cbn in L. destruct H as [H|[H|[<-|H]]]; [right; apply IH; [lia|tauto]|right; apply IH; [lia|tauto]|now left|right; apply IH; [lia|tauto]].
    + destruct (earlier (head_time b) (head_time a)) eqn:Pb.
      * destruct b as [|x b']; [cbn in Pb; discriminate|].
        cbn in L. destruct H as [H|[[<-|H]|H]]; [right; apply IH; [lia|tauto]|now left|right; apply IH; [lia|tauto]|right; apply IH; [lia|tauto]].
      * destruct a as [|x a'].
        -- (* a is empty: then b and c are empty too *)
           destruct b as [|y b']; [|cbn in Pb; discriminate]. destruct c as [|z c']; [|cbn in Pc; discriminate]. cbn in H. tauto.
        -- cbn in L. destruct H as [[<-|H]|[H|H]]; [now left|right; apply IH; [lia|tauto]|right; apply IH; [lia|tauto]|right; apply IH; [lia|tauto]]. Qed.

Lemma sorted_events_complete a b c e : In e a \/ In e b \/ In e c -> In e (sorted_events a b c).
Proof. apply merge3_complete. lia. Qed.

Lemma with_error_has evs : In EError (with_error evs true).
Proof. unfold with_error. apply in_or_app. right. now left. Qed.

Lemma pending_emit r s : pending (emit r s) = pending s. Proof. reflexivity. Qed.
Lemma pending_set_bugs b s : pending (set_bugs b s) = pending s. Proof. reflexivity. Qed.
Lemma ext_set_bugs b s : ext s (set_bugs b s). Proof. exists []. cbn. now rewrite app_nil_r. Qed.
Lemma errs_set_bugs b s : errs (set_bugs b s) = errs s. Proof. reflexivity. Qed.

Lemma issue_facts c us p iss s : let r := import_issue c us p iss s in
  ext s (fst r) /\ calm s (fst r) /\ (consumed s (fst r) -> errs (fst r) = true) /\ (snd r = false -> errs (fst r) = true).
Proof. cbn zeta. unfold import_issue.
  pose proof (ep_facts c us (i_author iss) s) as H. cbn zeta in H. destruct (ensure_person c us (i_author iss) s) as [s1 ok]. cbn [fst snd] in H.
  destruct H as [E1 [C1 [_ K1]]].
  assert (Abort : ext s (emit RError s1) /\ calm s (emit RError s1) /\ (consumed s (emit RError s1) -> errs (emit RError s1) = true) /\
                  (false = false -> errs (emit RError s1) = true)).
  { split; [eapply ext_trans; [exact E1|apply emit_ext]|]. split; [now apply calm_to_emit|]. split; intros; apply emit_error_errs. }
  destruct ok; cbn [negb]; [|exact Abort].
  assert (NC1 : consumed s s1 -> False) by (intros X; specialize (K1 X); discriminate).
  set (created := match find_bug (i_iid iss) (rs_bugs s1) with Some b => Some (b_ops b, s1) | None => _ end).
  assert (Cr : match created with Some (ops0, s2) => ext s1 s2 /\ pending s2 = pending s1 | None => True end).
  { subst created. destruct (find_bug (i_iid iss) (rs_bugs s1)); [split; [apply ext_refl|reflexivity]|].
    destruct (op_valid c _); [|exact I]. split; [|reflexivity]. eapply ext_trans; [apply ext_set_bugs|apply emit_ext]. }
  destruct created as [[ops0 s2]|]; [|exact Abort]. destruct Cr as [E2 P2].
  pose proof (fetch_all_facts c (QNotes (i_iid iss)) p (i_notes iss) s2) as F3. cbn zeta in F3.
  destruct (fetch_all c (QNotes (i_iid iss)) p (i_notes iss) s2) as [[s3 ns] fn]. cbn [fst snd] in F3. destruct F3 as [R3 [C3 K3]].
  pose proof (fetch_all_facts c (QLabels (i_iid iss)) p (i_labels iss) s3) as F4. cbn zeta in F4.
  destruct (fetch_all c (QLabels (i_iid iss)) p (i_labels iss) s3) as [[s4 ls] fl]. cbn [fst snd] in F4. destruct F4 as [R4 [C4 K4]].
  pose proof (fetch_all_facts c (QStates (i_iid iss)) p (i_states iss) s4) as F5. cbn zeta in F5.
  destruct (fetch_all c (QStates (i_iid iss)) p (i_states iss) s4) as [[s5 ss] fs]. cbn [fst snd] in F5. destruct F5 as [R5 [C5 K5]].
  set (evs := sorted_events _ _ _).
  pose proof (events_facts c us iss evs ops0 s5) as F6. cbn zeta in F6.
  destruct (fold_left (ensure_event c us iss) evs (ops0, s5)) as [ops1 s6]. cbn [fst snd] in F6. destruct F6 as [E6 [C6 [K6 X6]]].
  assert (E25 : ext s2 s5) by (exists []; rewrite app_nil_r; congruence).
  assert (E06 : ext s s6) by (eapply ext_trans; [exact E1|]; eapply ext_trans; [exact E2|]; eapply ext_trans; [exact E25|exact E6]).
  assert (C12 : calm s1 s2) by (intros X; congruence).
  assert (C06 : calm s s6) by (repeat (eapply calm_trans; eauto)).
  assert (Key : consumed s s6 -> errs s6 = true).
  { intros Co. destruct (consumed_split s s1 s6 C1 ltac:(repeat (eapply calm_trans; eauto)) Co) as [X|X]; [exfalso; now apply NC1|].
    destruct (consumed_split s1 s2 s6 C12 ltac:(repeat (eapply calm_trans; eauto)) X) as [[Y1 Y2]|Y]; [congruence|].
    destruct (consumed_split s2 s3 s6 C3 ltac:(repeat (eapply calm_trans; eauto)) Y) as [Z|Z].
    { apply X6. subst evs. apply sorted_events_complete. left. rewrite (K3 Z). apply with_error_has. }
    destruct (consumed_split s3 s4 s6 C4 ltac:(repeat (eapply calm_trans; eauto)) Z) as [U|U].
    { apply X6. subst evs. apply sorted_events_complete. right. left. rewrite (K4 U). apply with_error_has. }
    destruct (consumed_split s4 s5 s6 C5 C6 U) as [V|V].
    { apply X6. subst evs. apply sorted_events_complete. right. right. rewrite (K5 V). apply with_error_has. }
    now apply K6. }
  destruct (Nat.eqb (length ops1) (length ops0)); cbn [fst snd].
  - split; [eapply ext_trans; [exact E06|apply emit_ext]|]. split; [now apply calm_to_emit|]. split; [|discriminate].
    intros [X1 X2]. eapply ext_errs; [apply emit_ext|]. apply Key. split; [exact X1|exact X2].
  - split; [eapply ext_trans; [exact E06|apply ext_set_bugs]|]. split; [exact C06|]. split; [|discriminate].
    intros [X1 X2]. rewrite errs_set_bugs. apply Key. split; [exact X1|exact X2]. Qed.

Lemma issues_facts c us p : forall l s, let r := import_issues c us p l s in
  ext s (fst r) /\ calm s (fst r) /\ (consumed s (fst r) -> errs (fst r) = true) /\ (snd r = false -> errs (fst r) = true).
Proof. induction l as [|i t IH]; intros s; cbn zeta.
  - cbn. split; [apply ext_refl|]. split; [apply calm_refl|]. split; [intros [P Q]; congruence|discriminate].
  - cbn [import_issues]. pose proof (issue_facts c us p i s) as H. cbn zeta in H.
    destruct (import_issue c us p i s) as [s1 go]. cbn [fst snd] in H. destruct H as [E1 [C1 [K1 A1]]].
    destruct go; [|cbn; auto].
    specialize (IH s1). cbn zeta in IH. destruct (import_issues c us p t s1) as [s2 go2]. cbn [fst snd] in *.
    destruct IH as [E2 [C2 [K2 A2]]]. split; [eapply ext_trans; eauto|]. split; [eapply calm_trans; eauto|]. split; [|exact A2].
    intros Co. destruct (consumed_split _ _ _ C1 C2 Co) as [X|X]; [eapply ext_errs; [exact E2|now apply K1]|now apply K2]. Qed.

(* a request that failed during ImportAll is always reported, provided the issue listing reports its own failure *)
Lemma import_all_facts c t p since s : c_list_error c = true -> let r := import_all c t p since s in
  ext s (fst r) /\ calm s (fst r) /\ (consumed s (fst r) -> errs (fst r) = true) /\ (snd r = false -> errs (fst r) = true).
Proof. intros LE. cbn zeta. unfold import_all.
  pose proof (fetch_all_facts c QIssues p (listed t since) s) as F1. cbn zeta in F1.
  destruct (fetch_all c QIssues p (listed t since) s) as [[s1 l] failed]. cbn [fst snd] in F1. destruct F1 as [R1 [C1 K1]].
  pose proof (issues_facts c (t_users t) p l s1) as F2. cbn zeta in F2.
  destruct (import_issues c (t_users t) p l s1) as [s2 go]. cbn [fst snd] in F2. destruct F2 as [E2 [C2 [K2 A2]]].
  assert (E01 : ext s s1) by (exists []; rewrite app_nil_r; congruence).
  rewrite LE, andb_true_r. destruct go; cbn [andb].
  - destruct failed; cbn [fst snd].
    + split; [eapply ext_trans; [eapply ext_trans; [exact E01|exact E2]|apply emit_ext]|]. split; [apply calm_to_emit; eapply calm_trans; eauto|].
      split; [intros; apply emit_error_errs|discriminate].
    + split; [eapply ext_trans; eauto|]. split; [eapply calm_trans; eauto|]. split; [|discriminate].
      intros Co. destruct (consumed_split _ _ _ C1 C2 Co) as [X|X]; [specialize (K1 X); discriminate|now apply K2].
  - cbn [fst snd]. split; [eapply ext_trans; eauto|]. split; [eapply calm_trans; eauto|]. split; [intros _; now apply A2|exact A2]. Qed.

(* ------------------------------------------------------------------ idempotence *)

Definition wf_tracker (t : tracker) : Prop := Forall wf_issue (t_issues t) /\ NoDup (map i_iid (t_issues t)).
Definition bugs_ok (c : cfg) (t : tracker) (bugs : list bug) : Prop := forall i, In i (t_issues t) -> bug_ok c i bugs.

Lemma listed_in t since i : In i (listed t since) -> In i (t_issues t).
Proof. unfold listed. destruct since; [|auto]. intros H. now apply filter_In in H. Qed.
Lemma NoDup_map_filter {A B} (f : A -> B) (g : A -> bool) l : NoDup (map f l) -> NoDup (map f (filter g l)).
Proof. induction l as [|x l IH]; cbn; [auto|]. intros H. inversion H; subst. destruct (g x); cbn; [|auto].
  constructor; [|auto]. intros X. apply H2. apply in_map_iff in X as [y [E Hy]]. apply filter_In in Hy as [Hy _]. rewrite <- E. now apply in_map. Qed.
Lemma listed_wf t since : wf_tracker t -> Forall wf_issue (listed t since) /\ NoDup (map i_iid (listed t since)).
Proof. intros [W N]. split.
  - apply Forall_forall. intros i Hi. rewrite Forall_forall in W. apply W. now apply (listed_in t since).
  - unfold listed. destruct since; [now apply NoDup_map_filter|exact N]. Qed.

Lemma import_all_clean c t p since s : paging_ok c p -> rs_fault s = None ->
  exists s1, same_core s s1 /\ import_all c t p since s = import_issues c (t_users t) p (listed t since) s1.
Proof. intros Hp F. unfold import_all. destruct (fetch_all_clean c QIssues p (listed t since) s Hp F) as [s1 [E C]]. rewrite E.
  exists s1. split; [exact C|]. destruct (import_issues c (t_users t) p (listed t since) s1) as [s2 go]. now rewrite andb_false_r. Qed.

(* a second import of the same listing, or of a part of a listing that was gone through to its end, changes nothing *)
Lemma import_all_again c t p since s : c_dedupe_labels c = true -> paging_ok c p -> wf_tracker t -> rs_fault s = None -> bugs_ok c t (rs_bugs s) ->
  let r1 := import_all c t p since s in
  forall since' s', rs_fault s' = None -> rs_idents s' = rs_idents (fst r1) -> rs_bugs s' = rs_bugs (fst r1) ->
  since' = since \/ (snd r1 = true /\ forall i, In i (listed t since') -> In i (listed t since)) ->
  let r2 := import_all c t p since' s' in
  rs_idents (fst r2) = rs_idents s' /\ rs_bugs (fst r2) = rs_bugs s'.
Proof. intros Dd Hp W F BO. cbn zeta. intros since' s' F' Ids Bs Hs.
  destruct (import_all_clean c t p since s Hp F) as [s1 [[A1 [A2 [_ A4]]] E1]]. rewrite E1 in *.
  destruct (import_all_clean c t p since' s' Hp F') as [s1' [[B1 [B2 [_ B4]]] E2]]. rewrite E2.
  destruct (listed_wf t since W) as [Wl Nl].
  assert (F1 : rs_fault s1 = None) by congruence. assert (F1' : rs_fault s1' = None) by congruence.
  assert (BO1 : forall i, In i (listed t since) -> bug_ok c i (rs_bugs s1)).
  { intros i Hi. rewrite A2. apply BO. now apply (listed_in t since). }
  pose proof (issues_first c (t_users t) p Dd Hp (listed t since) s1 Wl Nl F1 BO1) as X. cbn zeta in X.
  destruct (import_issues c (t_users t) p (listed t since) s1) as [s2 go] eqn:R1. cbn [fst snd] in *.
  destruct X as [X1 [X2 [X3 [X4 X5]]]].
  rewrite <- B1 in Ids. rewrite <- B2 in Bs. rewrite <- B1, <- B2.
  destruct go.
  - (* the first run went through its whole listing *)
    assert (D : forall i, In i (listed t since') -> issue_done c (t_users t) i (rs_idents s1') (rs_bugs s1')).
    { intros i Hi. rewrite Ids, Bs. apply X4; [reflexivity|]. destruct Hs as [->|[_ Hs]]; auto. }
    pose proof (issues_again c (t_users t) p Hp (listed t since') s1' F1' D) as Y. cbn zeta in Y. tauto.
  - (* it stopped at an issue: the second run, over the same listing, stops there again *)
    destruct Hs as [->|[Hs _]]; [|discriminate].
    destruct (X5 eq_refl) as [pre [k [post [sk [El [Dp [Fk Ek]]]]]]].
    rewrite El, import_issues_app.
    assert (D : forall i, In i pre -> issue_done c (t_users t) i (rs_idents s1') (rs_bugs s1')) by (intros i Hi; rewrite Ids, Bs; now apply Dp).
    pose proof (issues_again c (t_users t) p Hp pre s1' F1' D) as Y. cbn zeta in Y.
    destruct (import_issues c (t_users t) p pre s1') as [sp gp]. cbn [fst snd] in Y. destruct Y as [-> [Y2 [Y3 Y4]]].
    cbn [import_issues].
    pose proof (issue_abort_again c (t_users t) p k sk s2 Hp Fk Ek sp Y4 ltac:(congruence) ltac:(congruence)) as Z. cbn zeta in Z.
    destruct (import_issue c (t_users t) p k sp) as [sq gq]. cbn [fst snd] in Z. destruct Z as [-> [Z2 Z3]]. cbn. split; congruence. Qed.

Lemma listed_mono t x y i : x <= y -> In i (listed t (Some y)) -> In i (listed t (Some x)).
Proof. unfold listed. intros L H. apply filter_In in H as [H1 H2]. apply filter_In. split; [exact H1|]. apply N.leb_le in H2. apply N.leb_le. lia. Qed.

(* C16_idempotent: an import round, then another one of the same kind on the same tracker state: nothing is added *)
Lemma idempotent_round c t p full now now' idents bugs cursor :
  c_dedupe_labels c = true -> paging_ok c p -> wf_tracker t -> bugs_ok c t bugs ->
  match cursor with Some x => x <= now - 5 | None => True end ->
  let o1 := run_round c t p full now None idents bugs cursor in
  let o2 := run_round c t p full now' None (out_idents o1) (out_bugs o1) (out_cursor o1) in
  out_idents o2 = out_idents o1 /\ out_bugs o2 = out_bugs o1.
Proof. intros Dd Hp W BO Hc. cbn zeta. unfold run_round.
  set (s0 := mkrs idents bugs [] [] None).
  pose proof (import_all_again c t p (if full then None else cursor) s0 Dd Hp W eq_refl BO) as H. cbn zeta in H.
  destruct (import_all c t p (if full then None else cursor) s0) as [s1 done1] eqn:R1. cbn [fst snd] in *.
  cbn [out_idents out_bugs out_cursor].
  set (since2 := if full then None else if negb (has_error (rs_res s1)) then Some (now - 5) else cursor).
  specialize (H since2 (mkrs (rs_idents s1) (rs_bugs s1) [] [] None) eq_refl eq_refl eq_refl).
  destruct (import_all c t p since2 (mkrs (rs_idents s1) (rs_bugs s1) [] [] None)) as [s2 done2]. cbn [fst snd] in *.
  cbn. apply H. subst since2. destruct full; [now left|].
  destruct (has_error (rs_res s1)) eqn:He; cbn [negb]; [now left|]. right.
  (* no error was reported: the run went through its whole listing (stopping reports an error) *)
  assert (done1 = true).
  { destruct done1; [reflexivity|]. exfalso.
    destruct (import_all_clean c t p cursor s0 Hp eq_refl) as [sx [_ Ex]]. rewrite Ex in R1.
    pose proof (issues_facts c (t_users t) p (listed t cursor) sx) as Y. cbn zeta in Y. rewrite R1 in Y. cbn [fst snd] in Y.
    destruct Y as [_ [_ [_ Y]]]. specialize (Y eq_refl). unfold errs in Y. congruence. }
  split; [assumption|]. intros i Hi. destruct cursor as [x|]; [now apply (listed_mono t x (now - 5))|now apply (listed_in t (Some (now - 5)))]. Qed.

(* ------------------------------------------------------------------ which events get imported *)

(* the event is turned into an operation carrying its id (if its author is there and the id is not there yet) *)
Definition importable (c : cfg) (e : event) : bool :=
  match ev_kind e with
  | KComment | KClosed | KReopened => true
  | KTitle => match new_title_c c (note_body e) with Some t => title_valid c t | None => false end
  | KAddLabel | KRemoveLabel => label_valid c (label_name e)
  | _ => false
  end.

Lemma resolve_in g ops : resolve g ops <> LNone <-> In g (gids ops).
Proof. rewrite resolve_none. destruct (in_dec N.eq_dec g (gids ops)); tauto. Qed.

Lemma step_gids_mono c iss ok ops e g : In g (gids ops) -> In g (gids (step c iss ok ops e)).
Proof. intros H. destruct (step_cases c iss ok ops e) as [->|[o [r [-> _]]]]; [exact H|]. rewrite gids_app. apply in_or_app. now left. Qed.

(* a new id is the id of the event, whose author is there, and which is importable or a description change *)
Lemma step_gids_new c iss ok ops e g : c_dedupe_labels c = true -> inv_ops c iss ops ->
  In g (gids (step c iss ok ops e)) -> In g (gids ops) \/
  (g = ev_id e /\ ok = true /\ e <> EError /\ (importable c e = true \/ ev_kind e = KDesc)).
Proof. intros Dd I H. destruct (step_cases c iss ok ops e) as [E|[o [r [E [D [V [Ok [NM NE]]]]]]]]; [rewrite E in H; now left|].
  rewrite E, gids_app in H. apply in_app_or in H as [H|H]; [now left|]. right.
  destruct (decide_append c iss ops e o r Dd D) as [[G [_ [NoOne Hk]]]|[p [cur [G _]]]]; [|cbn in H; rewrite G in H; destruct H].
  cbn in H. rewrite G in H. destruct H as [<-|[]]. repeat split; auto.
  unfold importable. destruct (ev_kind e) eqn:K; auto.
  - (* title: the operation validated, so the new title is valid *)
    left. unfold decide in D. rewrite K in D. destruct (resolve (ev_id e) ops); try discriminate;
    (destruct (new_title_c c (note_body e)) as [t|]; [|discriminate]); inversion D; subst o; cbn in V; now apply andb_true_iff in V as [V _].
  - left. unfold decide in D. rewrite K, Dd in D. destruct (resolve (ev_id e) ops); cbn in D; try discriminate; (destruct (no_label c e); [discriminate|]); inversion D; subst o; exact V.
  - left. unfold decide in D. rewrite K, Dd in D. destruct (resolve (ev_id e) ops); cbn in D; try discriminate; (destruct (no_label c e); [discriminate|]); inversion D; subst o; exact V.
  - unfold decide in D. rewrite K in D. discriminate.
  - unfold decide in D. rewrite K in D. discriminate. Qed.

(* a settled importable event is there *)
Lemma settled_importable c iss ops e : inv_ops c iss ops -> settled c iss ops e -> e <> EError -> importable c e = true ->
  In (ev_id e) (gids ops).
Proof. intros [_ [Va _]] S NE Im. apply resolve_in. intros R.
  assert (NM : resolve (ev_id e) ops <> LMany) by congruence.
  assert (SI := fun o r => settled_inv c iss ops e o r S NE NM).
  unfold importable in Im. destruct (ev_kind e) eqn:K; try discriminate.
  - assert (F : op_valid c (mkop (Some (ev_id e)) (ev_user e) (ev_time e) (OComment (cleanup (note_body e)))) = false)
      by (apply (SI _ (Some (RComment (i_iid iss)))); unfold decide; now rewrite K, R).
    now rewrite op_valid_comment in F.
  - destruct (new_title_c c (note_body e)) as [t|] eqn:NT; [|discriminate].
    assert (F : op_valid c (mkop (Some (ev_id e)) (ev_user e) (ev_time e) (OTitle t (cur_title ops []))) = false)
      by (apply (SI _ (Some (RTitle (i_iid iss)))); unfold decide; now rewrite K, R, NT).
    cbn in F. rewrite Im in F. cbn in F. rewrite (cur_title_safe c ops [] Va eq_refl) in F. discriminate.
  - assert (F : op_valid c (mkop (Some (ev_id e)) (ev_user e) (ev_time e) (OStatus true)) = false)
      by (apply (SI _ (Some (RStatus (i_iid iss)))); unfold decide; now rewrite K, R). discriminate.
  - assert (F : op_valid c (mkop (Some (ev_id e)) (ev_user e) (ev_time e) (OStatus false)) = false)
      by (apply (SI _ (Some (RStatus (i_iid iss)))); unfold decide; now rewrite K, R). discriminate.
  - assert (NL : no_label c e = false) by (unfold no_label; unfold label_valid in Im; apply andb_true_iff in Im as [Im _]; apply negb_true_iff in Im; rewrite Im; apply andb_false_r).
    assert (F : op_valid c (mkop (Some (ev_id e)) (ev_user e) (ev_time e) (OLabel true (label_name e))) = false)
      by (apply (SI _ None); unfold decide; rewrite K, R, NL; now destruct (c_dedupe_labels c)).
    cbn in F. congruence.
  - assert (NL : no_label c e = false) by (unfold no_label; unfold label_valid in Im; apply andb_true_iff in Im as [Im _]; apply negb_true_iff in Im; rewrite Im; apply andb_false_r).
    assert (F : op_valid c (mkop (Some (ev_id e)) (ev_user e) (ev_time e) (OLabel false (label_name e))) = false)
      by (apply (SI _ None); unfold decide; rewrite K, R, NL; now destruct (c_dedupe_labels c)).
    cbn in F. congruence. Qed.

(* one event, a failure possibly pending *)
Lemma ee_any c us iss ops s e : let r := ensure_event c us iss (ops, s) e in
  exists ok, fst r = step c iss ok ops e /\ (ok = true -> person_ok c us (rs_idents s) (ev_user e) = true) /\
             rs_bugs (snd r) = rs_bugs s /\ grown c us (rs_idents s) (rs_idents (snd r)).
Proof. cbn zeta. unfold ensure_event.
  assert (AD : forall s1, let x := match decide c iss ops e with
                                   | ANone => s1
                                   | AError => emit RError s1
                                   | AAppend o r => if op_valid c o then match r with Some x => emit x s1 | None => s1 end else emit RError s1
                                   end in rs_bugs x = rs_bugs s1 /\ rs_idents x = rs_idents s1).
  { intros s1. cbn zeta. destruct (decide c iss ops e) as [| |o r]; [now split|now split|].
    destruct (op_valid c o); [destruct r|]; now split. }
  destruct e as [n|l|st|]; [| | |exists false; cbn; repeat split; auto; try discriminate; apply grown_refl];
  (destruct (resolve _ ops) eqn:R;
   [ | |exists false; rewrite step_false; cbn; repeat split; auto; try discriminate; apply grown_refl];
   (match goal with |- context [ensure_person c us ?u s] =>
      pose proof (ep_any c us u s) as H; cbn zeta in H; destruct (ensure_person c us u s) as [s1 ok] end;
    cbn [fst snd] in *; destruct H as [B [T [Fa _]]]; exists ok; split; [reflexivity|]; split; [intros X; now apply T|];
    assert (G : grown c us (rs_idents s) (rs_idents s1))
      by (destruct ok; [destruct (T eq_refl) as [_ ->]; apply grown_after, grown_refl|rewrite (Fa eq_refl); apply grown_refl]);
    destruct ok; [destruct (AD s1) as [A1 A2]; cbn zeta in A1, A2; rewrite A1, A2; now split|cbn; now split])). Qed.

(* all the events, a failure possibly pending: what is added is justified by an event whose author is there *)
Definition justified (c : cfg) (us : list user) (base : list N) (evs : list event) (g : N) : Prop :=
  exists e, In e evs /\ e <> EError /\ ev_id e = g /\ person_ok c us base (ev_user e) = true /\ (importable c e = true \/ ev_kind e = KDesc).

Lemma events_sound c us iss base : c_dedupe_labels c = true -> forall evs ops s,
  inv_ops c iss ops -> grown c us base (rs_idents s) ->
  let r := fold_left (ensure_event c us iss) evs (ops, s) in
  inv_ops c iss (fst r) /\ rs_bugs (snd r) = rs_bugs s /\ grown c us base (rs_idents (snd r)) /\ (exists d, fst r = ops ++ d) /\
  (forall g, In g (gids (fst r)) -> In g (gids ops) \/ justified c us base evs g).
Proof. intros Dd. induction evs as [|e t IH]; intros ops s I G; cbn zeta.
  - cbn. split; [exact I|]. split; [reflexivity|]. split; [exact G|]. split; [exists []; now rewrite app_nil_r|auto].
  - cbn [fold_left]. pose proof (ee_any c us iss ops s e) as H. cbn zeta in H.
    destruct (ensure_event c us iss (ops, s) e) as [ops1 s1]. cbn [fst snd] in H. destruct H as [ok [E1 [P1 [B1 G1]]]].
    assert (I1 : inv_ops c iss ops1) by (subst ops1; now apply inv_ops_step).
    assert (G1' : grown c us base (rs_idents s1)) by (eapply grown_trans; eauto).
    specialize (IH ops1 s1 I1 G1'). cbn zeta in IH. destruct IH as [J1 [J2 [J3 [[d J4] J5]]]].
    split; [exact J1|]. split; [congruence|]. split; [exact J3|]. split.
    + subst ops1. destruct (step_cases c iss ok ops e) as [X|[o1 [r1 [X _]]]].
      * rewrite X in J4 |- *. exists d. exact J4.
      * rewrite X in J4 |- *. exists ([o1] ++ d). now rewrite J4, app_assoc.
    + intros g Hg. destruct (J5 g Hg) as [Y|[e' [Y1 Y2]]].
      * subst ops1. destruct (step_gids_new c iss ok ops e g Dd I Y) as [Z|[Z1 [Z2 [Z3 Z4]]]]; [now left|]. right.
        exists e. split; [now left|]. split; [exact Z3|]. split; [now symmetry|]. split; [|exact Z4].
        rewrite <- (grown_ok c us base (rs_idents s) _ G). now apply P1.
      * right. exists e'. split; [now right|exact Y2]. Qed.

Definition ops_of (iid : N) (bugs : list bug) : list op := match find_bug iid bugs with Some b => b_ops b | None => [] end.

Definition justified_ev (c : cfg) (us : list user) (base : list N) (iss : issue) (g : N) : Prop :=
  exists e, In_ev iss e /\ e <> EError /\ ev_id e = g /\ person_ok c us base (ev_user e) = true /\ (importable c e = true \/ ev_kind e = KDesc).

Lemma fetch_pages_core {A} c (mk : nat -> req) p (l : list A) : forall fuel k s,
  rs_idents (fst (fst (fetch_pages c fuel mk p l k s))) = rs_idents s /\ rs_bugs (fst (fst (fetch_pages c fuel mk p l k s))) = rs_bugs s.
Proof. induction fuel as [|f IH]; intros k s; cbn [fetch_pages]; [now cbn|].
  pose proof (send_proj (mk k) s) as [A1 [A2 _]]. destruct (send (mk k) s) as [s1 ok]. cbn [fst snd] in *.
  destruct ok; cbn [negb]; [|now cbn]. destruct (last_page c p l k); [now cbn|].
  specialize (IH (S k) s1). destruct (fetch_pages c f mk p l (S k) s1) as [[s2 rest] failed]. cbn [fst snd] in *. destruct IH. split; congruence. Qed.

(* one issue, a failure possibly pending: what is added to its bug is justified; nothing else is touched *)
Lemma issue_sound c us p iss s base : c_dedupe_labels c = true -> bug_ok c iss (rs_bugs s) -> grown c us base (rs_idents s) ->
  let r := import_issue c us p iss s in
  grown c us base (rs_idents (fst r)) /\ bug_ok c iss (rs_bugs (fst r)) /\
  (forall iid', iid' <> i_iid iss -> find_bug iid' (rs_bugs (fst r)) = find_bug iid' (rs_bugs s)) /\
  (exists d, ops_of (i_iid iss) (rs_bugs (fst r)) = ops_of (i_iid iss) (rs_bugs s) ++ d) /\
  (forall g, In g (gids (ops_of (i_iid iss) (rs_bugs (fst r)))) ->
             In g (gids (ops_of (i_iid iss) (rs_bugs s))) \/ g = i_iid iss \/ justified_ev c us base iss g).
Proof. intros Dd BO G. cbn zeta. unfold import_issue.
  pose proof (ep_any c us (i_author iss) s) as H. cbn zeta in H. destruct (ensure_person c us (i_author iss) s) as [s1 ok]. cbn [fst snd] in H.
  destruct H as [B1 [T1 [Fa1 _]]].
  assert (G1 : grown c us base (rs_idents s1)).
  { destruct ok; [destruct (T1 eq_refl) as [_ ->]; now apply grown_after|now rewrite (Fa1 eq_refl)]. }
  assert (Abort : grown c us base (rs_idents (emit RError s1)) /\ bug_ok c iss (rs_bugs (emit RError s1)) /\
            (forall iid', iid' <> i_iid iss -> find_bug iid' (rs_bugs (emit RError s1)) = find_bug iid' (rs_bugs s)) /\
            (exists d, ops_of (i_iid iss) (rs_bugs (emit RError s1)) = ops_of (i_iid iss) (rs_bugs s) ++ d) /\
            (forall g, In g (gids (ops_of (i_iid iss) (rs_bugs (emit RError s1)))) ->
                       In g (gids (ops_of (i_iid iss) (rs_bugs s))) \/ g = i_iid iss \/ justified_ev c us base iss g)).
  { cbn [emit rs_idents rs_bugs]. rewrite B1. split; [exact G1|]. split; [exact BO|]. split; [auto|]. split; [exists []; now rewrite app_nil_r|auto]. }
  destruct ok; cbn [negb]; [|exact Abort]. fold (create_op c iss).
  (* the bug: found, or created *)
  assert (Cr : match (match find_bug (i_iid iss) (rs_bugs s1) with
                      | Some b => Some (b_ops b, s1)
                      | None => if op_valid c (create_op c iss)
                                then Some ([create_op c iss], emit (RBug (i_iid iss)) (set_bugs (put_bug (mkbug (i_iid iss) [create_op c iss]) (rs_bugs s1)) s1))
                                else None
                      end) with
               | Some (ops0, s2) => inv_ops c iss ops0 /\ rs_idents s2 = rs_idents s1 /\ ops_of (i_iid iss) (rs_bugs s2) = ops0 /\
                                    (forall iid', iid' <> i_iid iss -> find_bug iid' (rs_bugs s2) = find_bug iid' (rs_bugs s)) /\
                                    (exists d, ops0 = ops_of (i_iid iss) (rs_bugs s) ++ d) /\
                                    (forall g, In g (gids ops0) -> In g (gids (ops_of (i_iid iss) (rs_bugs s))) \/ g = i_iid iss)
               | None => True end).
  { rewrite B1. destruct (find_bug (i_iid iss) (rs_bugs s)) as [b|] eqn:FB.
    - split; [now apply BO|]. split; [reflexivity|]. unfold ops_of. rewrite B1, FB. split; [reflexivity|]. split; [auto|].
      split; [exists []; now rewrite app_nil_r|auto].
    - destruct (op_valid c (create_op c iss)) eqn:V; [|exact I]. cbn [emit set_bugs rs_idents rs_bugs].
      split; [now apply inv_ops_create|]. split; [reflexivity|]. unfold ops_of.
      rewrite (find_put_same (mkbug (i_iid iss) [create_op c iss])), FB. cbn [b_ops]. split; [reflexivity|].
      split; [intros iid' Ne; now apply find_put_other|]. split; [now exists [create_op c iss]|].
      intros g [<-|[]]. now right. }
  destruct (match find_bug (i_iid iss) (rs_bugs s1) with Some b => Some (b_ops b, s1) | None => _ end) as [[ops0 s2]|]; [|exact Abort].
  destruct Cr as [I0 [Id2 [O2 [Fr2 [Pre2 Gi2]]]]].
  pose proof (fetch_pages_core c (QNotes (i_iid iss)) p (i_notes iss) (npages p (i_notes iss)) 1 s2) as [A3 B3].
  pose proof (fetch_pages_incl c (QNotes (i_iid iss)) p (i_notes iss) (npages p (i_notes iss)) 1 s2) as In3.
  change (fetch_pages c (npages p (i_notes iss)) (QNotes (i_iid iss)) p (i_notes iss) 1 s2) with (fetch_all c (QNotes (i_iid iss)) p (i_notes iss) s2) in *.
  destruct (fetch_all c (QNotes (i_iid iss)) p (i_notes iss) s2) as [[s3 ns] fn]. cbn [fst snd] in *.
  pose proof (fetch_pages_core c (QLabels (i_iid iss)) p (i_labels iss) (npages p (i_labels iss)) 1 s3) as [A4 B4].
  pose proof (fetch_pages_incl c (QLabels (i_iid iss)) p (i_labels iss) (npages p (i_labels iss)) 1 s3) as In4.
  change (fetch_pages c (npages p (i_labels iss)) (QLabels (i_iid iss)) p (i_labels iss) 1 s3) with (fetch_all c (QLabels (i_iid iss)) p (i_labels iss) s3) in *.
  destruct (fetch_all c (QLabels (i_iid iss)) p (i_labels iss) s3) as [[s4 ls] fl]. cbn [fst snd] in *.
  pose proof (fetch_pages_core c (QStates (i_iid iss)) p (i_states iss) (npages p (i_states iss)) 1 s4) as [A5 B5].
  pose proof (fetch_pages_incl c (QStates (i_iid iss)) p (i_states iss) (npages p (i_states iss)) 1 s4) as In5.
  change (fetch_pages c (npages p (i_states iss)) (QStates (i_iid iss)) p (i_states iss) 1 s4) with (fetch_all c (QStates (i_iid iss)) p (i_states iss) s4) in *.
  destruct (fetch_all c (QStates (i_iid iss)) p (i_states iss) s4) as [[s5 ss] fs]. cbn [fst snd] in *.
  set (evs := sorted_events _ _ _).
  assert (Fev : Forall (In_ev iss) evs) by (subst evs; now apply sorted_events_in_ev).
  assert (G5 : grown c us base (rs_idents s5)) by (rewrite A5, A4, A3, Id2; exact G1).
  pose proof (events_sound c us iss base Dd evs ops0 s5 I0 G5) as X. cbn zeta in X.
  destruct (fold_left (ensure_event c us iss) evs (ops0, s5)) as [ops1 s6]. cbn [fst snd] in X.
  destruct X as [J1 [J2 [J3 [[d J4] J5]]]].
  assert (B62 : rs_bugs s6 = rs_bugs s2) by congruence.
  assert (Just : forall g, justified c us base evs g -> justified_ev c us base iss g).
  { intros g [e [He Y]]. exists e. split; [|exact Y]. rewrite Forall_forall in Fev. now apply Fev. }
  destruct Pre2 as [d0 Pre2].
  destruct (Nat.eqb (length ops1) (length ops0)); cbn [fst snd emit set_bugs rs_idents rs_bugs].
  - rewrite B62. split; [exact J3|]. split; [intros b Hb; unfold ops_of in O2; rewrite Hb in O2; now subst|].
    split; [exact Fr2|]. rewrite O2. split; [eauto|]. intros g Hg. destruct (Gi2 g Hg); auto.
  - split; [exact J3|]. split; [intros b Hb; rewrite (find_put_same (mkbug (i_iid iss) ops1)) in Hb; inversion Hb; now subst|].
    split; [intros iid' Ne; rewrite find_put_other by (cbn; exact Ne); rewrite B62; now apply Fr2|].
    unfold ops_of at 1 3. rewrite (find_put_same (mkbug (i_iid iss) ops1)). cbn [b_ops].
    split; [exists (d0 ++ d); now rewrite J4, Pre2, app_assoc|].
    intros g Hg. destruct (J5 g Hg) as [Y|Y]; [destruct (Gi2 g Y); auto|right; right; now apply Just]. Qed.

(* ------------------------------------------------------------------ a whole run, a failure possibly pending *)

Lemma firstn_app_skipn {A} p n (x : list A) : firstn p x ++ firstn n (skipn p x) = firstn (p + n) x.
Proof. revert x. induction p as [|p IH]; intros x; cbn; [reflexivity|]. destruct x; cbn; [now rewrite firstn_nil|]. now rewrite IH. Qed.

Lemma fetch_pages_prefix {A} c (mk : nat -> req) p (l : list A) : forall fuel k s, (1 <= k)%nat ->
  exists n, snd (fst (fetch_pages c fuel mk p l k s)) = firstn n (skipn ((k - 1) * p) l).
Proof. induction fuel as [|f IH]; intros k s Hk; cbn [fetch_pages]; [exists 0%nat; reflexivity|].
  destruct (send (mk k) s) as [s1 ok]. destruct ok; cbn [negb]; [|exists 0%nat; reflexivity].
  destruct (last_page c p l k); [exists p; reflexivity|].
  destruct (IH (S k) s1 ltac:(lia)) as [n E]. destruct (fetch_pages c f mk p l (S k) s1) as [[s2 rest] failed]. cbn [fst snd] in *.
  exists (p + n)%nat. rewrite E. unfold page_of.
  replace (S k - 1)%nat with (k - 1 + 1)%nat by lia. rewrite Nat.mul_add_distr_r, Nat.mul_1_l, skipn_add. apply firstn_app_skipn. Qed.

Lemma NoDup_firstn {A} n (l : list A) : NoDup l -> NoDup (firstn n l).
Proof. revert l. induction n; intros l H; cbn; [constructor|]. destruct l; [constructor|]. inversion H; subst. constructor; [|auto].
  intros X. apply H2. now apply firstn_In' in X. Qed.

Lemma issues_sound c us p base : c_dedupe_labels c = true -> forall l s,
  NoDup (map i_iid l) -> (forall i, In i l -> bug_ok c i (rs_bugs s)) -> grown c us base (rs_idents s) ->
  let r := import_issues c us p l s in
  grown c us base (rs_idents (fst r)) /\ (forall i, In i l -> bug_ok c i (rs_bugs (fst r))) /\
  (forall iid', ~ In iid' (map i_iid l) -> find_bug iid' (rs_bugs (fst r)) = find_bug iid' (rs_bugs s)) /\
  (forall i, In i l -> (exists d, ops_of (i_iid i) (rs_bugs (fst r)) = ops_of (i_iid i) (rs_bugs s) ++ d) /\
     forall g, In g (gids (ops_of (i_iid i) (rs_bugs (fst r)))) ->
               In g (gids (ops_of (i_iid i) (rs_bugs s))) \/ g = i_iid i \/ justified_ev c us base i g).
Proof. intros Dd. induction l as [|i t IH]; intros s ND BO G; cbn zeta.
  - cbn. split; [exact G|]. split; [intros ? []|]. split; [auto|intros ? []].
  - cbn [import_issues]. cbn in ND. inversion ND as [|? ? Ni NDt]; subst.
    pose proof (issue_sound c us p i s base Dd (BO i (or_introl eq_refl)) G) as X. cbn zeta in X.
    destruct (import_issue c us p i s) as [s1 go]. cbn [fst snd] in X. destruct X as [X1 [X2 [X3 [X4 X5]]]].
    assert (Neq : forall j, In j t -> i_iid j <> i_iid i) by (intros j Hj Eq; apply Ni; rewrite <- Eq; now apply in_map).
    assert (Same1 : forall j, In j t -> ops_of (i_iid j) (rs_bugs s1) = ops_of (i_iid j) (rs_bugs s)) by (intros j Hj; unfold ops_of; rewrite X3; auto).
    destruct go.
    + assert (BO1 : forall j, In j t -> bug_ok c j (rs_bugs s1)) by (intros j Hj b Hb; apply (BO j (or_intror Hj)); rewrite <- Hb; symmetry; apply X3; auto).
      specialize (IH s1 NDt BO1 X1). cbn zeta in IH. destruct (import_issues c us p t s1) as [s2 go2]. cbn [fst snd] in *.
      destruct IH as [Y1 [Y2 [Y3 Y4]]].
      assert (Same2 : ops_of (i_iid i) (rs_bugs s2) = ops_of (i_iid i) (rs_bugs s1)) by (unfold ops_of; now rewrite Y3).
      split; [exact Y1|]. split; [|split].
      * intros j [<-|Hj]; [|now apply Y2]. intros b Hb. apply X2. now rewrite <- Y3.
      * intros iid' Nin. cbn in Nin. rewrite Y3 by tauto. apply X3. intros ->. apply Nin. now left.
      * intros j [<-|Hj]; [rewrite Same2; split; assumption|]. destruct (Y4 j Hj) as [Z1 Z2]. rewrite (Same1 j Hj) in Z1, Z2. split; assumption.
    + cbn [fst snd]. split; [exact X1|]. split; [|split].
      * intros j [<-|Hj]; [exact X2|]. intros b Hb. apply (BO j (or_intror Hj)). rewrite <- Hb. symmetry. apply X3. auto.
      * intros iid' Nin. apply X3. intros ->. apply Nin. cbn. now left.
      * intros j [<-|Hj]; [split; assumption|]. rewrite (Same1 j Hj). split; [exists []; now rewrite app_nil_r|auto]. Qed.




Lemma import_all_sound c t p since s base : c_dedupe_labels c = true -> wf_tracker t -> bugs_ok c t (rs_bugs s) -> grown c (t_users t) base (rs_idents s) ->
  let r := import_all c t p since s in
  grown c (t_users t) base (rs_idents (fst r)) /\ bugs_ok c t (rs_bugs (fst r)) /\
  (forall iid', ~ In iid' (map i_iid (t_issues t)) -> find_bug iid' (rs_bugs (fst r)) = find_bug iid' (rs_bugs s)) /\
  (forall i, In i (t_issues t) -> (exists d, ops_of (i_iid i) (rs_bugs (fst r)) = ops_of (i_iid i) (rs_bugs s) ++ d) /\
     forall g, In g (gids (ops_of (i_iid i) (rs_bugs (fst r)))) ->
               In g (gids (ops_of (i_iid i) (rs_bugs s))) \/ g = i_iid i \/ justified_ev c (t_users t) base i g).
Proof. intros Dd W BO G. cbn zeta. unfold import_all.
  pose proof (fetch_pages_core c QIssues p (listed t since) (npages p (listed t since)) 1 s) as [A1 B1].
  destruct (fetch_pages_prefix c QIssues p (listed t since) (npages p (listed t since)) 1 s ltac:(lia)) as [n Pre].
  change (fetch_pages c (npages p (listed t since)) QIssues p (listed t since) 1 s) with (fetch_all c QIssues p (listed t since) s) in *.
  destruct (fetch_all c QIssues p (listed t since) s) as [[s1 l] failed]. cbn [fst snd] in *. cbn in Pre.
  destruct (listed_wf t since W) as [_ Nl]. destruct W as [Wt Nt].
  assert (Inl : forall i, In i l -> In i (t_issues t)) by (intros i Hi; rewrite Pre in Hi; apply firstn_In' in Hi; now apply (listed_in t since)).
  assert (NDl : NoDup (map i_iid l)) by (rewrite Pre, <- firstn_map; now apply NoDup_firstn).
  assert (BO1 : forall i, In i l -> bug_ok c i (rs_bugs s1)) by (intros i Hi; rewrite B1; apply BO; auto).
  assert (G1 : grown c (t_users t) base (rs_idents s1)) by now rewrite A1.
  pose proof (issues_sound c (t_users t) p base Dd l s1 NDl BO1 G1) as X. cbn zeta in X.
  destruct (import_issues c (t_users t) p l s1) as [s2 go]. cbn [fst snd] in X. destruct X as [X1 [X2 [X3 X4]]].
  assert (Core : forall sx, rs_idents sx = rs_idents s2 -> rs_bugs sx = rs_bugs s2 ->
            grown c (t_users t) base (rs_idents sx) /\ bugs_ok c t (rs_bugs sx) /\
            (forall iid', ~ In iid' (map i_iid (t_issues t)) -> find_bug iid' (rs_bugs sx) = find_bug iid' (rs_bugs s)) /\
            (forall i, In i (t_issues t) -> (exists d, ops_of (i_iid i) (rs_bugs sx) = ops_of (i_iid i) (rs_bugs s) ++ d) /\
               forall g, In g (gids (ops_of (i_iid i) (rs_bugs sx))) ->
                         In g (gids (ops_of (i_iid i) (rs_bugs s))) \/ g = i_iid i \/ justified_ev c (t_users t) base i g)).
  { intros sx -> ->. rewrite <- B1.
    assert (Dec : forall i, In i (t_issues t) -> In i l \/ ~ In (i_iid i) (map i_iid l)).
    { intros i Hi. destruct (in_dec N.eq_dec (i_iid i) (map i_iid l)) as [Y|Y]; [left|now right].
      apply in_map_iff in Y as [j [Ej Hj]]. assert (j = i) by (apply (NoDup_map_inj i_iid (t_issues t) j i Nt (Inl j Hj) Hi Ej)). now subst. }
    split; [exact X1|]. split; [|split].
    - intros i Hi. destruct (Dec i Hi) as [Y|Y]; [now apply X2|]. intros b Hb. apply (BO i Hi). rewrite <- B1, <- Hb. symmetry. now apply X3.
    - intros iid' Nin. apply X3. intros Y. apply Nin. apply in_map_iff in Y as [j [Ej Hj]]. rewrite <- Ej. apply in_map. auto.
    - intros i Hi. destruct (Dec i Hi) as [Y|Y]; [now apply X4|].
      assert (E : ops_of (i_iid i) (rs_bugs s2) = ops_of (i_iid i) (rs_bugs s1)) by (unfold ops_of; now rewrite X3).
      rewrite E. split; [exists []; now rewrite app_nil_r|auto]. }
  destruct (go && failed && c_list_error c); cbn [fst snd]; now apply Core. Qed.

(* ------------------------------------------------------------------ events are identified by their id when ids are not shared *)

(* the hypothesis forced by the proofs: the issue's IID and the ids of its notes, label events and state events
   (four id sequences in GitLab, one metadata key in git-bug) are pairwise distinct *)
Definition all_ids (iss : issue) : list N :=
  i_iid iss :: map n_id (i_notes iss) ++ map l_id (i_labels iss) ++ map s_id (i_states iss).
Definition ids_disjoint (iss : issue) : Prop := NoDup (all_ids iss).

Lemma NoDup_app_parts {A} (a b : list A) : NoDup (a ++ b) -> NoDup a /\ NoDup b /\ forall x, In x a -> In x b -> False.
Proof. induction a as [|x a IH]; cbn; intros H; [repeat split; [constructor|exact H|tauto]|].
  inversion H; subst. destruct (IH H3) as [Na [Nb Dj]]. repeat split; [constructor; [|exact Na]|exact Nb|].
  - intros X. apply H2. apply in_or_app. now left.
  - intros y [<-|Hy] Hb; [apply H2; apply in_or_app; now right|eauto]. Qed.

Lemma ids_disjoint_wf iss : ids_disjoint iss -> wf_issue iss.
Proof. unfold ids_disjoint, all_ids, wf_issue. intros H. inversion H; subst.
  apply NoDup_app_parts in H3 as [Nn _]. split; [exact Nn|]. intros X. apply H2. apply in_or_app. now left. Qed.

Lemma ev_id_in_all iss e : In_ev iss e -> e <> EError -> In (ev_id e) (map n_id (i_notes iss) ++ map l_id (i_labels iss) ++ map s_id (i_states iss)).
Proof. destruct e as [n|l|s|]; cbn; intros H NE; [| | |congruence]; apply in_or_app; [left|right; apply in_or_app; left|right; apply in_or_app; right]; now apply in_map. Qed.

Lemma ev_id_not_iid iss e : ids_disjoint iss -> In_ev iss e -> e <> EError -> ev_id e <> i_iid iss.
Proof. unfold ids_disjoint, all_ids. intros H He NE Eq. inversion H; subst. apply H2. rewrite <- Eq. now apply ev_id_in_all. Qed.

Lemma ev_id_inj iss e e' : ids_disjoint iss -> In_ev iss e -> In_ev iss e' -> e <> EError -> e' <> EError -> ev_id e = ev_id e' -> e = e'.
Proof. unfold ids_disjoint, all_ids. intros H He He' NE NE' Eq. inversion H as [|? ? _ H3]; subst.
  apply NoDup_app_parts in H3 as [Nn [H4 D1]]. apply NoDup_app_parts in H4 as [Nl [Ns D2]].
  destruct e as [n|l|s|], e' as [n'|l'|s'|]; cbn in *; try congruence.
  - f_equal. eapply (NoDup_map_inj n_id); eauto.
  - exfalso. apply (D1 (n_id n)); [now apply in_map|]. apply in_or_app. left. rewrite Eq. now apply in_map.
  - exfalso. apply (D1 (n_id n)); [now apply in_map|]. apply in_or_app. right. rewrite Eq. now apply in_map.
  - exfalso. apply (D1 (n_id n')); [now apply in_map|]. apply in_or_app. left. rewrite <- Eq. now apply in_map.
  - f_equal. eapply (NoDup_map_inj l_id); eauto.
  - exfalso. apply (D2 (l_id l)); [now apply in_map|]. rewrite Eq. now apply in_map.
  - exfalso. apply (D1 (n_id n')); [now apply in_map|]. apply in_or_app. right. rewrite <- Eq. now apply in_map.
  - exfalso. apply (D2 (l_id l')); [now apply in_map|]. rewrite <- Eq. now apply in_map.
  - f_equal. eapply (NoDup_map_inj s_id); eauto. Qed.

Lemma in_ev_in_evs iss e : In_ev iss e -> e <> EError -> In e (evs_of iss).
Proof. intros H NE. unfold evs_of. apply sorted_events_complete. destruct e as [n|l|s|]; cbn in H; [left|right; left|right; right|congruence]; now apply in_map. Qed.

(* ------------------------------------------------------------------ a run that is not stopped *)

Definition no_stop (c : cfg) (us : list user) (l : list issue) (idents : list N) (bugs : list bug) : Prop :=
  forall i, In i l -> person_ok c us idents (i_author i) = true /\ (find_bug (i_iid i) bugs <> None \/ op_valid c (create_op c i) = true).

Lemma issues_complete c us p : c_dedupe_labels c = true -> paging_ok c p -> forall l s,
  Forall wf_issue l -> NoDup (map i_iid l) -> rs_fault s = None -> (forall i, In i l -> bug_ok c i (rs_bugs s)) ->
  no_stop c us l (rs_idents s) (rs_bugs s) -> snd (import_issues c us p l s) = true.
Proof. intros Dd Hp. induction l as [|i t IH]; intros s W ND F BO NS; [reflexivity|].
  cbn [import_issues]. inversion W as [|? ? Wi Wt]; subst. cbn in ND. inversion ND as [|? ? Ni NDt]; subst.
  pose proof (issue_first c us p i s Dd Hp Wi F (BO i (or_introl eq_refl))) as X. cbn zeta in X.
  destruct (import_issue c us p i s) as [s1 go]. cbn [fst snd] in X. destruct X as [X1 [X2 [X3 [X4 [X5 X6]]]]].
  destruct go.
  - apply IH; auto.
    + intros j Hj b Hb. apply (BO j (or_intror Hj)). rewrite <- Hb. symmetry. apply X3. intros Eq. apply Ni. rewrite <- Eq. now apply in_map.
    + intros j Hj. destruct (NS j (or_intror Hj)) as [A B]. split; [now rewrite (grown_ok c us _ _ _ X2)|].
      rewrite X3; [exact B|]. intros Eq. apply Ni. rewrite <- Eq. now apply in_map.
  - exfalso. destruct (X6 eq_refl) as [_ [_ [Y|[Y1 Y2]]]]; destruct (NS i (or_introl eq_refl)) as [A [B|B]]; congruence. Qed.

(* ------------------------------------------------------------------ what a clean run that is not stopped imports: exactly the importable events whose
   author is there and that were not imported yet (C16_incremental) *)

Lemma ops_of_found iid bugs : ops_of iid bugs <> [] -> find_bug iid bugs <> None.
Proof. unfold ops_of. destruct (find_bug iid bugs); [discriminate|congruence]. Qed.

Lemma clean_char c t p since s : c_dedupe_labels c = true -> paging_ok c p -> wf_tracker t ->
  (forall i, In i (listed t since) -> ids_disjoint i) -> rs_fault s = None -> bugs_ok c t (rs_bugs s) ->
  no_stop c (t_users t) (listed t since) (rs_idents s) (rs_bugs s) ->
  let r := import_all c t p since s in
  snd r = true /\ rs_fault (fst r) = None /\ grown c (t_users t) (rs_idents s) (rs_idents (fst r)) /\ bugs_ok c t (rs_bugs (fst r)) /\
  forall i, In i (listed t since) ->
    find_bug (i_iid i) (rs_bugs (fst r)) <> None /\
    (exists d, ops_of (i_iid i) (rs_bugs (fst r)) = ops_of (i_iid i) (rs_bugs s) ++ d) /\
    NoDup (gids (ops_of (i_iid i) (rs_bugs (fst r)))) /\
    forall e, In_ev i e -> e <> EError -> ev_kind e <> KDesc ->
      (In (ev_id e) (gids (ops_of (i_iid i) (rs_bugs (fst r)))) <->
       In (ev_id e) (gids (ops_of (i_iid i) (rs_bugs s))) \/ (importable c e = true /\ person_ok c (t_users t) (rs_idents s) (ev_user e) = true)).
Proof. intros Dd Hp W Dj F BO NS. cbn zeta.
  pose proof (import_all_sound c t p since s (rs_idents s) Dd W BO (grown_refl _ _ _)) as Snd. cbn zeta in Snd.
  destruct (import_all_clean c t p since s Hp F) as [s1 [[A1 [A2 [_ A4]]] E1]]. rewrite E1 in *.
  destruct (listed_wf t since W) as [Wl Nl].
  assert (F1 : rs_fault s1 = None) by congruence.
  assert (BO1 : forall i, In i (listed t since) -> bug_ok c i (rs_bugs s1)) by (intros i Hi; rewrite A2; apply BO; now apply (listed_in t since)).
  assert (NS1 : no_stop c (t_users t) (listed t since) (rs_idents s1) (rs_bugs s1)) by now rewrite A1, A2.
  pose proof (issues_complete c (t_users t) p Dd Hp (listed t since) s1 Wl Nl F1 BO1 NS1) as Cm.
  pose proof (issues_first c (t_users t) p Dd Hp (listed t since) s1 Wl Nl F1 BO1) as X. cbn zeta in X.
  destruct (import_issues c (t_users t) p (listed t since) s1) as [s2 go]. cbn [fst snd] in *. subst go.
  destruct X as [X1 [X2 [_ [X4 _]]]]. destruct Snd as [S1 [S2 [_ S4]]]. rewrite A1 in X2.
  split; [reflexivity|]. split; [exact X1|]. split; [exact X2|]. split; [exact S2|].
  intros i Hi. pose proof (listed_in t since i Hi) as Hit. destruct (S4 i Hit) as [Pre Just]. destruct (X4 eq_refl i Hi) as [Au [b [FB [Ib [St En]]]]].
  split; [congruence|]. split; [exact Pre|]. assert (Ob : ops_of (i_iid i) (rs_bugs s2) = b_ops b) by (unfold ops_of; now rewrite FB).
  split; [rewrite Ob; apply Ib|].
  intros e He NE NK. split.
  - intros Hg. destruct (Just _ Hg) as [Y|[Y|[e' [He' [NE' [Eq [P' K']]]]]]]; [now left|exfalso; now apply (ev_id_not_iid i e (Dj i Hi))|].
    assert (e' = e) by (apply (ev_id_inj i e' e (Dj i Hi)); auto). subst e'. right. destruct K' as [K'|K']; [now split|contradiction].
  - intros [Hg|[Im Po]].
    + destruct Pre as [d ->]. rewrite gids_app. apply in_or_app. now left.
    + rewrite Ob. apply (settled_importable c i (b_ops b) e Ib); auto. apply St; [now apply in_ev_in_evs|].
      now rewrite (grown_ok c (t_users t) _ _ _ X2). Qed.

(* ------------------------------------------------------------------ C16_resume: a run in which one request fails, then a clean run: the same events are
   imported as by a clean run *)

Lemma resume_same c t p since idents bugs q : c_dedupe_labels c = true -> paging_ok c p -> wf_tracker t ->
  (forall i, In i (listed t since) -> ids_disjoint i) -> bugs_ok c t bugs ->
  no_stop c (t_users t) (listed t since) idents bugs ->
  let clean := fst (import_all c t p since (mkrs idents bugs [] [] None)) in
  let failed := fst (import_all c t p since (mkrs idents bugs [] [] (Some q))) in
  let resumed := fst (import_all c t p since (mkrs (rs_idents failed) (rs_bugs failed) [] [] None)) in
  forall i, In i (listed t since) ->
    find_bug (i_iid i) (rs_bugs resumed) <> None /\ find_bug (i_iid i) (rs_bugs clean) <> None /\
    NoDup (gids (ops_of (i_iid i) (rs_bugs resumed))) /\ NoDup (gids (ops_of (i_iid i) (rs_bugs clean))) /\
    forall e, In_ev i e -> e <> EError -> ev_kind e <> KDesc ->
      (In (ev_id e) (gids (ops_of (i_iid i) (rs_bugs resumed))) <-> In (ev_id e) (gids (ops_of (i_iid i) (rs_bugs clean)))).
Proof. intros Dd Hp W Dj BO NS. cbn zeta. intros i Hi.
  set (s0 := mkrs idents bugs [] [] None). set (sq := mkrs idents bugs [] [] (Some q)).
  pose proof (clean_char c t p since s0 Dd Hp W Dj eq_refl BO NS) as C0. cbn zeta in C0.
  pose proof (import_all_sound c t p since sq idents Dd W BO (grown_refl _ _ _)) as Sf. cbn zeta in Sf.
  destruct (import_all c t p since s0) as [sc dc]. destruct (import_all c t p since sq) as [sf df]. cbn [fst snd] in *.
  destruct C0 as [_ [_ [_ [_ C0]]]]. destruct Sf as [Gf [BOf [_ Sf]]].
  set (s1 := mkrs (rs_idents sf) (rs_bugs sf) [] [] None).
  assert (NS1 : no_stop c (t_users t) (listed t since) (rs_idents s1) (rs_bugs s1)).
  { intros j Hj. destruct (NS j Hj) as [A B]. cbn. split; [now rewrite (grown_ok c (t_users t) _ _ _ Gf)|].
    destruct B as [B|B]; [left|now right]. destruct (Sf j (listed_in t since j Hj)) as [[d Pre] _]. apply ops_of_found. rewrite Pre. cbn [rs_bugs sq].
    unfold ops_of. destruct (find_bug (i_iid j) bugs) as [b|] eqn:FB; [|congruence].
    destruct (BO j (listed_in t since j Hj) b FB) as [[o [rest [Eo _]]] _]. rewrite Eo. intros Habs. discriminate Habs. }
  pose proof (clean_char c t p since s1 Dd Hp W Dj eq_refl BOf NS1) as C1. cbn zeta in C1.
  destruct (import_all c t p since s1) as [sr dr]. cbn [fst snd] in *. destruct C1 as [_ [_ [_ [_ C1]]]].
  destruct (C0 i Hi) as [Fc [_ [Nc Hc]]]. destruct (C1 i Hi) as [Fr [_ [Nr Hr]]].
  destruct (Sf i (listed_in t since i Hi)) as [[d Pre] Just].
  split; [exact Fr|]. split; [exact Fc|]. split; [exact Nr|]. split; [exact Nc|].
  intros e He NE NK. rewrite (Hr e He NE NK), (Hc e He NE NK). cbn [rs_idents rs_bugs s0 s1].
  rewrite (grown_ok c (t_users t) _ _ _ Gf). split.
  - intros [Hg|Hg]; [|now right]. destruct (Just _ Hg) as [Y|[Y|[e' [He' [NE' [Eq [P' K']]]]]]]; [now left|exfalso; now apply (ev_id_not_iid i e (Dj i Hi))|].
    assert (e' = e) by (apply (ev_id_inj i e' e (Dj i Hi)); auto). subst e'. right. destruct K' as [K'|K']; [now split|contradiction].
  - intros [Hg|Hg]; [|now right]. left. rewrite Pre, gids_app. apply in_or_app. now left. Qed.

(* ------------------------------------------------------------------ the cursor; validity *)

Lemma cursor_on_error c t p full now fault idents bugs cursor :
  let o := run_round c t p full now fault idents bugs cursor in
  has_error (out_res o) = true -> out_stored o = false /\ out_cursor o = cursor.
Proof. cbn zeta. unfold run_round. destruct (import_all c t p _ _) as [s done]. cbn [out_res out_stored out_cursor]. intros ->. now split. Qed.

Lemma failure_reported c t p (full : bool) now q idents bugs cursor : c_list_error c = true ->
  rs_fault (fst (import_all c t p (if full then None else cursor) (mkrs idents bugs [] [] (Some q)))) = None ->
  let o := run_round c t p full now (Some q) idents bugs cursor in
  has_error (out_res o) = true /\ out_stored o = false /\ out_cursor o = cursor.
Proof. intros LE Used. cbn zeta. unfold run_round.
  pose proof (import_all_facts c t p (if full then None else cursor) (mkrs idents bugs [] [] (Some q)) LE) as H. cbn zeta in H.
  destruct (import_all c t p _ _) as [s done]. cbn [fst snd] in *. destruct H as [_ [_ [K _]]].
  assert (E : has_error (rs_res s) = true) by (apply K; split; [reflexivity|unfold pending; now rewrite Used]).
  cbn [out_res out_stored out_cursor]. rewrite E. auto. Qed.

Lemma valid_after c t p since s : c_dedupe_labels c = true -> wf_tracker t -> bugs_ok c t (rs_bugs s) ->
  forall i, In i (t_issues t) -> Forall (fun o => op_valid c o = true) (ops_of (i_iid i) (rs_bugs (fst (import_all c t p since s)))).
Proof. intros Dd W BO i Hi.
  pose proof (import_all_sound c t p since s (rs_idents s) Dd W BO (grown_refl _ _ _)) as [_ [B _]].
  unfold ops_of. destruct (find_bug (i_iid i) _) as [b|] eqn:FB; [|constructor]. now apply (B i Hi b FB). Qed.

(* ------------------------------------------------------------------ the repairs that followed the audit of the unchanged tree *)

(* following X-Next-Page (or X-Total-Pages when the server sends it): a listing without failure returns every item *)
Lemma listing_complete {A} c (mk : nat -> req) p (l : list A) s : paging_ok c p -> rs_fault s = None ->
  snd (fst (fetch_all c mk p l s)) = l /\ snd (fetch_all c mk p l s) = false.
Proof. intros Hp F. destruct (fetch_all_clean c mk p l s Hp F) as [s' [E _]]. now rewrite E. Qed.

(* the author of an event whose user was deleted (id 0) is always there, and no request is made for it *)
Lemma deleted_user_author c us s : c_ghost c = true ->
  let r := ensure_person c us 0 s in
  snd r = true /\ rs_reqs (fst r) = rs_reqs s /\ rs_fault (fst r) = rs_fault s /\ In 0 (rs_idents (fst r)).
Proof. intros G. cbn zeta. unfold ensure_person, is_ghost. rewrite G. cbn [andb N.eqb].
  destruct (memN 0 (rs_idents s)) eqn:M; cbn.
  - repeat split. now apply memN_In.
  - repeat split. apply in_or_app. right. now left. Qed.
Lemma deleted_user_ok c us idents : c_ghost c = true -> person_ok c us idents 0 = true.
Proof. intros G. unfold person_ok, resolvable, is_ghost. rewrite G. cbn. apply orb_true_r. Qed.

(* a new title is never refused, unless nothing at all is left of it *)
Lemma note_title_valid c t : c_clean_title c = true -> c_empty_text c = true -> title_valid c placeholder = true ->
  cleanup1 t <> [] -> title_valid c (note_title c t) = true.
Proof. intros Ct Ce Pv Ne. unfold note_title. rewrite Ct, Ce. cbn [andb].
  destruct (text_eqb (cleanup1 t) []) eqn:Q; [apply text_eqb_eq in Q; contradiction|]. cbn [negb andb].
  destruct (text_empty (c_graphic c) (cleanup1 t)) eqn:E; [exact Pv|]. unfold title_valid. rewrite E. cbn. apply cleanup1_safe1. Qed.

(* the create operation of an issue is never refused: no issue stops the run because of its title *)
Lemma issue_title_valid c iss : c_empty_text c = true -> title_valid c placeholder = true -> op_valid c (create_op c iss) = true.
Proof. intros Ce Pv. cbn. unfold issue_title. rewrite Ce. cbn [andb].
  destruct (text_empty (c_graphic c) (cleanup1 (i_title iss))) eqn:E.
  - rewrite Pv. apply cleanup_safe.
  - unfold title_valid. rewrite E, cleanup1_safe1. apply cleanup_safe. Qed.

Lemma no_stop_authors c us l idents bugs : c_empty_text c = true -> title_valid c placeholder = true ->
  (forall i, In i l -> person_ok c us idents (i_author i) = true) -> no_stop c us l idents bugs.
Proof. intros Ce Pv H i Hi. split; [now apply H|]. right. now apply issue_title_valid. Qed.

(* a label event names no label (and is skipped) or its label is valid *)
Lemma label_skipped_or_valid c e : c_empty_text c = true -> no_label c e = true \/ label_valid c (label_name e) = true.
Proof. intros Ce. unfold no_label, label_valid. rewrite Ce. cbn [andb].
  destruct (text_empty (c_graphic c) (label_name e)); [now left|right]. cbn.
  destruct e; try reflexivity. cbn. apply cleanup1_safe1. Qed.

(* a user is refused only when neither the name nor the login has a visible character *)
Lemma ident_valid_clean c u : c_clean_ident c = true ->
  ident_valid c u = negb (text_empty (c_graphic c) (cleanup1 (u_name u)) && text_empty (c_graphic c) (cleanup1 (u_login u))).
Proof. intros Ci. unfold ident_valid, user_text. rewrite Ci. rewrite !cleanup1_safe1. now rewrite !andb_true_r. Qed.
