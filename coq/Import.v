(* Import.v — executable model of the GitLab importer:
     bridge/gitlab/import.go (ImportAll, ensureIssue, ensureIssueEvent, ensurePerson),
     bridge/gitlab/gitlab_api.go (Issues, Notes, LabelEvents, StateEvents: pagination, what happens when a request fails),
     bridge/gitlab/event.go (NoteEvent.Kind, getNewTitle, SortedEvents),
     bridge/core/bridge.go (ImportAll / ImportAllSince: the 'lastImportTime' cursor),
     util/text (Cleanup, CleanupOneLine, Safe, SafeOneLine, Empty) and the Validate functions of the bug operations.
   Definitions only; lemmas are in ImportText.v / ImportProofs.v.  Text is a list of code points. *)
From Coq Require Import List Arith NArith Bool Ascii String.
Import ListNotations.
Local Open Scope N_scope.

Definition text := list N.

Fixpoint text_eqb (a b : text) : bool :=
  match a, b with
  | [], [] => true
  | x :: a', y :: b' => (x =? y) && text_eqb a' b'
  | _, _ => false
  end.

Definition lit (s : string) : text := map (fun c => N_of_ascii c) (list_ascii_of_string s).
Arguments lit s%string.

(* ------------------------------------------------------------------ util/text *)

(* unicode.IsControl *)
Definition is_control (r : N) : bool := (r <=? 31) || ((127 <=? r) && (r <=? 159)).
(* '\t' '\n' '\r' *)
Definition is_tnr (r : N) : bool := (r =? 9) || (r =? 10) || (r =? 13).
(* unicode.IsSpace: the 25 code points *)
Definition is_space (r : N) : bool :=
  ((9 <=? r) && (r <=? 13)) || (r =? 32) || (r =? 133) || (r =? 160) || (r =? 5760) ||
  ((8192 <=? r) && (r <=? 8202)) || (r =? 8232) || (r =? 8233) || (r =? 8239) || (r =? 8287) || (r =? 12288).

Fixpoint drop_while (f : N -> bool) (l : text) : text :=
  match l with [] => [] | x :: t => if f x then drop_while f t else l end.

(* strings.TrimSpace *)
Definition trim_space (l : text) : text := rev (drop_while is_space (rev (drop_while is_space l))).

(* strings.Replace(text, "\r\n", "\n", -1) *)
Fixpoint crlf (l : text) : text :=
  match l with
  | [] => []
  | x :: t => match t with
              | y :: t' => if (x =? 13) && (y =? 10) then 10 :: crlf t' else x :: crlf t
              | [] => [x]
              end
  end.

Definition keep_multi (r : N) : bool := is_tnr r || negb (is_control r).
Definition keep_one (r : N) : bool := negb (is_control r).

(* text.Cleanup / text.CleanupOneLine *)
Definition cleanup (l : text) : text := trim_space (filter keep_multi (crlf l)).
Definition cleanup1 (l : text) : text := trim_space (filter keep_one l).

(* text.Safe / text.SafeOneLine *)
Definition safe (l : text) : bool := forallb keep_multi l.
Definition safe1 (l : text) : bool := forallb keep_one l.
(* text.Empty, for a given unicode.IsGraphic *)
Definition text_empty (graphic : N -> bool) (l : text) : bool := forallb (fun r => is_space r || negb (graphic r)) l.

(* ------------------------------------------------------------------ the tracker (what the GitLab API serves) *)

Record user := mkuser { u_id : N; u_name : text; u_login : text; u_email : text; u_gone : bool (* GET /users/:id answers 404 *) }.
Record note := mknote { n_id : N; n_author : N; n_system : bool; n_body : text; n_created : N; n_updated : N }.
Record labelev := mklab { l_id : N; l_user : N; l_action : N (* 0 add, 1 remove, other: unknown *); l_name : text; l_created : N }.
Record stateev := mkst { s_id : N; s_user : N; s_state : N (* 0 closed, 1 opened/reopened, other: unknown *); s_created : N }.
Record issue := mkissue { i_iid : N; i_author : N; i_created : N; i_updated : N; i_title : text; i_desc : text;
                          i_notes : list note; i_labels : list labelev; i_states : list stateev }.
Record tracker := mktracker { t_users : list user; t_issues : list issue }.

(* ------------------------------------------------------------------ what git-bug stores *)

Inductive opk :=
| OCreate (title msg : text)
| OComment (msg : text)
| OEdit (target : nat) (msg : text)       (* target: position, in the bug's operation list, of the operation that created the comment *)
| OTitle (title was : text)
| OStatus (closed : bool)
| OLabel (add : bool) (name : text).
Record op := mkop { o_gid : option N (* metadata gitlab-id *); o_author : N (* gitlab id of the author identity *); o_time : N; o_k : opk }.
Record bug := mkbug { b_iid : N; b_ops : list op }.

Inductive res := RBug (iid : N) | RIdent (uid : N) | RComment (iid : N) | RCommentEdit (iid : N) | RStatus (iid : N)
               | RTitle (iid : N) | RNothing (iid : N) | RError.
Inductive req := QIssues (page : nat) | QNotes (iid : N) (page : nat) | QLabels (iid : N) (page : nat) | QStates (iid : N) (page : nat) | QUser (uid : N).

Definition req_eqb (a b : req) : bool :=
  match a, b with
  | QIssues p, QIssues q => Nat.eqb p q
  | QNotes i p, QNotes j q => (i =? j) && Nat.eqb p q
  | QLabels i p, QLabels j q => (i =? j) && Nat.eqb p q
  | QStates i p, QStates j q => (i =? j) && Nat.eqb p q
  | QUser u, QUser v => u =? v
  | _, _ => false
  end.

(* the code variants (one flag per repair: the pinned tree has them all false), and the two facts of the environment the
   code depends on *)
Record cfg := mkcfg { c_dedupe_labels : bool;   (* label events test the gitlab-id lookup like every other event *)
                      c_list_error : bool;      (* a failing issue listing is relayed as an import error *)
                      c_clean_title : bool;     (* the new title of a title-change note goes through CleanupOneLine *)
                      c_clean_ident : bool;     (* name, e-mail and login of a user go through CleanupOneLine *)
                      c_empty_text : bool;      (* a title without visible character becomes the placeholder; a label event
                                                   that names no label is skipped *)
                      c_next_page : bool;       (* listings stop when X-Next-Page is absent (not when X-Page >= X-Total-Pages) *)
                      c_ghost : bool;           (* the events of a deleted user ("user": null, id 0) get a placeholder author *)
                      c_graphic : N -> bool;    (* unicode.IsGraphic *)
                      c_totals : bool }.        (* the server sends X-Total-Pages (GitLab does not above 10000 items) *)

(* the state of one import run *)
Record rs := mkrs { rs_idents : list N;        (* gitlab ids of the identities known locally *)
                    rs_bugs : list bug;
                    rs_res : list res;          (* ImportResult stream, in order *)
                    rs_reqs : list req;         (* requests sent, in the model's order *)
                    rs_fault : option req }.    (* the request that will fail (once) *)

Definition emit (r : res) (s : rs) : rs := mkrs (rs_idents s) (rs_bugs s) (rs_res s ++ [r]) (rs_reqs s) (rs_fault s).
Definition set_bugs (b : list bug) (s : rs) : rs := mkrs (rs_idents s) b (rs_res s) (rs_reqs s) (rs_fault s).
Definition add_ident (u : N) (s : rs) : rs := mkrs (rs_idents s ++ [u]) (rs_bugs s) (rs_res s) (rs_reqs s) (rs_fault s).

(* send a request: logged; fails iff it is the pending fault, which is then consumed *)
Definition send (q : req) (s : rs) : rs * bool :=
  let hit := match rs_fault s with Some f => req_eqb f q | None => false end in
  (mkrs (rs_idents s) (rs_bugs s) (rs_res s) (rs_reqs s ++ [q]) (if hit then None else rs_fault s), negb hit).

Fixpoint memN (x : N) (l : list N) : bool := match l with [] => false | y :: t => (x =? y) || memN x t end.

(* ------------------------------------------------------------------ event.go *)

Inductive evkind := KComment | KTitle | KDesc | KClosed | KReopened | KAddLabel | KRemoveLabel | KIgnored | KUnknown.

Fixpoint prefixb (p l : text) : bool :=
  match p, l with
  | [], _ => true
  | x :: p', y :: l' => (x =? y) && prefixb p' l'
  | _ :: _, [] => false
  end.

Definition note_kind (n : note) : evkind :=
  let b := n_body n in
  if negb (n_system n) then KComment
  else if text_eqb b (lit "closed") then KClosed
  else if text_eqb b (lit "reopened") then KReopened
  else if text_eqb b (lit "changed the description") then KDesc
  else if text_eqb b (lit "locked this issue") then KIgnored
  else if text_eqb b (lit "unlocked this issue") then KIgnored
  else if prefixb (lit "changed title from") b then KTitle
  else if prefixb (lit "changed due date to") b then KIgnored
  else if text_eqb b (lit "removed due date") then KIgnored
  else if prefixb (lit "assigned to @") b then KIgnored
  else if prefixb (lit "unassigned @") b then KIgnored
  else if prefixb (lit "changed milestone to %") b then KIgnored
  else if prefixb (lit "removed milestone") b then KIgnored
  else if prefixb (lit "mentioned in issue") b then KIgnored
  else if prefixb (lit "mentioned in merge request") b then KIgnored
  else if prefixb (lit "mentioned in commit") b then KIgnored
  else KUnknown.

(* getNewTitle: strings.Split(diff, "** to **")[1], drop "{+" and "+}", TrimSuffix "**".
   None: fewer than two pieces (the pinned tree panics; the repaired one reports an empty title) *)
Fixpoint after_first (sep l : text) : option text :=
  if prefixb sep l then Some (skipn (List.length sep) l)
  else match l with [] => None | _ :: t => after_first sep t end.
Fixpoint before_first (sep l : text) : text :=
  if prefixb sep l then []
  else match l with [] => [] | x :: t => x :: before_first sep t end.
Fixpoint remove_pair (a b : N) (l : text) : text :=
  match l with
  | [] => []
  | x :: t => match t with
              | y :: t' => if (x =? a) && (y =? b) then remove_pair a b t' else x :: remove_pair a b t
              | [] => [x]
              end
  end.
Definition trim_suffix2 (a b : N) (l : text) : text :=
  match rev l with y :: x :: r => if (x =? a) && (y =? b) then rev r else l | _ => l end.

Definition sep_to : text := lit "** to **".
Definition new_title (body : text) : option text :=
  match after_first sep_to body with
  | None => None
  | Some rest =>
      let piece := before_first sep_to rest in
      Some (trim_suffix2 42 42 (remove_pair 43 125 (remove_pair 123 43 piece)))
  end.

Inductive event := ENote (n : note) | ELabel (l : labelev) | EState (s : stateev) | EError.

Definition far_future : N := 4611686018427387904. (* ErrorEvent.Time = time.Now(): after every tracker time *)
Definition ev_time (e : event) : N :=
  match e with ENote n => n_created n | ELabel l => l_created l | EState s => s_created s | EError => far_future end.
Definition ev_id (e : event) : N :=
  match e with ENote n => n_id n | ELabel l => l_id l | EState s => s_id s | EError => 0 end.
Definition ev_user (e : event) : N :=
  match e with ENote n => n_author n | ELabel l => l_user l | EState s => s_user s | EError => 0 end.
Definition ev_kind (e : event) : evkind :=
  match e with
  | ENote n => note_kind n
  | ELabel l => if l_action l =? 0 then KAddLabel else if l_action l =? 1 then KRemoveLabel else KUnknown
  | EState s => if s_state s =? 0 then KClosed else if s_state s =? 1 then KReopened else KUnknown
  | EError => KUnknown
  end.

(* SortedEvents: repeatedly take, among the heads of the three streams, the earliest one; on equal times the first stream wins *)
Definition head_time (l : list event) : option N := match l with [] => None | e :: _ => Some (ev_time e) end.
Definition earlier (a : option N) (b : option N) : bool := (* is head a strictly before the current best b *)
  match a, b with Some x, Some y => x <? y | Some _, None => true | None, _ => false end.

Fixpoint merge3 (fuel : nat) (a b c : list event) : list event :=
  match fuel with
  | O => []
  | S f =>
      let best0 := head_time a in
      let pick_b := earlier (head_time b) best0 in
      let best1 := if pick_b then head_time b else best0 in
      let pick_c := earlier (head_time c) best1 in
      if pick_c then match c with e :: c' => e :: merge3 f a b c' | [] => [] end
      else if pick_b then match b with e :: b' => e :: merge3 f a b' c | [] => [] end
      else match a with e :: a' => e :: merge3 f a' b c | [] => [] end
  end.
Definition sorted_events (a b c : list event) : list event := merge3 (List.length a + List.length b + List.length c) a b c.

(* ------------------------------------------------------------------ gitlab_api.go: paginated listings *)

(* pages of size p (p >= 1): page k (1-based) *)
Definition page_of {A} (p : nat) (k : nat) (l : list A) : list A := firstn p (skipn ((k - 1) * p) l).
Definition npages {A} (p : nat) (l : list A) : nat := Nat.max 1 ((List.length l + p - 1) / p).

(* fetch pages k, k+1, ... of l; the request of page j is mk j. A failing request ends the listing: (items, failed) *)
(* was page k the last one? X-Page = k, X-Total-Pages = npages (0 when the header is not sent), X-Next-Page = k+1, absent
   on the last page. Repaired: no next page. Pinned: resp.CurrentPage >= resp.TotalPages *)
Definition last_page {A} (c : cfg) (p : nat) (l : list A) (k : nat) : bool :=
  if c_next_page c then Nat.leb (npages p l) k
  else Nat.leb (if c_totals c then npages p l else O) k.

Fixpoint fetch_pages {A} (c : cfg) (fuel : nat) (mk : nat -> req) (p : nat) (l : list A) (k : nat) (s : rs) : rs * list A * bool :=
  match fuel with
  | O => (s, [], false)
  | S f =>
      let '(s1, ok) := send (mk k) s in
      if negb ok then (s1, [], true)
      else if last_page c p l k then (s1, page_of p k l, false)
      else let '(s2, rest, failed) := fetch_pages c f mk p l (S k) s1 in (s2, page_of p k l ++ rest, failed)
  end.
Definition fetch_all {A} (c : cfg) (mk : nat -> req) (p : nat) (l : list A) (s : rs) : rs * list A * bool :=
  fetch_pages c (npages p l) mk p l 1 s.

(* ------------------------------------------------------------------ import.go *)

Fixpoint find_user (us : list user) (uid : N) : option user :=
  match us with [] => None | u :: t => if u_id u =? uid then Some u else find_user t uid end.

(* identity.version.Validate on what ensurePerson passes (the avatar url is empty in the simulated tracker) *)
Definition user_text (c : cfg) (t : text) : text := if c_clean_ident c then cleanup1 t else t.
Definition ident_valid (c : cfg) (u : user) : bool :=
  let name := user_text c (u_name u) in let login := user_text c (u_login u) in let email := user_text c (u_email u) in
  negb (text_empty (c_graphic c) name && text_empty (c_graphic c) login) &&
  safe1 name && safe1 login && safe1 email.

(* the author of a label or state event whose user was deleted: id 0, nobody to ask the API for *)
Definition is_ghost (c : cfg) (uid : N) : bool := c_ghost c && (uid =? 0).

(* ensurePerson: known locally, or (the deleted user) created without any request, or fetched and created. false = error *)
Definition ensure_person (c : cfg) (us : list user) (uid : N) (s : rs) : rs * bool :=
  if memN uid (rs_idents s) then (s, true)
  else if is_ghost c uid then (emit (RIdent uid) (add_ident uid s), true)
  else let '(s1, ok) := send (QUser uid) s in
       if negb ok then (s1, false)
       else match find_user us uid with
            | None => (s1, false)
            | Some u => if u_gone u then (s1, false)
                        else if ident_valid c u then (emit (RIdent uid) (add_ident uid s1), true)
                        else (s1, false)
            end.

(* ResolveOperationWithMetadata("gitlab-id", id) *)
Inductive lookup := LNone | LOne (pos : nat) | LMany.
Definition gid_is (g : N) (o : op) : bool := match o_gid o with Some x => x =? g | None => false end.
Fixpoint positions (g : N) (ops : list op) (i : nat) : list nat :=
  match ops with [] => [] | o :: t => if gid_is g o then i :: positions g t (S i) else positions g t (S i) end.
Definition resolve (g : N) (ops : list op) : lookup :=
  match positions g ops 0 with [] => LNone | [p] => LOne p | _ => LMany end.

(* the comment created by the operation at position p (Snapshot.SearchCommentByOpId): its current text, or None if that
   operation created no comment *)
Definition creates_comment (o : op) : option text :=
  match o_k o with OCreate _ m => Some m | OComment m => Some m | _ => None end.
Fixpoint last_edit (p : nat) (ops : list op) (cur : text) : text :=
  match ops with
  | [] => cur
  | o :: t => match o_k o with
              | OEdit q m => if Nat.eqb p q then last_edit p t m else last_edit p t cur
              | _ => last_edit p t cur
              end
  end.
Definition comment_text (ops : list op) (p : nat) : option text :=
  match nth_error ops p with
  | Some o => match creates_comment o with Some m => Some (last_edit p ops m) | None => None end
  | None => None
  end.

(* the title an OTitle operation records as the previous one *)
Fixpoint cur_title (ops : list op) (cur : text) : text :=
  match ops with
  | [] => cur
  | o :: t => match o_k o with OTitle x _ => cur_title t x | OCreate x _ => cur_title t x | _ => cur_title t cur end
  end.

Definition title_valid (c : cfg) (t : text) : bool := negb (text_empty (c_graphic c) t) && safe1 t.

(* emptyTitlePlaceholder, for a title without any visible character *)
Definition placeholder : text := lit "<empty string>".
(* ensureIssue: the title of a new bug *)
Definition issue_title (c : cfg) (iss : issue) : text :=
  let t := cleanup1 (i_title iss) in
  if c_empty_text c && text_empty (c_graphic c) t then placeholder else t.
(* NoteEvent.Title of a title-change note, and what ensureIssueEvent makes of it (no title at all is left as it is:
   the note was not the expected diff) *)
Definition note_title (c : cfg) (t : text) : text :=
  let t1 := if c_clean_title c then cleanup1 t else t in
  if c_empty_text c && negb (text_eqb t1 []) && text_empty (c_graphic c) t1 then placeholder else t1.
Definition new_title_c (c : cfg) (body : text) : option text :=
  match new_title body with Some t => Some (note_title c t) | None => None end.
Definition label_valid (c : cfg) (t : text) : bool := negb (text_empty (c_graphic c) t) && safe1 t.

(* Validate of the operations *)
Definition op_valid (c : cfg) (o : op) : bool :=
  match o_k o with
  | OCreate t m => title_valid c t && safe m
  | OComment m => safe m
  | OEdit _ m => safe m
  | OTitle t w => title_valid c t && safe1 w
  | OStatus _ => true
  | OLabel _ n => label_valid c n
  end.

(* ensureIssueEvent, once the gitlab-id lookup gave at most one operation and the author's identity is there:
   nothing to do, an error, or an operation to append (with the result to emit) *)
Inductive action := ANone | AError | AAppend (o : op) (r : option res).

Definition note_body (e : event) : text := match e with ENote n => n_body n | _ => [] end.
Definition note_updated (e : event) : N := match e with ENote n => n_updated n | _ => 0 end.
Definition label_name (e : event) : text := match e with ELabel l => cleanup1 (l_name l) | _ => [] end.

(* the label was deleted ("label": null gives an empty name) or its name has no visible character *)
Definition no_label (c : cfg) (e : event) : bool := c_empty_text c && text_empty (c_graphic c) (label_name e).

Definition decide (c : cfg) (iss : issue) (ops : list op) (e : event) : action :=
  let iid := i_iid iss in
  let g := ev_id e in
  let r := resolve g ops in
  let found := match r with LOne _ => true | _ => false end in
  let mk k := mkop (Some g) (ev_user e) (ev_time e) k in
  match ev_kind e with
  | KClosed => if found then ANone else AAppend (mk (OStatus true)) (Some (RStatus iid))
  | KReopened => if found then ANone else AAppend (mk (OStatus false)) (Some (RStatus iid))
  | KDesc =>
      let d := cleanup (i_desc iss) in
      match comment_text ops 0 with
      | None => AError (* unreachable: position 0 is the create operation *)
      | Some first =>
          if negb found && negb (text_eqb d first)
          then AAppend (mkop (Some g) (ev_user e) (note_updated e) (OEdit 0 d)) (Some (RTitle iid))
          else ANone
      end
  | KComment =>
      let m := cleanup (note_body e) in
      match r with
      | LOne p =>
          match comment_text ops p with
          | None => AError     (* the operation with that gitlab-id created no comment *)
          | Some cur => if text_eqb cur m then ANone
                        else AAppend (mkop None (ev_user e) (note_updated e) (OEdit p m)) (Some (RCommentEdit iid))
          end
      | _ => AAppend (mk (OComment m)) (Some (RComment iid))
      end
  | KTitle =>
      if found then ANone
      else match new_title_c c (note_body e) with
           | None => AError
           | Some t => AAppend (mk (OTitle t (cur_title ops []))) (Some (RTitle iid))
           end
  | KAddLabel => if c_dedupe_labels c && found then ANone else if no_label c e then ANone else AAppend (mk (OLabel true (label_name e))) None
  | KRemoveLabel => if c_dedupe_labels c && found then ANone else if no_label c e then ANone else AAppend (mk (OLabel false (label_name e))) None
  | KIgnored => ANone
  | KUnknown => AError
  end.

(* the operation list after ensureIssueEvent; ok: the author's identity could be ensured *)
Definition step (c : cfg) (iss : issue) (ok : bool) (ops : list op) (e : event) : list op :=
  match e with
  | EError => ops
  | _ => match resolve (ev_id e) ops with
         | LMany => ops
         | _ => if ok then match decide c iss ops e with
                           | AAppend o _ => if op_valid c o then ops ++ [o] else ops
                           | _ => ops
                           end
                else ops
         end
  end.

Definition ensure_event (c : cfg) (us : list user) (iss : issue) (st : list op * rs) (e : event) : list op * rs :=
  let '(ops, s) := st in
  match e with
  | EError => (ops, emit RError s)
  | _ => match resolve (ev_id e) ops with
         | LMany => (ops, emit RError s)
         | _ => let '(s1, ok) := ensure_person c us (ev_user e) s in
                (step c iss ok ops e,
                 if ok then match decide c iss ops e with
                            | ANone => s1
                            | AError => emit RError s1
                            | AAppend o r => if op_valid c o then match r with Some x => emit x s1 | None => s1 end
                                             else emit RError s1
                            end
                 else emit RError s1)
         end
  end.

Fixpoint find_bug (iid : N) (bs : list bug) : option bug :=
  match bs with [] => None | b :: t => if b_iid b =? iid then Some b else find_bug iid t end.
Fixpoint put_bug (b : bug) (bs : list bug) : list bug :=
  match bs with
  | [] => [b]
  | x :: t => if b_iid x =? b_iid b then b :: t else x :: put_bug b t
  end.

Definition with_error (evs : list event) (failed : bool) : list event := if failed then evs ++ [EError] else evs.

(* one issue of the listing. false = the run stops here (ImportAll returns) *)
Definition import_issue (c : cfg) (us : list user) (p : nat) (iss : issue) (s : rs) : rs * bool :=
  let iid := i_iid iss in
  let '(s1, ok) := ensure_person c us (i_author iss) s in
  if negb ok then (emit RError s1, false)
  else
    let found := find_bug iid (rs_bugs s1) in
    let created :=
        match found with
        | Some b => Some (b_ops b, s1)
        | None =>
            let o := mkop (Some iid) (i_author iss) (i_created iss) (OCreate (issue_title c iss) (cleanup (i_desc iss))) in
            if op_valid c o then Some ([o], emit (RBug iid) (set_bugs (put_bug (mkbug iid [o]) (rs_bugs s1)) s1)) else None
        end in
    match created with
    | None => (emit RError s1, false)
    | Some (ops0, s2) =>
        let '(s3, ns, fn) := fetch_all c (QNotes iid) p (i_notes iss) s2 in
        let '(s4, ls, fl) := fetch_all c (QLabels iid) p (i_labels iss) s3 in
        let '(s5, ss, fs) := fetch_all c (QStates iid) p (i_states iss) s4 in
        let evs := sorted_events (with_error (map ENote ns) fn) (with_error (map ELabel ls) fl) (with_error (map EState ss) fs) in
        let '(ops1, s6) := fold_left (ensure_event c us iss) evs (ops0, s5) in
        if Nat.eqb (List.length ops1) (List.length ops0) then (emit (RNothing iid) s6, true)
        else (set_bugs (put_bug (mkbug iid ops1) (rs_bugs s6)) s6, true)
    end.

Fixpoint import_issues (c : cfg) (us : list user) (p : nat) (l : list issue) (s : rs) : rs * bool :=
  match l with
  | [] => (s, true)
  | i :: t => let '(s1, go) := import_issue c us p i s in if go then import_issues c us p t s1 else (s1, false)
  end.

(* Issues(): updated_after filter, ascending creation order = the tracker's order *)
Definition listed (t : tracker) (since : option N) : list issue :=
  match since with None => t_issues t | Some x => filter (fun i => x <=? i_updated i) (t_issues t) end.

(* ImportAll: the issues of the pages that could be fetched; a failing page ends the listing.
   The listing goroutine is one page ahead of the importer, which the model ignores except through the request log. *)
Definition import_all (c : cfg) (t : tracker) (p : nat) (since : option N) (s : rs) : rs * bool (* completed *) :=
  let '(s1, l, failed) := fetch_all c QIssues p (listed t since) s in
  let '(s2, go) := import_issues c (t_users t) p l s1 in
  if go && failed && c_list_error c then (emit RError s2, true) else (s2, go).

Definition has_error (l : list res) : bool := existsb (fun r => match r with RError => true | _ => false end) l.

(* Bridge.ImportAll / ImportAllSince: resume from the stored cursor unless a full import is asked for;
   the cursor is stored (five seconds before the start of the run) only if no error result was relayed *)
Record outcome := mkout { out_idents : list N; out_bugs : list bug; out_cursor : option N; out_res : list res;
                          out_reqs : list req; out_stored : bool; out_completed : bool }.

Definition run_round (c : cfg) (t : tracker) (p : nat) (full : bool) (now : N) (fault : option req)
                     (idents : list N) (bugs : list bug) (cursor : option N) : outcome :=
  let since := if full then None else cursor in
  let '(s, completed) := import_all c t p since (mkrs idents bugs [] [] fault) in
  let stored := negb (has_error (rs_res s)) in
  mkout (rs_idents s) (rs_bugs s) (if stored then Some (now - 5) else cursor) (rs_res s) (rs_reqs s) stored completed.

Definition fixed (graphic : N -> bool) (totals : bool) : cfg := mkcfg true true true true true true true graphic totals.
Definition pinned (graphic : N -> bool) (totals : bool) : cfg := mkcfg false false false false false false false graphic totals.
