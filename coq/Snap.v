From Coq Require Import List Arith NArith Bool.
Import ListNotations.
Local Open Scope N_scope.

(* abstract values: strings are ranks (order-preserving for labels); an op id is (head14, full) *)
Definition opid := (N * N)%type.
Definition tgt_match (a b : opid) : bool := N.eqb (fst a) (fst b).       (* CombineIds keeps 14 chars of the secondary id: what a
                                                                           combined id can tell apart; NOT how an edit finds its comment (SnapTrunc.v) *)
Definition id_eqb (a b : opid) : bool := N.eqb (snd a) (snd b).

Inductive op :=
| OCreate (id : opid) (au : N) (title msg : N) (files : list N)
| OAddComment (id : opid) (au : N) (msg : N) (files : list N)
| OEditComment (id : opid) (au : N) (target : opid) (msg : N) (files : list N)
| OSetTitle (id : opid) (au : N) (title : N)
| OSetStatus (id : opid) (au : N) (st : N)
| OLabelChange (id : opid) (au : N) (added removed : list N)
| OSetMetadata (id : opid) (au : N) (target : opid) (kv : list (N * N))
| ONoOp (id : opid) (au : N).

Definition op_id (o : op) : opid := match o with
 | OCreate i _ _ _ _ | OAddComment i _ _ _ | OEditComment i _ _ _ _ | OSetTitle i _ _ | OSetStatus i _ _
 | OLabelChange i _ _ _ | OSetMetadata i _ _ _ | ONoOp i _ => i end.
Definition op_author (o : op) : N := match o with
 | OCreate _ a _ _ _ | OAddComment _ a _ _ | OEditComment _ a _ _ _ | OSetTitle _ a _ | OSetStatus _ a _
 | OLabelChange _ a _ _ | OSetMetadata _ a _ _ | ONoOp _ a => a end.

Record comment := { c_id : opid; c_author : N; c_msg : N; c_files : list N; c_edits : nat }.
Inductive titem := TComment (id : opid) | TOther (id : opid).
Record snapshot := { s_id : option opid; s_status : N; s_title : N; s_comments : list comment; s_labels : list N;
                     s_actors : list N; s_parts : list N; s_timeline : list titem;
                     s_ops : list opid; s_extra : list (opid * list (N * N)) (* extra metadata per op *) }.
Definition snap0 := {| s_id := None; s_status := 1; s_title := 0; s_comments := []; s_labels := []; s_actors := []; s_parts := [];
                       s_timeline := []; s_ops := []; s_extra := [] |}.

Definition add_once (a : N) (l : list N) : list N := if existsb (N.eqb a) l then l else l ++ [a].

Fixpoint insert_sorted (x : N) (l : list N) : list N :=
  match l with [] => [x] | y :: t => if N.leb x y then x :: l else y :: insert_sorted x t end.
Definition sortN (l : list N) := fold_right insert_sorted [] l.

(* the swap-remove of op_label_change.go, first match only (labels are duplicate-free, see DESIGN C10) *)
Fixpoint swap_remove (r : N) (l : list N) : list N :=
  match l with
  | [] => []
  | x :: t => if N.eqb x r then match rev t with [] => [] | lst :: _ => lst :: removelast t end else x :: swap_remove r t
  end.

Definition apply_labels (labels added removed : list N) : list N :=
  let l1 := fold_left (fun l a => if existsb (N.eqb a) l then l else l ++ [a]) added labels in
  let l2 := fold_left (fun l r => swap_remove r l) removed l1 in
  sortN l2.

Definition set_extra (tgt : opid) (kv : list (N * N)) (ex : list (opid * list (N * N))) : list (opid * list (N * N)) :=
  map (fun e => if id_eqb (fst e) tgt
                then (fst e, fold_left (fun m p => if existsb (fun q => N.eqb (fst q) (fst p)) m then m else m ++ [p]) kv (snd e))
                else e) ex.
(* only the first op with that id is targeted *)
Fixpoint set_extra_first (tgt : opid) (kv : list (N * N)) (ex : list (opid * list (N * N))) :=
  match ex with
  | [] => []
  | e :: t => if id_eqb (fst e) tgt
              then (fst e, fold_left (fun m p => if existsb (fun q => N.eqb (fst q) (fst p)) m then m else m ++ [p]) kv (snd e)) :: t
              else e :: set_extra_first tgt kv t
  end.

(* op_edit_comment.go: the comment and its timeline item are matched on the FULL id of the operation that created the
   comment (a comment item remembers it); other items are skipped *)
Definition timeline_target (tl : list titem) (t : opid) : option titem :=
  find (fun it => match it with TComment i => id_eqb i t | TOther _ => false end) tl.

Definition upd_comment (t : opid) (msg : N) (files : list N) (cs : list comment) : list comment :=
  (* first comment created by the operation with that id *)
  (fix go (cs : list comment) := match cs with
     | [] => []
     | c :: r => if id_eqb (c_id c) t then {| c_id := c_id c; c_author := c_author c; c_msg := msg; c_files := files; c_edits := S (c_edits c) |} :: r
                 else c :: go r end) cs.

Definition apply (s : snapshot) (o : op) : snapshot :=
  let s' :=
  match o with
  | OCreate i au title msg files =>
      match s_id s with
      | Some j => if negb (id_eqb j i) then s else
                 {| s_id := Some i; s_status := s_status s; s_title := title;
                   s_comments := [{| c_id := i; c_author := au; c_msg := msg; c_files := files; c_edits := 0 |}];
                   s_labels := s_labels s; s_actors := add_once au (s_actors s); s_parts := add_once au (s_parts s);
                   s_timeline := [TComment i]; s_ops := s_ops s; s_extra := s_extra s |}
      | None => {| s_id := Some i; s_status := s_status s; s_title := title;
                   s_comments := [{| c_id := i; c_author := au; c_msg := msg; c_files := files; c_edits := 0 |}];
                   s_labels := s_labels s; s_actors := add_once au (s_actors s); s_parts := add_once au (s_parts s);
                   s_timeline := [TComment i]; s_ops := s_ops s; s_extra := s_extra s |}
      end
  | OAddComment i au msg files =>
      {| s_id := s_id s; s_status := s_status s; s_title := s_title s;
         s_comments := s_comments s ++ [{| c_id := i; c_author := au; c_msg := msg; c_files := files; c_edits := 0 |}];
         s_labels := s_labels s; s_actors := add_once au (s_actors s); s_parts := add_once au (s_parts s);
         s_timeline := s_timeline s ++ [TComment i]; s_ops := s_ops s; s_extra := s_extra s |}
  | OEditComment i au t msg files =>
      (* the target must be the full id of an operation that created a comment *)
      if negb (existsb (fun c => id_eqb (c_id c) t) (s_comments s)) then s else
      match timeline_target (s_timeline s) t with
      | Some (TComment _) =>
          {| s_id := s_id s; s_status := s_status s; s_title := s_title s; s_comments := upd_comment t msg files (s_comments s);
             s_labels := s_labels s; s_actors := add_once au (s_actors s); s_parts := s_parts s;
             s_timeline := s_timeline s; s_ops := s_ops s; s_extra := s_extra s |}
      | _ => s
      end
  | OSetTitle i au title =>
      {| s_id := s_id s; s_status := s_status s; s_title := title; s_comments := s_comments s; s_labels := s_labels s;
         s_actors := add_once au (s_actors s); s_parts := s_parts s; s_timeline := s_timeline s ++ [TOther i]; s_ops := s_ops s; s_extra := s_extra s |}
  | OSetStatus i au st =>
      {| s_id := s_id s; s_status := st; s_title := s_title s; s_comments := s_comments s; s_labels := s_labels s;
         s_actors := add_once au (s_actors s); s_parts := s_parts s; s_timeline := s_timeline s ++ [TOther i]; s_ops := s_ops s; s_extra := s_extra s |}
  | OLabelChange i au added removed =>
      {| s_id := s_id s; s_status := s_status s; s_title := s_title s; s_comments := s_comments s;
         s_labels := apply_labels (s_labels s) added removed;
         s_actors := add_once au (s_actors s); s_parts := s_parts s; s_timeline := s_timeline s ++ [TOther i]; s_ops := s_ops s; s_extra := s_extra s |}
  | OSetMetadata i au t kv =>
      {| s_id := s_id s; s_status := s_status s; s_title := s_title s; s_comments := s_comments s; s_labels := s_labels s;
         s_actors := s_actors s; s_parts := s_parts s; s_timeline := s_timeline s; s_ops := s_ops s; s_extra := set_extra_first t kv (s_extra s) |}
  | ONoOp _ _ => s
  end in
  {| s_id := s_id s'; s_status := s_status s'; s_title := s_title s'; s_comments := s_comments s'; s_labels := s_labels s';
     s_actors := s_actors s'; s_parts := s_parts s'; s_timeline := s_timeline s';
     s_ops := s_ops s' ++ [op_id o]; s_extra := s_extra s' ++ [(op_id o, [])] |}.

(* Bug.Compile seeds the snapshot id with the id of the first operation *)
Definition seed (ops : list op) : snapshot :=
  {| s_id := option_map op_id (hd_error ops); s_status := 1; s_title := 0; s_comments := []; s_labels := []; s_actors := []; s_parts := [];
     s_timeline := []; s_ops := []; s_extra := [] |}.
Definition compile (ops : list op) : snapshot := fold_left apply ops (seed ops).
