(* Crash safety of the clock rebuild: proofs. *)
From Coq Require Import List NArith Bool Lia Arith.
Import ListNotations.
From GB Require Import Rebuild.
Local Open Scope N_scope.

(* ---- upd ---- *)
Lemma length_upd {A} i (f : A -> A) l : length (upd i f l) = length l.
Proof. revert i; induction l as [|x r IH]; intros [|i]; simpl; auto. Qed.

Lemma nth_upd {A} i j (f : A -> A) l d :
  nth j (upd i f l) d = if Nat.eqb i j && Nat.ltb i (length l) then f (nth j l d) else nth j l d.
Proof.
  revert i j; induction l as [|x r IH]; intros i j.
  - destruct i, j; simpl; try reflexivity. unfold Nat.ltb; simpl. rewrite andb_false_r; reflexivity.
  - destruct i, j; simpl; try reflexivity. rewrite IH. unfold Nat.ltb; simpl. reflexivity.
Qed.

Lemma upd_app_len {A} (pre : list A) x r f : upd (length pre) f (pre ++ x :: r) = pre ++ f x :: r.
Proof. induction pre as [|y p IH]; simpl; [reflexivity|now rewrite IH]. Qed.

(* ---- lengths ---- *)
Lemma length_apply d a : length (clocks (apply d a)) = length (clocks d).
Proof. destruct a; simpl; rewrite ?length_upd; reflexivity. Qed.
Lemma length_run l : forall d, length (clocks (run d l)) = length (clocks d).
Proof. induction l as [|a l IH]; intros d; [reflexivity|]. change (run d (a :: l)) with (run (apply d a) l). rewrite IH. apply length_apply. Qed.

Lemma run_app d l1 l2 : run d (l1 ++ l2) = run (run d l1) l2.
Proof. unfold run. apply fold_left_app. Qed.

(* ---- the drop phase ---- *)
Definition unbreak (c : cfile) : cfile := match c with Broken => Missing | c => c end.

Lemma run_drops m : forall cl pre,
  run (mkdisk m (pre ++ cl)) (drops_from (length pre) cl) = mkdisk m (pre ++ map unbreak cl).
Proof.
  induction cl as [|c r IH]; intros pre; [reflexivity|].
  assert (Hstep : forall c', run (mkdisk m (pre ++ c' :: r)) (drops_from (S (length pre)) r) = mkdisk m (pre ++ c' :: map unbreak r)).
  { intros c'. replace (S (length pre)) with (length (pre ++ [c'])) by (rewrite app_length; simpl; lia).
    replace (pre ++ c' :: r) with ((pre ++ [c']) ++ r) by (rewrite <- app_assoc; reflexivity).
    rewrite IH. rewrite <- app_assoc. reflexivity. }
  destruct c; cbn [drops_from broken app map unbreak].
  - apply Hstep.
  - cbn [run fold_left apply marker clocks]. rewrite upd_app_len. apply Hstep.
  - apply Hstep.
Qed.

Definition is_drop (a : act) : Prop := match a with Drop _ => True | _ => False end.
Lemma drops_are_drops cl : forall k, Forall is_drop (drops_from k cl).
Proof. induction cl as [|c r IH]; intros k; simpl; [constructor|]. destruct (broken c); simpl; auto. constructor; [exact I|auto]. Qed.

Lemma Forall_firstn' {A} (P : A -> Prop) k : forall l, Forall P l -> Forall P (firstn k l).
Proof. induction k as [|k IH]; intros [|x l] H; simpl; auto. inversion H; subst. constructor; auto. Qed.

Lemma existsb_nonval_drop i : forall l, existsb nonval l = true -> existsb nonval (upd i (fun _ => Missing) l) = true.
Proof.
  induction i as [|i IH]; intros [|x r] H; simpl in *; try discriminate; auto.
  apply orb_true_iff in H. apply orb_true_iff. destruct H as [H|H]; [left; exact H|right; auto].
Qed.

Lemma drop_keeps_need d i : need d = true -> need (apply d (Drop i)) = true.
Proof.
  unfold need; simpl. intros H. apply orb_true_iff in H. apply orb_true_iff.
  destruct H as [H|H]; [left; exact H|right; apply existsb_nonval_drop; exact H].
Qed.

Lemma drops_keep_need l : forall d, Forall is_drop l -> need d = true -> need (run d l) = true.
Proof.
  induction l as [|a l IH]; intros d HF Hn; [exact Hn|]. inversion HF as [|? ? Ha HF']; subst.
  change (run d (a :: l)) with (run (apply d a) l).
  apply IH; [exact HF'|]. destruct a; try contradiction. apply drop_keeps_need; exact Hn.
Qed.

(* ---- the witness phase ---- *)
Definition is_tw (a : act) : Prop := match a with Touch _ | Wit _ _ => True | _ => False end.
Lemma tw_are_tw ws : Forall is_tw (flat_map tw ws).
Proof. induction ws as [|w ws IH]; simpl; [constructor|]. constructor; [exact I|]. constructor; [exact I|exact IH]. Qed.

Lemma tw_keep_marker l : forall d, Forall is_tw l -> marker (run d l) = marker d.
Proof.
  induction l as [|a l IH]; intros d HF; [reflexivity|]. inversion HF as [|? ? Ha HF']; subst.
  change (run d (a :: l)) with (run (apply d a) l).
  rewrite IH by exact HF'. destruct a; try contradiction; reflexivity.
Qed.

Definition nobrk (l : list cfile) : Prop := forall j, nth j l Missing <> Broken.

Lemma nobrk_unbreak l : nobrk (map unbreak l).
Proof.
  intros j. revert j. induction l as [|c r IH]; intros [|j]; simpl; try discriminate; auto.
  destruct c; discriminate.
Qed.

Lemma tw_step d i t j :
  nth j (clocks (apply (apply d (Touch i)) (Wit i t))) Missing =
  if Nat.eqb i j && Nat.ltb i (length (clocks d)) then wit t (touch (nth j (clocks d) Missing)) else nth j (clocks d) Missing.
Proof.
  cbn [apply clocks marker]. rewrite nth_upd, length_upd, nth_upd.
  destruct (Nat.eqb i j && Nat.ltb i (length (clocks d))); reflexivity.
Qed.

Lemma wit_touch_val c t : c <> Broken -> exists v, wit t (touch c) = Val v /\ t <= v /\ valof c <= v.
Proof.
  destruct c as [| |v]; intros H; [|contradiction|]; simpl.
  - exists (N.max 1 t). repeat split; lia.
  - exists (N.max v t). repeat split; lia.
Qed.

Lemma tw_run ws : forall d, nobrk (clocks d) -> (forall i t, In (i, t) ws -> (i < length (clocks d))%nat) ->
  nobrk (clocks (run d (flat_map tw ws))) /\
  (forall j, valof (nth j (clocks d) Missing) <= valof (nth j (clocks (run d (flat_map tw ws))) Missing)) /\
  (forall i t, In (i, t) ws -> t <= valof (nth i (clocks (run d (flat_map tw ws))) Missing)).
Proof.
  induction ws as [|[i t] ws IH]; intros d Hnb Hr.
  - simpl. repeat split; auto. intros j; lia. intros ? ? [].
  - cbn [flat_map tw fst snd app]. change (run d (Touch i :: Wit i t :: flat_map tw ws))
      with (run (apply (apply d (Touch i)) (Wit i t)) (flat_map tw ws)).
    set (d1 := apply (apply d (Touch i)) (Wit i t)).
    assert (Hlen : length (clocks d1) = length (clocks d)) by (unfold d1; rewrite !length_apply; reflexivity).
    assert (Hi : (i < length (clocks d))%nat) by (apply (Hr i t); left; reflexivity).
    assert (Hnb1 : nobrk (clocks d1)).
    { intros j. unfold d1. rewrite tw_step. destruct (Nat.eqb i j && Nat.ltb i (length (clocks d))); [|apply Hnb].
      destruct (wit_touch_val (nth j (clocks d) Missing) t (Hnb j)) as [v [E _]]. rewrite E. discriminate. }
    assert (Hmono1 : forall j, valof (nth j (clocks d) Missing) <= valof (nth j (clocks d1) Missing)).
    { intros j. unfold d1. rewrite tw_step. destruct (Nat.eqb i j && Nat.ltb i (length (clocks d))); [|lia].
      destruct (wit_touch_val (nth j (clocks d) Missing) t (Hnb j)) as [v [E [_ Hv]]]. rewrite E. exact Hv. }
    assert (Hit : t <= valof (nth i (clocks d1) Missing)).
    { unfold d1. rewrite tw_step. rewrite Nat.eqb_refl. apply Nat.ltb_lt in Hi. rewrite Hi. simpl.
      destruct (wit_touch_val (nth i (clocks d) Missing) t (Hnb i)) as [v [E [Hv _]]]. rewrite E. exact Hv. }
    destruct (IH d1 Hnb1) as [Hn' [Hm' Hc']].
    { intros i' t' Hin. rewrite Hlen. apply (Hr i' t'). right; exact Hin. }
    split; [exact Hn'|]. split.
    + intros j. specialize (Hmono1 j). specialize (Hm' j). lia.
    + intros i' t' [E|Hin]; [inversion E; subst; specialize (Hm' i'); lia|apply Hc'; exact Hin].
Qed.

(* ---- the whole open ---- *)
Lemma run_open_full d ws : in_range d ws ->
  dominated (run d (drops_from 0 (clocks d) ++ SetMarker :: flat_map tw ws ++ [ClearMarker])) ws.
Proof.
  intros Hr. rewrite run_app.
  destruct d as [m cl]. cbn [clocks].
  pose proof (run_drops m cl []) as HD. cbn [app length] in HD. rewrite HD.
  change (run (mkdisk m (map unbreak cl)) (SetMarker :: flat_map tw ws ++ [ClearMarker]))
    with (run (mkdisk true (map unbreak cl)) (flat_map tw ws ++ [ClearMarker])).
  rewrite run_app.
  destruct (tw_run ws (mkdisk true (map unbreak cl))) as [_ [_ Hc]].
  - apply nobrk_unbreak.
  - intros i t Hin. cbn [clocks]. rewrite map_length. apply (Hr i t Hin).
  - intros i t Hin. cbn [run fold_left apply clocks]. apply Hc; exact Hin.
Qed.

Theorem open_establishes d ws : in_range d ws -> safe d ws -> dominated (run d (open_actions d ws)) ws.
Proof.
  intros Hr Hs. unfold open_actions. destruct (need d) eqn:Hn.
  - apply run_open_full; exact Hr.
  - destruct Hs as [Hs|Hs]; [rewrite Hn in Hs; discriminate|exact Hs].
Qed.

Lemma prefix_need d ws k : need d = true ->
  (k <= length (drops_from 0 (clocks d)) + length (flat_map tw ws) + 1)%nat ->
  need (run d (firstn k (drops_from 0 (clocks d) ++ SetMarker :: flat_map tw ws ++ [ClearMarker]))) = true.
Proof.
  intros Hn Hk. set (D := drops_from 0 (clocks d)) in *. set (TW := flat_map tw ws) in *.
  rewrite firstn_app, run_app.
  destruct (k - length D)%nat as [|k2] eqn:Ek.
  - cbn [firstn]. cbn [run fold_left]. apply drops_keep_need; [|exact Hn].
    apply Forall_firstn'. apply drops_are_drops.
  - rewrite firstn_all2 by lia. cbn [firstn]. rewrite firstn_app.
    assert (Ez : (k2 - length TW = 0)%nat) by lia. rewrite Ez. cbn [firstn]. rewrite app_nil_r.
    change (run (run d D) (SetMarker :: firstn k2 TW)) with (run (apply (run d D) SetMarker) (firstn k2 TW)).
    unfold need. rewrite tw_keep_marker; [reflexivity|]. apply Forall_firstn'. apply tw_are_tw.
Qed.

Theorem open_crash_safe d ws k : in_range d ws -> safe d ws -> safe (run d (firstn k (open_actions d ws))) ws.
Proof.
  intros Hr Hs. unfold open_actions. destruct (need d) eqn:Hn.
  - set (D := drops_from 0 (clocks d)). set (TW := flat_map tw ws).
    destruct (le_lt_dec k (length D + length TW + 1)) as [Hk|Hk].
    + left. apply prefix_need; assumption.
    + right. rewrite firstn_all2.
      * apply run_open_full; exact Hr.
      * rewrite app_length. cbn [length]. rewrite app_length. cbn [length]. fold D TW. lia.
  - rewrite firstn_nil. exact Hs.
Qed.

Lemma in_range_run d ws l : in_range d ws -> in_range (run d l) ws.
Proof. intros Hr i t Hin. rewrite length_run. apply (Hr i t Hin). Qed.

(* whatever the instant at which an open dies, the next complete open ends with clocks that dominate the stored times *)
Theorem rebuild_restartable d ws k : in_range d ws -> safe d ws ->
  let d' := run d (firstn k (open_actions d ws)) in dominated (run d' (open_actions d' ws)) ws.
Proof.
  intros Hr Hs d'. apply open_establishes.
  - apply in_range_run; exact Hr.
  - apply open_crash_safe; assumption.
Qed.

(* any number of interrupted opens *)
Fixpoint crashes (d : disk) (ws : list (nat * N)) (ks : list nat) : disk :=
  match ks with [] => d | k :: r => crashes (run d (firstn k (open_actions d ws))) ws r end.
Theorem rebuild_restartable_many ks : forall d ws, in_range d ws -> safe d ws ->
  dominated (run (crashes d ws ks) (open_actions (crashes d ws ks) ws)) ws.
Proof.
  induction ks as [|k r IH]; intros d ws Hr Hs; simpl.
  - apply open_establishes; assumption.
  - apply IH; [apply in_range_run; exact Hr|apply open_crash_safe; assumption].
Qed.

(* a fresh or damaged repository is safe: something is missing or broken *)
Lemma missing_is_safe d ws : existsb nonval (clocks d) = true -> safe d ws.
Proof. intros H. left. unfold need. rewrite H. apply orb_true_r. Qed.

(* after a complete open the next increment is above every stored time *)
Corollary next_increment_above d ws i t : in_range d ws -> safe d ws -> In (i, t) ws ->
  t < valof (nth i (clocks (run d (open_actions d ws))) Missing) + 1.
Proof. intros Hr Hs Hin. pose proof (open_establishes d ws Hr Hs i t Hin). lia. Qed.

Lemma dominatedb_spec d ws : dominatedb d ws = true <-> dominated d ws.
Proof.
  unfold dominatedb, dominated. rewrite forallb_forall. split.
  - intros H i t Hin. specialize (H (i, t) Hin). simpl in H. apply N.leb_le in H. exact H.
  - intros H [i t] Hin. simpl. apply N.leb_le. apply H; exact Hin.
Qed.

(* the pinned open (no marker): an open that dies after the first witness leaves clocks that all exist, and the
   next open does not rebuild: the clock stays below a stored time *)
Theorem rebuild_pinned_refuted : exists d ws k,
  need_p d = true /\ in_range d ws /\
  let d' := run d (firstn k (open_actions_p d ws)) in ~ dominated (run d' (open_actions_p d' ws)) ws.
Proof.
  exists (mkdisk false [Missing; Missing]), [(0%nat, 2); (1%nat, 5); (0%nat, 3); (1%nat, 9)], 4%nat.
  split; [reflexivity|]. split.
  - intros i t [E|[E|[E|[E|[]]]]]; inversion E; simpl; lia.
  - intros d' H. apply dominatedb_spec in H. vm_compute in H. discriminate.
Qed.

Example rebuild_example :
  let d := mkdisk false [Val 4; Broken] in let ws := [(0%nat, 2); (1%nat, 5); (0%nat, 3); (1%nat, 9)] in
  in_range d ws /\ safe d ws /\
  map (fun k => run d (firstn k (open_actions d ws))) [1; 2; 6; 11]%nat =
    [mkdisk false [Val 4; Missing]; mkdisk true [Val 4; Missing]; mkdisk true [Val 4; Val 5]; mkdisk false [Val 4; Val 9]].
Proof.
  split; [|split].
  - intros i t [E|[E|[E|[E|[]]]]]; inversion E; simpl; lia.
  - left; reflexivity.
  - vm_compute. reflexivity.
Qed.
