(* C04 — committed data reads back identically; ids are content-derived and stable. Property theorems only. *)
From Coq Require Import List NArith Bool.
Import ListNotations.
From GB Require Import Decimal Tree Reach Sort Read World Append.
From GB Require Accept ClockWrap.
Local Open Scope N_scope.

(* clocks and format version survive the decimal text form, for every 64-bit value *)
Theorem C04_decimal_roundtrip n : n < 2 ^ 64 -> parse_u64 (print_u64 n) = Some n.
Proof. exact (Decimal.C04_decimal_roundtrip n). Qed.
Print Assumptions C04_decimal_roundtrip.

(* what operationPack.Write stores (after StoreTree's sort) is decoded by readOperationPack to the same
   version and clocks, with the operations blob found, for every pack *)
Theorem C04_tree_roundtrip expected p : wf_pinfo expected p ->
  read_entries expected (store_tree p) = ROk (t_version p) true (t_edit p) (t_create p).
Proof. exact (tree_roundtrip expected p). Qed.
Print Assumptions C04_tree_roundtrip.

(* every tree git-bug stores is sorted by git's rule, with pairwise distinct names *)
Theorem C04_tree_sorted p : sorted_strict (store_tree p) = true.
Proof. exact (store_tree_sorted p). Qed.
Print Assumptions C04_tree_sorted.

Example C04_wf_example : wf_pinfo 4 {| t_version := 4; t_edit := 18446744073709551615; t_create := 1; t_extra := true |}.
Proof. unfold wf_pinfo; cbn. repeat split; try reflexivity; try discriminate. Qed.

(* in every reachable state, an edit committed on a local head reads back as the operations that were there,
   in their order, followed by the committed ones (ids and payloads are the values themselves in the model) *)
Theorem C04_commit_read w r h id au ops w' old : inv w -> (budget w + 2 <= jump_limit)%N ->
  step w (AEdit r h id au ops) = Some w' -> read (st w) h = Some old ->
  read (st w') (length (st w)) = Some (old ++ ops).
Proof. exact (edit_reads_back w r h id au ops w' old). Qed.
Print Assumptions C04_commit_read.

(* ---- what the write side must refuse, or clean, for the statement to hold (Accept.v); the pinned
        behaviours are refuted by concrete witnesses ---- *)

(* a text that text.Safe / text.SafeOneLine accept (with the UTF-8 check) is read back byte for byte after
   json.Marshal / json.Unmarshal ... *)
Theorem C04_safe_text_preserved l : Accept.safe l = true \/ Accept.safe_line l = true -> Accept.stored l = l.
Proof. exact (Accept.safe_stored l). Qed.
Print Assumptions C04_safe_text_preserved.

(* ... and valid UTF-8 is exactly what is preserved: the check refuses nothing that could have been stored *)
Theorem C04_preserved_iff_valid l : Accept.stored l = l <-> Accept.valid l = true.
Proof. exact (Accept.preserved_iff_valid l). Qed.
Print Assumptions C04_preserved_iff_valid.

(* pinned Safe/SafeOneLine range over the string: an invalid byte looks like U+FFFD, is accepted, and is stored as
   another text; two accepted texts are even stored as the same one *)
Theorem C04_pinned_safe_refuted : exists l, Accept.pinned_safe l = true /\ Accept.pinned_safe_line l = true /\ Accept.stored l <> l.
Proof. exact Accept.pinned_safe_refuted. Qed.
Print Assumptions C04_pinned_safe_refuted.
Theorem C04_pinned_safe_collision : exists a b, a <> b /\ Accept.pinned_safe_line a = true /\ Accept.pinned_safe_line b = true /\ Accept.stored a = Accept.stored b.
Proof. exact Accept.pinned_safe_collision. Qed.
Print Assumptions C04_pinned_safe_collision.

(* Commit as pinned only applies dag.Entity.Validate: it accepts bugs every reader refuses *)
Theorem C04_pinned_shape_refuted : exists ks, Accept.pinned_shape_ok ks = true /\ Accept.shape_ok ks = false.
Proof. exact Accept.pinned_shape_refuted. Qed.
Print Assumptions C04_pinned_shape_refuted.

(* with Commit moving the reference only from where the object left it, whatever objects of an entity are loaded
   and commit in whatever order, what is read at the reference is exactly the operations of all the accepted
   commits, in the order they were accepted *)
Theorem C04_commits_all_read evs : let '(s, log, _) := Accept.hrun true Accept.hs0 evs in Accept.rread (Accept.h_ref s) = log.
Proof. exact (Accept.cas_reads_all evs). Qed.
Print Assumptions C04_commits_all_read.

(* pinned: the reference is moved in any case, and an accepted operation is not read any more *)
Theorem C04_stale_commit_refuted : exists evs, let '(s, log, _) := Accept.hrun false Accept.hs0 evs in
  exists op, In op log /\ ~ In op (Accept.rread (Accept.h_ref s)).
Proof. exact Accept.move_loses_refuted. Qed.
Print Assumptions C04_stale_commit_refuted.

(* a name cleaned the way git does is left as it is by go-git's decoder: the commit encoded again to verify its
   signature is the commit that has been signed; and it has no character that ends a name or a header line *)
Theorem C04_clean_name_survives l : Accept.gogit_name (Accept.clean l) = Accept.clean l /\ forall x, In x (Accept.clean l) -> Accept.forbidden x = false.
Proof. exact (Accept.clean_name_survives l). Qed.
Print Assumptions C04_clean_name_survives.
Theorem C04_pinned_name_refuted : exists l, Accept.gogit_name (Accept.pinned_clean l) <> Accept.pinned_clean l.
Proof. exact Accept.pinned_clean_refuted. Qed.
Print Assumptions C04_pinned_name_refuted.

(* finding C04-clock-jump (the F-clock of C05 seen from the write side): the edit time of a commit comes from the
   namespace-wide clock; within the jump limit of its parent it is readable ... *)
Theorem C04_commit_within_limit_readable c p : p <= c -> c - p < ClockWrap.jump_limit -> c + 1 < ClockWrap.wrap ->
  ClockWrap.readable p (ClockWrap.child_edit c) = true.
Proof. exact (ClockWrap.write_readable c p). Qed.
Print Assumptions C04_commit_within_limit_readable.
(* ... and once the clock has witnessed a peer further ahead, the commit Commit writes on an old bug is refused by read *)
Theorem C04_commit_after_far_witness_refuted : exists c p v, p <= c /\ snd (ClockWrap.after_forged_root c p v) = false.
Proof. exact ClockWrap.forged_jump_refuted. Qed.
Print Assumptions C04_commit_after_far_witness_refuted.
