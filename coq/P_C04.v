(* C04 — committed data reads back identically; ids are content-derived and stable. Property theorems only. *)
From Coq Require Import List NArith Bool.
Import ListNotations.
From GB Require Import Decimal Tree Reach Sort Read World Append.
Local Open Scope N_scope.

(* clocks and format version survive the decimal text form, for every 64-bit value *)
Theorem C04_decimal_roundtrip n : n < 2 ^ 64 -> parse_u64 (print_u64 n) = Some n.
Proof. exact (Decimal.C04_decimal_roundtrip n). Qed.
Print Assumptions C04_decimal_roundtrip.

(* what operationPack.Write stores (after StoreTree's sort) is decoded by readOperationPack to the same
   version and clocks, with the operations blob found, for every pack *)
Theorem C04_tree_roundtrip expected p : wf_pinfo expected p ->
  read_entries expected (store_tree p) = ROk (t_version p) true (t_edit p) (t_create p).
Proof. exact (tree_roundtrip expected p). Qed.
Print Assumptions C04_tree_roundtrip.

(* every tree git-bug stores is sorted by git's rule, with pairwise distinct names *)
Theorem C04_tree_sorted p : sorted_strict (store_tree p) = true.
Proof. exact (store_tree_sorted p). Qed.
Print Assumptions C04_tree_sorted.

Example C04_wf_example : wf_pinfo 4 {| t_version := 4; t_edit := 18446744073709551615; t_create := 1; t_extra := true |}.
Proof. unfold wf_pinfo; cbn. repeat split; try reflexivity; try discriminate. Qed.

(* in every reachable state, an edit committed on a local head reads back as the operations that were there,
   in their order, followed by the committed ones (ids and payloads are the values themselves in the model) *)
Theorem C04_commit_read w r h id au ops w' old : inv w -> (budget w + 2 <= jump_limit)%N ->
  step w (AEdit r h id au ops) = Some w' -> read (st w) h = Some old ->
  read (st w') (length (st w)) = Some (old ++ ops).
Proof. exact (edit_reads_back w r h id au ops w' old). Qed.
Print Assumptions C04_commit_read.
