(* C09 — identity merge: correspondence with identity.MergeAll and the fast-forward-only rule as a checker. *)
From Coq Require Import List Arith NArith Bool.
Import ListNotations.
From GB Require Export IdMerge IdValid.
Local Open Scope N_scope.

Inductive istatus := INew | INothing | IUpdated | IInvalid | IMissing (* no merge result was produced *) | IError.

Record ident := mkident {
  i_local : list N;            (* local version chain before (commit ranks), [] if absent *)
  i_remote : list N;           (* fetched chain *)
  i_remote_versions : list version;  (* data of the fetched versions, for Validate *)
  i_after : list N;            (* local chain after MergeAll *)
  i_status : istatus;
  i_returned_last : option N;  (* for new/updated: last version (commit rank) of the identity handed back *)
  i_id_stable : bool           (* ref name unchanged and equal to the id of the first version *)
}.
Record case := mkcase9 { k_idents : list ident }.

Fixpoint nl_eqb (a b : list N) : bool :=
  match a, b with [], [] => true | x :: a', y :: b' => N.eqb x y && nl_eqb a' b' | _, _ => false end.
Definition st_eqb (a b : istatus) : bool :=
  match a, b with INew, INew | INothing, INothing | IUpdated, IUpdated | IInvalid, IInvalid | IMissing, IMissing | IError, IError => true | _, _ => false end.

(* model: MergeAll on one identity *)
Definition predict (i : ident) : istatus * list N :=
  if negb (validate_identity (i_remote_versions i)) then (IInvalid, i_local i) else
  match i_local i with
  | [] => (INew, i_remote i)
  | loc => match merge_identity loc (i_remote i) with
           | IdMerge.MNothing => (INothing, loc)
           | IdMerge.MUpdated l => (IUpdated, l)
           | IdMerge.MInvalid => (IInvalid, loc)
           end
  end.

Definition ident_agrees (i : ident) : bool :=
  let '(st, after) := predict i in st_eqb st (i_status i) && nl_eqb after (i_after i).
Definition agrees (c : case) : bool := forallb ident_agrees (k_idents c).

(* ---- the property on what the implementation did ---- *)
Fixpoint is_prefix (a b : list N) : bool :=
  match a, b with [], _ => true | x :: a', y :: b' => N.eqb x y && is_prefix a' b' | _, _ => false end.

Definition ident_ok (i : ident) : bool :=
  let loc := i_local i in let rem := i_remote i in
  i_id_stable i &&
  (* append-only: whatever happened, the old history is a prefix of the new one *)
  is_prefix loc (i_after i) &&
  (if negb (validate_identity (i_remote_versions i)) then st_eqb (i_status i) IInvalid && nl_eqb (i_after i) loc
   else match loc with
   | [] => st_eqb (i_status i) INew && nl_eqb (i_after i) rem
   | _ =>
     if is_prefix loc rem && negb (nl_eqb loc rem) then st_eqb (i_status i) IUpdated && nl_eqb (i_after i) rem
     else if is_prefix rem loc then st_eqb (i_status i) INothing && nl_eqb (i_after i) loc
     else st_eqb (i_status i) IInvalid && nl_eqb (i_after i) loc
   end) &&
  match i_status i with
  | INew | IUpdated => match i_returned_last i with Some v => N.eqb v (last (i_after i) 0) | None => false end
  | _ => true end.

Definition C09_ok (c : case) : bool := forallb ident_ok (k_idents c).

Fixpoint index_filter {A} (f : A -> bool) (i : nat) (l : list A) : list nat :=
  match l with [] => [] | x :: t => if f x then index_filter f (S i) t else i :: index_filter f (S i) t end.
Definition mismatches (cs : list case) : list nat := index_filter agrees 0 cs.
Definition failing (cs : list case) : list nat := index_filter C09_ok 0 cs.
Definition explain (c : case) := map predict (k_idents c).
