From Coq Require Import List Arith NArith Bool Lia.
Import ListNotations.
From GB Require Import Query.
Local Open Scope N_scope.

(* scanning a piece of text that contains no separator outside quotes *)
Fixpoint scan (sep : rune -> bool) (w : str) (q : option rune) : option (option rune) :=
  match w with
  | [] => Some q
  | r :: t => match q with
              | None => if is_quote r then scan sep t (Some r) else if sep r then None else scan sep t None
              | Some lq => if N.eqb r lq then scan sep t None else scan sep t q
              end
  end.

Lemma split_go_scan keep sep w : forall rest q q' chunk acc, scan sep w q = Some q' ->
  split_go keep sep (w ++ rest) q chunk acc = split_go keep sep rest q' (rev w ++ chunk) acc.
Proof. induction w as [|r t IH]; intros rest q q' chunk acc H; cbn in *.
  - now inversion H.
  - rewrite <- app_assoc. cbn. destruct q as [lq|].
    + destruct (N.eqb r lq); now apply IH.
    + destruct (is_quote r); [now apply IH|]. destruct (sep r); [discriminate|now apply IH]. Qed.

Lemma scan_app sep a b q q1 q2 : scan sep a q = Some q1 -> scan sep b q1 = Some q2 -> scan sep (a ++ b) q = Some q2.
Proof. revert q. induction a as [|r t IH]; intros q H1 H2; cbn in *; [inversion H1; now subst|].
  destruct q as [lq|]; [destruct (N.eqb r lq); now apply IH|].
  destruct (is_quote r); [now apply IH|]. destruct (sep r); [discriminate|now apply IH]. Qed.

Definition closed sep (w : str) := w <> [] /\ scan sep w None = Some None.

Fixpoint join (s : rune) (ws : list str) : str :=
  match ws with [] => [] | [w] => w | w :: rest => w ++ s :: join s rest end.

Lemma flush_nonempty keep (w : str) acc : w <> [] -> flush keep (rev w) acc = w :: acc.
Proof. intros H. unfold flush. rewrite rev_involutive. destruct keep; [reflexivity|]. destruct (rev w) eqn:E; [|reflexivity].
  apply (f_equal (@rev _)) in E. rewrite rev_involutive in E. cbn in E. congruence. Qed.

Lemma split_join keep sep s : sep s = true -> is_quote s = false ->
  forall ws acc, ws <> [] -> Forall (closed sep) ws ->
  split_go keep sep (join s ws) None [] acc = Some (rev acc ++ ws).
Proof. intros Hs Hq. induction ws as [|w rest IH]; intros acc Hne F; [congruence|].
  inversion F as [|? ? [Hw Hsc] F']; subst.
  destruct rest as [|w2 rest'].
  - cbn [join]. rewrite <- (app_nil_r w) at 1. rewrite (split_go_scan keep sep w [] None None [] acc Hsc).
    rewrite app_nil_r. cbn [split_go]. rewrite flush_nonempty by exact Hw. reflexivity.
  - change (join s (w :: w2 :: rest')) with (w ++ s :: join s (w2 :: rest')).
    rewrite (split_go_scan keep sep w _ None None [] acc Hsc). rewrite app_nil_r. cbn [split_go]. rewrite Hq, Hs.
    rewrite flush_nonempty by exact Hw.
    rewrite IH; [|discriminate|exact F']. cbn [rev]. now rewrite <- app_assoc. Qed.

Theorem split_func_join keep sep s ws : sep s = true -> is_quote s = false -> ws <> [] -> Forall (closed sep) ws ->
  split_func keep sep (join s ws) = Some ws.
Proof. intros. unfold split_func. now rewrite split_join. Qed.
Print Assumptions split_func_join.
