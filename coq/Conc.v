From Coq Require Import List Arith Lia Bool.
Import ListNotations.

Inductive instr := Acq (l : nat) | Rel (l : nat) | Act (a : nat).
Record thread := { held : list nat; prog : list instr }.

Definition rm (l : nat) (h : list nat) := filter (fun x => negb (Nat.eqb x l)) h.

(* lock discipline of a thread: locks are acquired in strictly increasing order (hence never re-entered),
   and a finished thread holds nothing *)
Fixpoint wo (h : list nat) (p : list instr) : Prop :=
  match p with
  | [] => h = []
  | Acq l :: r => (forall x, In x h -> x < l) /\ wo (l :: h) r
  | Rel l :: r => wo (rm l h) r
  | Act _ :: r => wo h r
  end.

Definition free (ts : list thread) (l : nat) := forall t, In t ts -> ~ In l (held t).

(* a thread can take a step unless it waits for a lock somebody holds *)
Definition can_step (ts : list thread) (t : thread) : Prop :=
  match prog t with
  | [] => False
  | Acq l :: _ => free ts l
  | _ => True
  end.

Definition unfinished (t : thread) := prog t <> [].

Lemma exists_max (l : list nat) : l <> [] -> exists m, In m l /\ forall x, In x l -> x <= m.
Proof. induction l as [|a t IH]; [congruence|]. intros _. destruct t as [|b t'].
  - exists a. split; [now left|]. intros x [<-|[]]. lia.
  - destruct IH as (m & Hm & Hmax); [discriminate|]. destruct (le_lt_dec a m).
    + exists m. split; [now right|]. intros x [<-|Hx]; [lia|auto].
    + exists a. split; [now left|]. intros x [<-|Hx]; [lia|]. specialize (Hmax x Hx). lia. Qed.

Definition awaited (t : thread) : list nat := match prog t with Acq l :: _ => [l] | _ => [] end.

Lemma free_dec ts l : free ts l \/ exists u, In u ts /\ In l (held u).
Proof. induction ts as [|t r IH]; [left; intros t []|]. destruct (in_dec Nat.eq_dec l (held t)) as [H|H].
  - right. exists t. split; [now left|exact H].
  - destruct IH as [F|(u & Hu & Hl)]; [left|right; exists u; split; [now right|exact Hl]].
    intros t' [<-|Ht']; auto. Qed.

Theorem C18_deadlock_free (ts : list thread) :
  (forall t, In t ts -> wo (held t) (prog t)) ->
  (exists t, In t ts /\ unfinished t) ->
  exists t, In t ts /\ can_step ts t.
Proof. intros W (t0 & Ht0 & U0).
  (* all locks awaited by unfinished threads *)
  set (aw := flat_map awaited ts).
  destruct aw as [|a aw'] eqn:Eaw.
  - (* nobody waits for a lock: t0's next instruction is not an acquire, or ... *)
    exists t0. split; [exact Ht0|]. unfold can_step. destruct (prog t0) as [|i r] eqn:P; [now apply U0|].
    destruct i; auto. exfalso. assert (In l aw) by (unfold aw; apply in_flat_map; exists t0; split; auto; unfold awaited; rewrite P; now left).
    rewrite Eaw in H. destruct H.
  - destruct (exists_max aw) as (m & Hm & Hmax); [rewrite Eaw; discriminate|].
    unfold aw in Hm. apply in_flat_map in Hm as (t & Ht & Hawt). unfold awaited in Hawt.
    assert (P : exists r, prog t = Acq m :: r).
    { destruct (prog t) as [|[l|l|a0] r]; cbn in Hawt; try contradiction. destruct Hawt as [->|[]]. now exists r. }
    destruct P as (r & P).
    destruct (free_dec ts m) as [F|(u & Hu & Hl)].
    + exists t. split; [exact Ht|]. unfold can_step. now rewrite P.
    + (* the owner u of m is unfinished and, if blocked, waits for a lock above m: impossible by maximality *)
      exists u. split; [exact Hu|]. unfold can_step. pose proof (W u Hu) as Wu.
      destruct (prog u) as [|[l|l|a0] r'] eqn:Pu; cbn in Wu; auto.
      * rewrite Wu in Hl. destruct Hl.
      * destruct Wu as [Hlt _]. specialize (Hlt m Hl).
        assert (In l aw) by (unfold aw; apply in_flat_map; exists u; split; auto; unfold awaited; rewrite Pu; now left).
        specialize (Hmax l H). lia. Qed.
Print Assumptions C18_deadlock_free.

(* the pattern in RepoCacheBug.Query(nil): the same lock acquired again while held violates the discipline *)
Example reentrant_not_wo : ~ wo [] [Acq 1; Acq 1; Rel 1; Rel 1].
Proof. cbn. intros [_ [H _]]. specialize (H 1 (or_introl eq_refl)). lia. Qed.

(* ------------------------------------------------------------------------------------------------ *)
(* Reader/writer locks, as sync.RWMutex: a writer announces itself (WReq) and then waits (WAcq) until
   nobody holds the lock; a reader (RAcq) waits while a writer holds the lock OR is announced and
   waiting (Go's writer preference).  Locks are not owner-checked away: a configuration in which some
   thread is unfinished and nobody can step is a reachable state of this machine (deadlock).          *)

Inductive rinstr := RAcq (l : nat) | RRel (l : nat) | WReq (l : nat) | WAcq (l : nat) | WRel (l : nat) | Nop.
(* held locks with their mode (true = write) *)
Record rthread := mkrt { hl : list (nat * bool); rprog : list rinstr }.

Definition heq (a b : nat * bool) := Nat.eqb (fst a) (fst b) && Bool.eqb (snd a) (snd b).
Fixpoint rm1 (x : nat * bool) (h : list (nat * bool)) :=
  match h with [] => [] | y :: t => if heq x y then t else y :: rm1 x t end.

Definition holds (l : nat) (t : rthread) := existsb (fun p => Nat.eqb (fst p) l) (hl t).
Definition holdsW (l : nat) (t : rthread) := existsb (fun p => Nat.eqb (fst p) l && snd p) (hl t).
Definition pendingb (l : nat) (t : rthread) := match rprog t with WAcq l' :: _ => Nat.eqb l' l | _ => false end.

Definition enabledb (ts : list rthread) (t : rthread) : bool :=
  match rprog t with
  | [] => false
  | RAcq l :: _ => forallb (fun u => negb (holdsW l u) && negb (pendingb l u)) ts
  | WAcq l :: _ => forallb (fun u => negb (holds l u)) ts
  | _ => true
  end.

Definition exec1 (t : rthread) : rthread :=
  match rprog t with
  | [] => t
  | RAcq l :: r => mkrt ((l, false) :: hl t) r
  | WAcq l :: r => mkrt ((l, true) :: hl t) r
  | RRel l :: r => mkrt (rm1 (l, false) (hl t)) r
  | WRel l :: r => mkrt (rm1 (l, true) (hl t)) r
  | _ :: r => mkrt (hl t) r
  end.

Fixpoint upd {A} (l : list A) (n : nat) (x : A) : list A :=
  match l, n with [], _ => [] | _ :: t, 0 => x :: t | y :: t, S n => y :: upd t n x end.

Definition rstep (ts : list rthread) (n : nat) : option (list rthread) :=
  match nth_error ts n with
  | Some t => if enabledb ts t then Some (upd ts n (exec1 t)) else None
  | None => None
  end.

(* a schedule is a list of thread numbers; naming a thread that cannot step is a no-op *)
Fixpoint rrun (sched : list nat) (ts : list rthread) : list rthread :=
  match sched with
  | [] => ts
  | n :: s => rrun s (match rstep ts n with Some ts' => ts' | None => ts end)
  end.

Definition unfinishedb (t : rthread) := match rprog t with [] => false | _ => true end.
Definition stuckb (ts : list rthread) : bool :=
  existsb unfinishedb ts && forallb (fun t => negb (enabledb ts t)) ts.

(* the discipline: locks (either mode) are acquired in strictly increasing rank, all released at the end *)
Fixpoint wo_rw (h : list (nat * bool)) (p : list rinstr) : Prop :=
  match p with
  | [] => h = []
  | RAcq l :: r => (forall x, In x h -> fst x < l) /\ wo_rw ((l, false) :: h) r
  | WAcq l :: r => (forall x, In x h -> fst x < l) /\ wo_rw ((l, true) :: h) r
  | RRel l :: r => wo_rw (rm1 (l, false) h) r
  | WRel l :: r => wo_rw (rm1 (l, true) h) r
  | _ :: r => wo_rw h r
  end.

Fixpoint wob (h : list (nat * bool)) (p : list rinstr) : bool :=
  match p with
  | [] => match h with [] => true | _ => false end
  | RAcq l :: r => forallb (fun x => Nat.ltb (fst x) l) h && wob ((l, false) :: h) r
  | WAcq l :: r => forallb (fun x => Nat.ltb (fst x) l) h && wob ((l, true) :: h) r
  | RRel l :: r => wob (rm1 (l, false) h) r
  | WRel l :: r => wob (rm1 (l, true) h) r
  | _ :: r => wob h r
  end.

Lemma wob_sound p : forall h, wob h p = true -> wo_rw h p.
Proof. induction p as [|i r IH]; intros h H; cbn in *.
  - destruct h; [reflexivity|discriminate].
  - destruct i; cbn in *; try (apply IH; exact H);
      apply andb_true_iff in H as [H1 H2]; (split; [|apply IH; exact H2]);
      intros x Hx; rewrite forallb_forall in H1; specialize (H1 x Hx); now apply Nat.ltb_lt in H1. Qed.

Lemma rm1_in x y h : In y (rm1 x h) -> In y h.
Proof. induction h as [|z t IH]; cbn; [tauto|]. destruct (heq x z); cbn; [tauto|]. intros [->|H]; [now left|right; auto]. Qed.

(* programs compose: a thread that runs one disciplined call after another is disciplined *)
Lemma wo_rw_app p q : wo_rw [] q -> forall h, wo_rw h p -> wo_rw h (p ++ q).
Proof. intros Q. induction p as [|i r IH]; intros h H; cbn in *.
  - subst h. exact Q.
  - destruct i; cbn in *; try (apply IH; exact H); destruct H as [H1 H2]; (split; [exact H1|apply IH; exact H2]). Qed.

Lemma wo_rw_concat ps : Forall (wo_rw []) ps -> wo_rw [] (concat ps).
Proof. induction 1 as [|p r Hp _ IH]; cbn; [reflexivity|]. now apply wo_rw_app. Qed.

Definition rawaited (t : rthread) : list nat :=
  match rprog t with RAcq l :: _ => [l] | WAcq l :: _ => [l] | _ => [] end.

Lemma holds_In l t : holds l t = true <-> exists m, In (l, m) (hl t).
Proof. unfold holds. rewrite existsb_exists. split.
  - intros ((a, m) & Hin & E). cbn in E. apply Nat.eqb_eq in E. subst a. now exists m.
  - intros (m & Hin). exists (l, m). split; [exact Hin|]. cbn. apply Nat.eqb_refl. Qed.

Lemma holdsW_holds l t : holdsW l t = true -> holds l t = true.
Proof. unfold holdsW, holds. rewrite !existsb_exists. intros (p & Hin & E). exists p. split; [exact Hin|].
  apply andb_true_iff in E. tauto. Qed.

Lemma holder_dec ts l : (forallb (fun u => negb (holds l u)) ts = true) \/ exists u, In u ts /\ holds l u = true.
Proof. induction ts as [|t r IH]; [now left|]. cbn. destruct (holds l t) eqn:E.
  - right. exists t. split; [now left|exact E].
  - destruct IH as [F|(u & Hu & Hl)]; [left; exact F|right; exists u; split; [now right|exact Hl]]. Qed.

(* a holder of m that respects the discipline is unfinished and, if it waits, waits above m *)
Lemma holder_steps ts u m : In u ts -> wo_rw (hl u) (rprog u) -> holds m u = true ->
  (forall l, In l (flat_map rawaited ts) -> l <= m) -> enabledb ts u = true.
Proof. intros Hu Wu Hm Hmax. apply holds_In in Hm as (md & Hin).
  assert (A : forall l, In l (rawaited u) -> l <= m).
  { intros l Hl. apply Hmax. apply in_flat_map. exists u. now split. }
  unfold enabledb. unfold rawaited in A. destruct (rprog u) as [|i r] eqn:P; cbn in Wu.
  - rewrite Wu in Hin. destruct Hin.
  - destruct i; try reflexivity; destruct Wu as [Hlt _]; specialize (Hlt _ Hin); cbn in Hlt;
      specialize (A l (or_introl eq_refl)); lia. Qed.

Theorem C18_deadlock_free_rw (ts : list rthread) :
  (forall t, In t ts -> wo_rw (hl t) (rprog t)) ->
  existsb unfinishedb ts = true ->
  exists t, In t ts /\ enabledb ts t = true.
Proof. intros W U. apply existsb_exists in U as (t0 & Ht0 & U0).
  set (aw := flat_map rawaited ts).
  destruct aw as [|a aw'] eqn:Eaw.
  - exists t0. split; [exact Ht0|]. unfold enabledb. unfold unfinishedb in U0.
    destruct (rprog t0) as [|i r] eqn:P; [discriminate|].
    assert (N : rawaited t0 = []).
    { destruct (rawaited t0) as [|x xs] eqn:E; [reflexivity|]. exfalso.
      assert (In x aw) by (unfold aw; apply in_flat_map; exists t0; split; [exact Ht0|rewrite E; now left]).
      rewrite Eaw in H. destruct H. }
    unfold rawaited in N. rewrite P in N. destruct i; try reflexivity; discriminate.
  - destruct (exists_max aw) as (m & Hm & Hmax); [rewrite Eaw; discriminate|].
    destruct (holder_dec ts m) as [F|(u & Hu & Hl)].
    + (* nobody holds m *)
      unfold aw in Hm. apply in_flat_map in Hm as (t & Ht & Hawt). unfold rawaited in Hawt.
      destruct (rprog t) as [|i r] eqn:P; [destruct Hawt|].
      destruct i; cbn in Hawt; try contradiction; destruct Hawt as [->|[]].
      * (* a reader: either it can enter, or an announced writer can *)
        destruct (existsb (pendingb m) ts) eqn:Pe.
        -- apply existsb_exists in Pe as (w & Hw & Pw). exists w. split; [exact Hw|].
           unfold enabledb. unfold pendingb in Pw. destruct (rprog w) as [|[]]; try discriminate.
           apply Nat.eqb_eq in Pw. subst l. exact F.
        -- exists t. split; [exact Ht|]. unfold enabledb. rewrite P. apply forallb_forall. intros u Hu.
           rewrite forallb_forall in F. specialize (F u Hu).
           assert (holdsW m u = false).
           { destruct (holdsW m u) eqn:E; [|reflexivity]. apply holdsW_holds in E. rewrite E in F. discriminate. }
           rewrite H. cbn. destruct (pendingb m u) eqn:E; [|reflexivity].
           assert (existsb (pendingb m) ts = true) by (apply existsb_exists; exists u; now split). congruence.
      * exists t. split; [exact Ht|]. unfold enabledb. rewrite P. exact F.
    + exists u. split; [exact Hu|]. apply (holder_steps ts u m Hu (W u Hu) Hl). exact Hmax. Qed.
Print Assumptions C18_deadlock_free_rw.

(* the discipline is kept by every step, so the theorem applies along every schedule *)
Lemma wo_exec1 t : wo_rw (hl t) (rprog t) -> wo_rw (hl (exec1 t)) (rprog (exec1 t)).
Proof. unfold exec1. destruct (rprog t) as [|i r] eqn:P; [now rewrite P|]. destruct i; cbn; tauto. Qed.

Lemma In_upd {A} (l : list A) n x y : In y (upd l n x) -> y = x \/ In y l.
Proof. revert n. induction l as [|z t IH]; intros n H; [destruct n; destruct H|].
  destruct n; cbn in H.
  - destruct H as [<-|H]; [now left|right; now right].
  - destruct H as [<-|H]; [right; now left|]. destruct (IH _ H); [now left|right; now right]. Qed.

Lemma rstep_wo ts n ts' : rstep ts n = Some ts' ->
  (forall t, In t ts -> wo_rw (hl t) (rprog t)) -> forall t, In t ts' -> wo_rw (hl t) (rprog t).
Proof. unfold rstep. destruct (nth_error ts n) as [t0|] eqn:E; [|discriminate].
  destruct (enabledb ts t0); [|discriminate]. intros [= <-] W t Ht.
  apply In_upd in Ht as [->|Ht]; [|now apply W]. apply wo_exec1, W. eapply nth_error_In; eauto. Qed.

Lemma rrun_wo sched : forall ts, (forall t, In t ts -> wo_rw (hl t) (rprog t)) ->
  forall t, In t (rrun sched ts) -> wo_rw (hl t) (rprog t).
Proof. induction sched as [|n s IH]; intros ts W; [exact W|]. cbn. apply IH.
  destruct (rstep ts n) as [ts'|] eqn:E; [|exact W]. eapply rstep_wo; eauto. Qed.

Theorem C18_never_stuck (ts : list rthread) (sched : list nat) :
  (forall t, In t ts -> wo_rw (hl t) (rprog t)) -> stuckb (rrun sched ts) = false.
Proof. intros W. unfold stuckb. destruct (existsb unfinishedb (rrun sched ts)) eqn:U; [|reflexivity]. cbn.
  destruct (C18_deadlock_free_rw (rrun sched ts) (rrun_wo sched ts W) U) as (t & Ht & En).
  destruct (forallb _ _) eqn:F; [|reflexivity]. rewrite forallb_forall in F. specialize (F t Ht).
  rewrite En in F. discriminate. Qed.

(* mutual exclusion: while a thread holds a lock for writing nobody else holds it in any mode.
   This is what allows the data model (CacheConc.v) to treat a lock-protected section as one step. *)
Definition consistent (ts : list rthread) := forall i j ti tj l, nth_error ts i = Some ti -> nth_error ts j = Some tj ->
  i <> j -> holdsW l ti = true -> holds l tj = false.

Lemma existsb_rm1 f x h : existsb f (rm1 x h) = true -> existsb f h = true.
Proof. rewrite !existsb_exists. intros (y & Hy & Fy). exists y. split; [eapply rm1_in; eauto|exact Fy]. Qed.

Lemma holds_exec1 l t : holds l (exec1 t) = true ->
  holds l t = true \/ (exists r, rprog t = RAcq l :: r) \/ (exists r, rprog t = WAcq l :: r).
Proof. unfold exec1, holds. destruct (rprog t) as [|i r]; [tauto|]. destruct i; cbn; try tauto.
  - destruct (Nat.eqb l0 l) eqn:E; cbn; [apply Nat.eqb_eq in E; subst; right; left; eauto|tauto].
  - intros H. left. eapply existsb_rm1; eauto.
  - destruct (Nat.eqb l0 l) eqn:E; cbn; [apply Nat.eqb_eq in E; subst; right; right; eauto|tauto].
  - intros H. left. eapply existsb_rm1; eauto. Qed.

Lemma holdsW_exec1 l t : holdsW l (exec1 t) = true -> holdsW l t = true \/ (exists r, rprog t = WAcq l :: r).
Proof. unfold exec1, holdsW. destruct (rprog t) as [|i r]; [tauto|]. destruct i; cbn; try tauto.
  - rewrite andb_false_r. cbn. tauto.
  - intros H. left. eapply existsb_rm1; eauto.
  - destruct (Nat.eqb l0 l) eqn:E; cbn; [apply Nat.eqb_eq in E; subst; right; eauto|tauto].
  - intros H. left. eapply existsb_rm1; eauto. Qed.

Lemma nth_upd {A} (l : list A) n x i : nth_error (upd l n x) i =
  if Nat.eqb i n then (match nth_error l n with Some _ => Some x | None => None end) else nth_error l i.
Proof. revert n i. induction l as [|y t IH]; intros n i; cbn.
  - destruct n, i; cbn; try reflexivity. destruct (Nat.eqb i n); reflexivity.
  - destruct n, i; cbn; try reflexivity. apply IH. Qed.

Lemma rstep_consistent ts n ts' : rstep ts n = Some ts' -> consistent ts -> consistent ts'.
Proof. unfold rstep. destruct (nth_error ts n) as [t0|] eqn:E0; [|discriminate].
  destruct (enabledb ts t0) eqn:En; [|discriminate]. intros [= <-] C i j ti tj l Hi Hj Nij HW.
  rewrite nth_upd in Hi, Hj. rewrite E0 in Hi, Hj.
  assert (In0 : In t0 ts) by (eapply nth_error_In; eauto).
  destruct (Nat.eqb i n) eqn:Ei, (Nat.eqb j n) eqn:Ej.
  - apply Nat.eqb_eq in Ei, Ej. congruence.
  - (* the stepping thread is the writer *)
    apply Nat.eqb_eq in Ei. subst i. injection Hi as <-.
    destruct (holdsW_exec1 _ _ HW) as [H|(r & P)]; [eapply (C n j); eauto|].
    unfold enabledb in En. rewrite P in En. rewrite forallb_forall in En.
    specialize (En tj (nth_error_In _ _ Hj)). now apply negb_true_iff in En.
  - (* the stepping thread is the other one *)
    apply Nat.eqb_eq in Ej. subst j. injection Hj as <-.
    destruct (holds l (exec1 t0)) eqn:H; [|reflexivity]. exfalso.
    assert (Ini : In ti ts) by (eapply nth_error_In; eauto).
    destruct (holds_exec1 _ _ H) as [H1|[(r & P)|(r & P)]].
    + rewrite (C i n ti t0 l Hi E0 Nij HW) in H1. discriminate.
    + unfold enabledb in En. rewrite P in En. rewrite forallb_forall in En. specialize (En ti Ini).
      rewrite HW in En. discriminate.
    + unfold enabledb in En. rewrite P in En. rewrite forallb_forall in En. specialize (En ti Ini).
      rewrite (holdsW_holds _ _ HW) in En. discriminate.
  - eapply (C i j); eauto. Qed.

Theorem C18_mutex (ts : list rthread) (sched : list nat) :
  (forall t, In t ts -> hl t = []) -> consistent (rrun sched ts).
Proof. intros H0. assert (C0 : consistent ts).
  { intros i j ti tj l Hi _ _ HW. unfold holdsW in HW. rewrite (H0 ti (nth_error_In _ _ Hi)) in HW. discriminate. }
  clear H0. revert ts C0. induction sched as [|n s IH]; intros ts C; [exact C|]. cbn. apply IH.
  destruct (rstep ts n) as [ts'|] eqn:E; [|exact C]. eapply rstep_consistent; eauto. Qed.

(* ------------------------------------------------------------------------------------------------ *)
(* Lock skeletons of the cache API calls, transcribed from cache/*.go.  Ranks:
   0 RepoCache.muUserIdentity, 1 bug sub-cache SubCache.mu, 2 identity sub-cache SubCache.mu,
   3+2b CachedEntityBase.mu of the loaded instance of bug b, 4+2b its withSnapshot.mu (a Mutex: write mode). *)
Definition LU := 0.  Definition LB := 1.  Definition LI := 2.
Definition LE (b : nat) := 3 + 2 * b.  Definition LS (b : nat) := 4 + 2 * b.
Definition wlock l := [WReq l; WAcq l].

(* RepoCache.GetUserIdentity: muUserIdentity.RLock { identities.Resolve (hit): mu.RLock } *)
Definition sk_user := [RAcq LU; RAcq LI; RRel LI; RRel LU].
(* SubCache.Resolve, entity already loaded *)
Definition sk_resolve_hit := [RAcq LB; RRel LB].
(* SubCache.evictIfNeeded when nothing has to go *)
Definition sk_evict_none := wlock LB ++ [WRel LB].
(* SubCache.Resolve on a miss: the read resolves the author through the identity sub-cache.
   pinned: read outside the lock, then install; repaired: read while holding the write lock *)
Definition sk_resolve_miss_pinned := [RAcq LB; RRel LB; RAcq LI; RRel LI] ++ wlock LB ++ [WRel LB] ++ sk_evict_none.
Definition sk_resolve_miss := [RAcq LB; RRel LB] ++ wlock LB ++ [RAcq LI; RRel LI; WRel LB] ++ sk_evict_none.
(* SubCache.entityUpdated: mu.Lock { makeExcerpt -> Snapshot(): entity RLock { snapshot mutex } }; then write(): mu.RLock *)
Definition sk_notify b := wlock LB ++ [RAcq (LE b)] ++ wlock (LS b) ++ [WRel (LS b); RRel (LE b); WRel LB; RAcq LB; RRel LB].
(* BugCache.AddCommentRaw & co: entity Lock { withSnapshot.Append: snapshot mutex }; notifyUpdated *)
Definition sk_append b := wlock (LE b) ++ wlock (LS b) ++ [WRel (LS b); WRel (LE b)] ++ sk_notify b.
(* CachedEntityBase.Commit *)
Definition sk_commit b := wlock (LE b) ++ wlock (LS b) ++ [WRel (LS b); WRel (LE b)] ++ sk_notify b.
(* SubCache.add (new bug): mu.Lock; evictIfNeeded; entityUpdated *)
Definition sk_add b := wlock LB ++ [WRel LB] ++ sk_evict_none ++ sk_notify b.
Definition sk_allids := [RAcq LB; RRel LB].
(* RepoCacheBug.Query(q), q <> nil: mu.RLock { matcher resolves identity excerpts: identities mu.RLock } *)
Definition sk_query_q := [RAcq LB; RAcq LI; RRel LI; RRel LB].
(* RepoCacheBug.Query(nil): pinned = mu.RLock { AllIds: mu.RLock }; repaired = AllIds only *)
Definition sk_query_nil_pinned := [RAcq LB; RAcq LB; RRel LB; RRel LB].
Definition sk_query_nil := sk_allids.
(* RepoCacheBug.Query(q) with a full-text term: mu.RLock { index.Search (bleve: no lock of the cache); the hits are
   looked up in the excerpts map directly; the matchers resolve identity excerpts }: the locks of Query(q).
   A variant that resolves every hit through ResolveExcerpt takes the read lock again while it holds it. *)
Definition sk_query_search := sk_query_q.
Definition sk_query_search_resolving := [RAcq LB; RAcq LB; RRel LB; RAcq LI; RRel LI; RRel LB].
(* evictIfNeeded evicting the instance of bug b: mu.Lock { NeedCommit: entity RLock; entity Lock, never released } *)
Definition sk_evict b := wlock LB ++ [RAcq (LE b); RRel (LE b)] ++ wlock (LE b) ++ [WRel LB].

Inductive lcall := CUser | CHit | CMiss | CAppend (b : nat) | CCommit (b : nat) | CAdd (b : nat) | CAllIds | CQueryQ | CQueryNil | CQuerySearch.
Definition skel (c : lcall) : list rinstr :=
  match c with
  | CUser => sk_user | CHit => sk_resolve_hit | CMiss => sk_resolve_miss | CAppend b => sk_append b
  | CCommit b => sk_commit b | CAdd b => sk_add b | CAllIds => sk_allids | CQueryQ => sk_query_q | CQueryNil => sk_query_nil
  | CQuerySearch => sk_query_search
  end.

Lemma heq_refl x : heq x x = true.
Proof. unfold heq. now rewrite Nat.eqb_refl, Bool.eqb_reflx. Qed.
Lemma rm1_head x h : rm1 x (x :: h) = h.
Proof. cbn. now rewrite heq_refl. Qed.

Ltac wo_step := first [ rewrite rm1_head | progress cbn [wo_rw app wlock] | split ].
Ltac wo_side := cbn; intros ? ?; repeat match goal with H : _ \/ _ |- _ => destruct H end; subst; cbn;
  try contradiction; unfold LU, LB, LI, LE, LS; lia.

Lemma skel_wo c : wo_rw [] (skel c).
Proof. destruct c; unfold skel, sk_user, sk_resolve_hit, sk_resolve_miss, sk_append, sk_commit, sk_add, sk_allids,
  sk_query_search, sk_query_q, sk_query_nil, sk_allids, sk_notify, sk_evict_none; repeat wo_step; try reflexivity; wo_side. Qed.

(* every thread is a sequence of (repaired) cache calls, on any bugs: no schedule gets stuck *)
Theorem C18_cache_calls_never_stuck (progs : list (list lcall)) (sched : list nat) :
  stuckb (rrun sched (map (fun p => mkrt [] (concat (map skel p))) progs)) = false.
Proof. apply C18_never_stuck. intros t Ht. apply in_map_iff in Ht as (p & <- & _). cbn.
  apply wo_rw_concat. apply Forall_forall. intros x Hx. apply in_map_iff in Hx as (c & <- & _). apply skel_wo. Qed.

(* the pinned Query(nil) leaves the discipline ... *)
Example reentrant_rlock_not_wo : ~ wo_rw [] sk_query_nil_pinned.
Proof. cbn. intros [_ [H _]]. specialize (H (LB, false) (or_introl eq_refl)). cbn in H. unfold LB in H. lia. Qed.

(* ... and deadlocks: a reader inside Query(nil), a writer (any entityUpdated) announced in between *)
Lemma reentrant_rlock_stuck : exists sched,
  stuckb (rrun sched [mkrt [] sk_query_nil_pinned; mkrt [] (sk_notify 0)]) = true.
Proof. exists [0; 1]. vm_compute. reflexivity. Qed.

(* the handle of an evicted entity: its lock is never released, the next user of the handle waits forever *)
Example evict_not_wo b : ~ wo_rw [] (sk_evict b).
Proof. cbn. intros (_ & _ & _ & H). discriminate H. Qed.

Lemma evicted_handle_stuck : exists sched,
  stuckb (rrun sched [mkrt [] (sk_evict 0); mkrt [] (sk_resolve_hit ++ sk_append 0)]) = true.
Proof. exists [1; 1; 0; 0; 0; 0; 0; 0; 0; 1]. vm_compute. reflexivity. Qed.

(* a full-text Query that resolves its hits through ResolveExcerpt re-enters the read lock of the sub-cache:
   outside the discipline, and stuck as soon as a writer (any edit, load or commit) is announced in between *)
Example search_resolving_not_wo : ~ wo_rw [] sk_query_search_resolving.
Proof. cbn. intros [_ [H _]]. specialize (H (LB, false) (or_introl eq_refl)). cbn in H. unfold LB in H. lia. Qed.

Lemma search_resolving_stuck : exists sched,
  stuckb (rrun sched [mkrt [] sk_query_search_resolving; mkrt [] (sk_append 0)]) = true.
Proof. exists [0; 1; 1; 1; 1; 1; 1; 1]. vm_compute. reflexivity. Qed.
