From Coq Require Import List Arith Lia Bool.
Import ListNotations.

Inductive instr := Acq (l : nat) | Rel (l : nat) | Act (a : nat).
Record thread := { held : list nat; prog : list instr }.

Definition rm (l : nat) (h : list nat) := filter (fun x => negb (Nat.eqb x l)) h.

(* lock discipline of a thread: locks are acquired in strictly increasing order (hence never re-entered),
   and a finished thread holds nothing *)
Fixpoint wo (h : list nat) (p : list instr) : Prop :=
  match p with
  | [] => h = []
  | Acq l :: r => (forall x, In x h -> x < l) /\ wo (l :: h) r
  | Rel l :: r => wo (rm l h) r
  | Act _ :: r => wo h r
  end.

Definition free (ts : list thread) (l : nat) := forall t, In t ts -> ~ In l (held t).

(* a thread can take a step unless it waits for a lock somebody holds *)
Definition can_step (ts : list thread) (t : thread) : Prop :=
  match prog t with
  | [] => False
  | Acq l :: _ => free ts l
  | _ => True
  end.

Definition unfinished (t : thread) := prog t <> [].

Lemma exists_max (l : list nat) : l <> [] -> exists m, In m l /\ forall x, In x l -> x <= m.
Proof. induction l as [|a t IH]; [congruence|]. intros _. destruct t as [|b t'].
  - exists a. split; [now left|]. intros x [<-|[]]. lia.
  - destruct IH as (m & Hm & Hmax); [discriminate|]. destruct (le_lt_dec a m).
    + exists m. split; [now right|]. intros x [<-|Hx]; [lia|auto].
    + exists a. split; [now left|]. intros x [<-|Hx]; [lia|]. specialize (Hmax x Hx). lia. Qed.

Definition awaited (t : thread) : list nat := match prog t with Acq l :: _ => [l] | _ => [] end.

Lemma free_dec ts l : free ts l \/ exists u, In u ts /\ In l (held u).
Proof. induction ts as [|t r IH]; [left; intros t []|]. destruct (in_dec Nat.eq_dec l (held t)) as [H|H].
  - right. exists t. split; [now left|exact H].
  - destruct IH as [F|(u & Hu & Hl)]; [left|right; exists u; split; [now right|exact Hl]].
    intros t' [<-|Ht']; auto. Qed.

Theorem C18_deadlock_free (ts : list thread) :
  (forall t, In t ts -> wo (held t) (prog t)) ->
  (exists t, In t ts /\ unfinished t) ->
  exists t, In t ts /\ can_step ts t.
Proof. intros W (t0 & Ht0 & U0).
  (* all locks awaited by unfinished threads *)
  set (aw := flat_map awaited ts).
  destruct aw as [|a aw'] eqn:Eaw.
  - (* nobody waits for a lock: t0's next instruction is not an acquire, or ... *)
    exists t0. split; [exact Ht0|]. unfold can_step. destruct (prog t0) as [|i r] eqn:P; [now apply U0|].
    destruct i; auto. exfalso. assert (In l aw) by (unfold aw; apply in_flat_map; exists t0; split; auto; unfold awaited; rewrite P; now left).
    rewrite Eaw in H. destruct H.
  - destruct (exists_max aw) as (m & Hm & Hmax); [rewrite Eaw; discriminate|].
    unfold aw in Hm. apply in_flat_map in Hm as (t & Ht & Hawt). unfold awaited in Hawt.
    assert (P : exists r, prog t = Acq m :: r).
    { destruct (prog t) as [|[l|l|a0] r]; cbn in Hawt; try contradiction. destruct Hawt as [->|[]]. now exists r. }
    destruct P as (r & P).
    destruct (free_dec ts m) as [F|(u & Hu & Hl)].
    + exists t. split; [exact Ht|]. unfold can_step. now rewrite P.
    + (* the owner u of m is unfinished and, if blocked, waits for a lock above m: impossible by maximality *)
      exists u. split; [exact Hu|]. unfold can_step. pose proof (W u Hu) as Wu.
      destruct (prog u) as [|[l|l|a0] r'] eqn:Pu; cbn in Wu; auto.
      * rewrite Wu in Hl. destruct Hl.
      * destruct Wu as [Hlt _]. specialize (Hlt m Hl).
        assert (In l aw) by (unfold aw; apply in_flat_map; exists u; split; auto; unfold awaited; rewrite Pu; now left).
        specialize (Hmax l H). lia. Qed.
Print Assumptions C18_deadlock_free.

(* the pattern in RepoCacheBug.Query(nil): the same lock acquired again while held violates the discipline *)
Example reentrant_not_wo : ~ wo [] [Acq 1; Acq 1; Rel 1; Rel 1].
Proof. cbn. intros [_ [H _]]. specialize (H 1 (or_introl eq_refl)). lia. Qed.
