(* C05 — CLI part: a command run after the clock files were lost (or kept) writes times that dominate
   everything stored. *)
From Coq Require Import List NArith Bool.
Import ListNotations.
From GB Require Import World.
Local Open Scope N_scope.

Record case := mkcasecli { k_lost : bool; k_isnew : bool; k_prev_edit : list N; k_prev_create : list N; k_new_edit : N; k_new_create : N }.

(* model: the repository is opened with the clock loaders (AResetClock when the files are gone), the bug is read
   (witness) and one increment is taken: the clock was at least the maximum of the stored times *)
Definition agrees (c : case) : bool :=
  N.eqb (k_new_edit c) (maxl (k_prev_edit c) + 1) &&
  (if k_isnew c then N.eqb (k_new_create c) (maxl (k_prev_create c) + 1) else true).

Definition C05cli_ok (c : case) : bool :=
  forallb (fun e => N.ltb e (k_new_edit c)) (k_prev_edit c) &&
  (if k_isnew c then forallb (fun x => N.ltb x (k_new_create c)) (k_prev_create c) else true).

Fixpoint index_filter {A} (f : A -> bool) (i : nat) (l : list A) : list nat :=
  match l with [] => [] | x :: t => if f x then index_filter f (S i) t else i :: index_filter f (S i) t end.
Definition mismatches (cs : list case) : list nat := index_filter agrees 0 cs.
Definition failing (cs : list case) : list nat := index_filter C05cli_ok 0 cs.
Definition explain (c : case) := (maxl (k_prev_edit c) + 1, maxl (k_prev_create c) + 1).
