(* Refusal lemmas for the pack decoder model (C07). *)
From Coq Require Import List NArith Bool Lia.
Import ListNotations.
From GB Require Import Decimal Tree.
Local Open Scope N_scope.

(* no entry named "version-..." : unknown format *)
Lemma refuse_no_version expected l : (forall e, In e l -> strip_prefix s_version (fst e) = None) -> read_entries expected l = RErr.
Proof. intros H. unfold read_entries. assert (F : find_version l = None).
  { induction l as [|e t IH]; [reflexivity|]. cbn [find_version]. rewrite (H e (or_introl eq_refl)). apply IH. intros x Hx. apply H. now right. }
  now rewrite F. Qed.

(* the first version entry decides: another version, version 0, an unparsable or too large number are refused *)
Lemma refuse_version expected l e t d :
  l = e :: t -> strip_prefix s_version (fst e) = Some d ->
  (parse_u64 d = None \/ (exists v, parse_u64 d = Some v /\ (4096 < v \/ v = 0 \/ v <> expected))) ->
  read_entries expected l = RErr.
Proof. intros -> Hs H. unfold read_entries. cbn [find_version]. rewrite Hs.
  destruct H as [->|(v & -> & Hv)]; [reflexivity|].
  destruct (N.ltb_spec 4096 v); [reflexivity|]. destruct (N.eqb_spec v 0); [reflexivity|].
  destruct (N.eqb_spec v expected); [|reflexivity]. lia. Qed.

(* a tree without an "ops" entry never yields a pack with operations *)
Lemma scan_no_ops l : (forall e, In e l -> str_eqb (fst e) s_ops = false) -> forall ho e c r,
  scan_entries l ho e c = Some r -> fst (fst r) = ho.
Proof. induction l as [|x t IH]; intros H ho e c r; cbn [scan_entries].
  - intros E. inversion E. reflexivity.
  - rewrite (H x (or_introl eq_refl)).
    assert (Ht : forall y, In y t -> str_eqb (fst y) s_ops = false) by (intros y Hy; apply H; now right).
    destruct (strip_prefix s_create (fst x)); [destruct (parse_u64 s); [apply IH; exact Ht|discriminate]|].
    destruct (strip_prefix s_edit (fst x)); [destruct (parse_u64 s); [apply IH; exact Ht|discriminate]|]. apply IH; exact Ht. Qed.

Lemma no_ops_entry expected l v ho e c : (forall x, In x l -> str_eqb (fst x) s_ops = false) ->
  read_entries expected l = ROk v ho e c -> ho = false.
Proof. intros H. unfold read_entries. destruct (find_version l) as [[v'|]|]; try discriminate.
  destruct (N.eqb v' 0); [discriminate|]. destruct (negb (N.eqb v' expected)); [discriminate|].
  destruct (scan_entries l false 0 0) as [[[ho' e'] c']|] eqn:E; [|discriminate].
  intros R. inversion R; subst. exact (scan_no_ops l H false 0 0 _ E). Qed.
