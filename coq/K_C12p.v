(* C12, parsing part — correspondence (Query.parse = query.Parse) and the property on the implementation's answer. *)
From Coq Require Import List Arith NArith Bool.
Import ListNotations.
From GB Require Export Query QueryRender.
Local Open Scope N_scope.

(* what query.Parse returned: None = an error; the sortingDone flag is not observable *)
Definition mkq search status author meta actor participant label title nolabel ob dir : query :=
  {| q_search := search; q_status := status; q_author := author; q_meta := meta; q_actor := actor; q_participant := participant;
     q_label := label; q_title := title; q_nolabel := nolabel; q_orderby := ob; q_dir := dir; q_sorted := false |}.

Record case := mkpcase { p_str : str; p_items : option (list item); p_obs : option query }.

Fixpoint list_eqb {A} (e : A -> A -> bool) (a b : list A) : bool :=
  match a, b with [], [] => true | x :: a', y :: b' => e x y && list_eqb e a' b' | _, _ => false end.

Definition query_eqb (a b : query) : bool :=
  list_eqb str_eqb (q_search a) (q_search b) && list_eqb N.eqb (q_status a) (q_status b) &&
  list_eqb str_eqb (q_author a) (q_author b) &&
  list_eqb (fun x y => str_eqb (fst x) (fst y) && str_eqb (snd x) (snd y)) (q_meta a) (q_meta b) &&
  list_eqb str_eqb (q_actor a) (q_actor b) && list_eqb str_eqb (q_participant a) (q_participant b) &&
  list_eqb str_eqb (q_label a) (q_label b) && list_eqb str_eqb (q_title a) (q_title b) &&
  Bool.eqb (q_nolabel a) (q_nolabel b) && N.eqb (q_orderby a) (q_orderby b) && N.eqb (q_dir a) (q_dir b).

Definition oq_eqb (a b : option query) : bool :=
  match a, b with Some x, Some y => query_eqb x y | None, None => true | _, _ => false end.
Definition is_none {A} (o : option A) : bool := match o with None => true | Some _ => false end.

Definition agrees (c : case) : bool :=
  oq_eqb (parse (p_str c)) (p_obs c) &&
  match p_items c with Some its => str_eqb (render its) (p_str c) | None => true end.

(* the property: (a) input that is malformed in one of the classes of C12_rejects (exactly the cases in which
   the model answers None) is rejected; (b) a structured query of the documented language, rendered, is
   parsed to its denotation; a rendered query with a second sort or a value outside a closed vocabulary is rejected *)
Definition C12_ok (c : case) : bool :=
  (if is_none (parse (p_str c)) then is_none (p_obs c) else true) &&
  match p_items c with
  | Some its =>
      if wf_items its then oq_eqb (Some (denote its)) (p_obs c)
      else if wf_lex its then is_none (p_obs c) else true
  | None => true
  end.

Fixpoint index_filter {A} (f : A -> bool) (i : nat) (l : list A) : list nat :=
  match l with [] => [] | x :: t => if f x then index_filter f (S i) t else i :: index_filter f (S i) t end.

Definition mismatches (cs : list case) : list nat := index_filter agrees 0 cs.
Definition failing (cs : list case) : list nat := index_filter C12_ok 0 cs.
Definition explain (c : case) := (parse (p_str c), option_map wf_items (p_items c), option_map denote (p_items c)).
