(* C10 — the edit-comment lookup as git-bug had it before repair "C10-edit-full-id": after checking that the target is
   the full id of a comment, Apply looked the timeline item and the comment up again through the combined id, which
   keeps 14 characters of the operation id, first match wins.  Kept to state exactly what was wrong with it: it
   computes the documented interpretation only while no two operations of the bug share their first 14 characters,
   and such operations exist (corpus/C10/edit-shared-14.json carries two). *)
From Coq Require Import List Arith NArith Bool.
Import ListNotations.
From GB Require Import Snap SnapSpec.
Local Open Scope N_scope.

Definition timeline_target14 (tl : list titem) (t : opid) : option titem :=
  find (fun it => match it with TComment i | TOther i => tgt_match i t end) tl.

Definition upd_comment14 (t : opid) (msg : N) (files : list N) (cs : list comment) : list comment :=
  (fix go (cs : list comment) := match cs with
     | [] => []
     | c :: r => if tgt_match (c_id c) t then {| c_id := c_id c; c_author := c_author c; c_msg := msg; c_files := files; c_edits := S (c_edits c) |} :: r
                 else c :: go r end) cs.

(* every other operation kind as in [Snap.apply] *)
Definition apply14 (s : snapshot) (o : op) : snapshot :=
  match o with
  | OEditComment i au t msg files =>
      let s' :=
        if negb (existsb (fun c => id_eqb (c_id c) t) (s_comments s)) then s else
        match timeline_target14 (s_timeline s) t with
        | Some (TComment _) =>
            {| s_id := s_id s; s_status := s_status s; s_title := s_title s; s_comments := upd_comment14 t msg files (s_comments s);
               s_labels := s_labels s; s_actors := add_once au (s_actors s); s_parts := s_parts s;
               s_timeline := s_timeline s; s_ops := s_ops s; s_extra := s_extra s |}
        | _ => s
        end in
      {| s_id := s_id s'; s_status := s_status s'; s_title := s_title s'; s_comments := s_comments s'; s_labels := s_labels s';
         s_actors := s_actors s'; s_parts := s_parts s'; s_timeline := s_timeline s';
         s_ops := s_ops s' ++ [i]; s_extra := s_extra s' ++ [(i, [])] |}
  | _ => apply s o
  end.
Definition compile14 (ops : list op) : snapshot := fold_left apply14 ops (seed ops).

(* two add-comment operations sharing 14 characters: the edit of the second rewrites the first; a set-status sharing
   them with the comment behind it: the edit is dropped, its author never becomes an actor *)
Definition ex14_comments : list op :=
  [OCreate (1, 1) 1 1 1 []; OAddComment (2, 2) 1 1 []; OAddComment (2, 3) 1 2 []; OEditComment (3, 4) 2 (2, 3) 9 []].
Definition ex14_other : list op :=
  [OCreate (1, 1) 1 1 1 []; OSetStatus (2, 2) 1 2; OAddComment (2, 3) 1 2 []; OEditComment (3, 4) 2 (2, 3) 9 []].

Lemma truncated_lookup_refuted :
  exists ops o1 rest, ops = o1 :: rest /\ is_create o1 = true /\ NoDup (map snd (op_ids ops)) /\
    s_comments (compile14 ops) <> spec_comments (op_id o1) ops /\
    s_comments (compile ops) = spec_comments (op_id o1) ops.
Proof. exists ex14_comments, (OCreate (1, 1) 1 1 1 []), (tl ex14_comments). repeat split.
  - cbn. repeat constructor; cbn; intuition discriminate.
  - vm_compute. discriminate. Qed.

Lemma truncated_lookup_drops_edit :
  map c_msg (s_comments (compile14 ex14_other)) = [1; 2] /\ s_actors (compile14 ex14_other) = [1] /\
  map c_msg (spec_comments (1, 1) ex14_other) = [1; 9] /\ fst (spec_actors_parts (1, 1) ex14_other) = [1; 2] /\
  map c_msg (s_comments (compile ex14_other)) = [1; 9] /\ s_actors (compile ex14_other) = [1; 2].
Proof. vm_compute. repeat split. Qed.

