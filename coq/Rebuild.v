(* The clock rebuild of OpenGoGitRepo (repository/gogit.go) as a sequence of atomic disk mutations, and its
   crash points. A clock file is missing, broken (unreadable) or holds a value; the marker file says that a
   rebuild was started and has not completed. The witnesses `ws` are what the clock loader reads from the stored
   entities: (clock index, time) pairs, in whatever order the references are listed. *)
From Coq Require Import List NArith Bool Lia Arith.
Import ListNotations.
Local Open Scope N_scope.

Inductive cfile := Missing | Broken | Val (v : N).
Record disk := mkdisk { marker : bool; clocks : list cfile }.
Inductive act := Drop (i : nat) | SetMarker | Touch (i : nat) | Wit (i : nat) (t : N) | ClearMarker.

Fixpoint upd {A} (i : nat) (f : A -> A) (l : list A) : list A :=
  match l, i with
  | [], _ => []
  | x :: r, O => f x :: r
  | x :: r, S j => x :: upd j f r
  end.

(* NewPersistedClock writes the initial value 1; Witness writes max(current, t). A broken clock makes both fail
   (getClock returns the error), which is why the broken ones are dropped first. *)
Definition touch (c : cfile) : cfile := match c with Missing => Val 1 | c => c end.
Definition wit (t : N) (c : cfile) : cfile := match c with Val v => Val (N.max v t) | c => c end.

Definition apply (d : disk) (a : act) : disk :=
  match a with
  | Drop i => mkdisk (marker d) (upd i (fun _ => Missing) (clocks d))
  | SetMarker => mkdisk true (clocks d)
  | ClearMarker => mkdisk false (clocks d)
  | Touch i => mkdisk (marker d) (upd i touch (clocks d))
  | Wit i t => mkdisk (marker d) (upd i (wit t) (clocks d))
  end.
Definition run (d : disk) (l : list act) : disk := fold_left apply l d.

Definition nonval (c : cfile) : bool := match c with Val _ => false | _ => true end.
Definition broken (c : cfile) : bool := match c with Broken => true | _ => false end.
Definition valof (c : cfile) : N := match c with Val v => v | _ => 0 end.

Fixpoint drops_from (k : nat) (cl : list cfile) : list act :=
  match cl with
  | [] => []
  | c :: r => (if broken c then [Drop k] else []) ++ drops_from (S k) r
  end.
Definition tw (w : nat * N) : list act := [Touch (fst w); Wit (fst w) (snd w)].

(* the repaired open: the marker makes an interrupted rebuild start again *)
Definition need (d : disk) : bool := marker d || existsb nonval (clocks d).
Definition open_actions (d : disk) (ws : list (nat * N)) : list act :=
  if need d then drops_from 0 (clocks d) ++ SetMarker :: flat_map tw ws ++ [ClearMarker] else [].

(* the pinned open: a rebuild runs only when a clock is missing or broken *)
Definition need_p (d : disk) : bool := existsb nonval (clocks d).
Definition open_actions_p (d : disk) (ws : list (nat * N)) : list act :=
  if need_p d then drops_from 0 (clocks d) ++ flat_map tw ws else [].

Definition in_range (d : disk) (ws : list (nat * N)) : Prop := forall i t, In (i, t) ws -> (i < length (clocks d))%nat.
Definition dominated (d : disk) (ws : list (nat * N)) : Prop :=
  forall i t, In (i, t) ws -> t <= valof (nth i (clocks d) Missing).
Definition safe (d : disk) (ws : list (nat * N)) : Prop := need d = true \/ dominated d ws.

(* boolean forms, for the checker and the examples *)
Definition dominatedb (d : disk) (ws : list (nat * N)) : bool :=
  forallb (fun w => N.leb (snd w) (valof (nth (fst w) (clocks d) Missing))) ws.
Definition cfile_eqb (a b : cfile) : bool :=
  match a, b with Missing, Missing => true | Broken, Broken => true | Val x, Val y => N.eqb x y | _, _ => false end.
Fixpoint cfiles_eqb (a b : list cfile) : bool :=
  match a, b with [], [] => true | x :: a', y :: b' => cfile_eqb x y && cfiles_eqb a' b' | _, _ => false end.
Definition disk_eqb (a b : disk) : bool := Bool.eqb (marker a) (marker b) && cfiles_eqb (clocks a) (clocks b).
