(* C12 — queries parse as documented and return exactly the matching bugs, ordered. Property theorems only.
   Models: Query.v (query/lexer.go, parser.go), QueryRender.v (the language of doc/queries.md), QueryEval.v
   (cache/filter.go, identity_excerpt.go Match, the sorters and RepoCacheBug.Query), QueryCli.v (commands/bug/bug.go:
   from the argv of `git bug` to the query). *)
From Coq Require Import List Arith NArith Bool Sorting.Sorted Sorting.Permutation.
Import ListNotations.
From GB Require Import Query Lex QueryRender QueryEval QueryCli.
Local Open Scope N_scope.

(* ---- round trip ---- *)

(* every query record whose texts can be spelled (no text contains both kinds of quote), with statuses open/closed
   and a valid sort, is rendered to a string that parses back to exactly that record; any number of qualifiers,
   any code points in the values (white space, colons, one kind of quote, empty) *)
Theorem C12_roundtrip q : wf_query q = true -> parse (render_query q) = Some q.
Proof. exact (roundtrip_query q). Qed.
Print Assumptions C12_roundtrip.

(* the same for qualifiers in any order and any legal spelling (bare, double- or single-quoted values,
   status/state, every spelling of a status or sort the parser knows) *)
Theorem C12_roundtrip_items its : wf_items its = true -> parse (render its) = Some (denote its).
Proof. exact (parse_render its). Qed.
Print Assumptions C12_roundtrip_items.

(* what a list of qualifiers denotes: each filter list collects its values in order; the sort is the one given, else creation-desc *)
Theorem C12_denotation its :
  let r := denote its in
  q_search r = searches_of its /\ q_status r = statuses_of its /\ q_author r = authors_of its /\
  q_actor r = actors_of its /\ q_participant r = participants_of its /\ q_label r = labels_of its /\
  q_title r = titles_of its /\ q_meta r = metas_of its /\ q_nolabel r = has_no its /\
  (q_orderby r, q_dir r) = last (sorts_of its) (2, 2) /\ q_sorted r = sorted_of its.
Proof. exact (denote_spec its). Qed.
Print Assumptions C12_denotation.

(* the lexer alone: a rendered query is cut into exactly its qualifiers *)
Theorem C12_tokenize its : wf_lex its = true -> tokenize (render its) = Some (map token_of its).
Proof. exact (tokenize_render its). Qed.
Print Assumptions C12_tokenize.

(* ---- rejections ---- *)

Theorem C12_rejects_unmatched_quote s : unmatched_quote s = true -> parse s = None.
Proof. exact (reject_unmatched_quote s). Qed.
Print Assumptions C12_rejects_unmatched_quote.

Theorem C12_rejects_colon_edge s fields f : split_func false is_space s = Some fields -> In f fields ->
  has_prefix_colon f || has_suffix_colon f = true -> parse s = None.
Proof. exact (reject_colon_edge s fields f). Qed.
Print Assumptions C12_rejects_colon_edge.

Theorem C12_rejects_too_many_separators s fields f chunks : split_func false is_space s = Some fields -> In f fields ->
  split_func true is_colon f = Some chunks -> (3 < length chunks)%nat -> parse s = None.
Proof. exact (reject_too_many_separators s fields f chunks). Qed.
Print Assumptions C12_rejects_too_many_separators.

(* an empty qualifier, sub-qualifier or value in the middle: nothing between two colons (status::open, title:::x,
   metadata::k:v, metadata:k::v); at the edges it is C12_rejects_colon_edge; an empty value is written "" *)
Theorem C12_rejects_empty_chunk s fields f chunks : split_func false is_space s = Some fields -> In f fields ->
  split_func true is_colon f = Some chunks -> In [] chunks -> parse s = None.
Proof. exact (reject_empty_chunk s fields f chunks). Qed.
Print Assumptions C12_rejects_empty_chunk.

(* the lexer as it was dropped empty chunks, its own "empty qualifier or value" test between colons could not fire:
   status::open was read as status:open *)
Theorem C12_empty_chunk_accepted_refuted : exists s, malformed s /\ parse_lenient s <> None.
Proof. exact empty_chunk_lenient_refuted. Qed.
Print Assumptions C12_empty_chunk_accepted_refuted.

(* the repair takes nothing away from the documented language: on a rendered query the two lexers agree *)
Theorem C12_tokenize_any_lexer strict its : wf_lex its = true -> tokenize_k strict (render its) = Some (map token_of its).
Proof. exact (tokenize_k_render strict its). Qed.
Print Assumptions C12_tokenize_any_lexer.

Theorem C12_rejects_unknown_qualifier s ts k v : tokenize s = Some ts -> In (TKV k v) ts -> known_key k = false -> parse s = None.
Proof. exact (reject_unknown_qualifier s ts k v). Qed.
Print Assumptions C12_rejects_unknown_qualifier.

Theorem C12_rejects_unknown_subqualifier s ts k sk v : tokenize s = Some ts -> In (TKVV k sk v) ts ->
  str_eqb k k_metadata = false -> parse s = None.
Proof. exact (reject_unknown_subqualifier s ts k sk v). Qed.
Print Assumptions C12_rejects_unknown_subqualifier.

Theorem C12_rejects_unknown_status s ts k v : tokenize s = Some ts -> In (TKV k v) ts ->
  str_eqb k k_status || str_eqb k k_state = true -> status_of v = None -> parse s = None.
Proof. exact (reject_unknown_status s ts k v). Qed.
Print Assumptions C12_rejects_unknown_status.

Theorem C12_rejects_unknown_no s ts v : tokenize s = Some ts -> In (TKV k_no v) ts -> str_eqb v k_label = false -> parse s = None.
Proof. exact (reject_unknown_no s ts v). Qed.
Print Assumptions C12_rejects_unknown_no.

Theorem C12_rejects_unknown_sort s ts v : tokenize s = Some ts -> In (TKV k_sort v) ts -> sorting v = None -> parse s = None.
Proof. exact (reject_unknown_sort s ts v). Qed.
Print Assumptions C12_rejects_unknown_sort.

Theorem C12_rejects_second_sort s a v1 b v2 c :
  tokenize s = Some (a ++ TKV k_sort v1 :: b ++ TKV k_sort v2 :: c) -> parse s = None.
Proof. exact (reject_second_sort s a v1 b v2 c). Qed.
Print Assumptions C12_rejects_second_sort.

(* all of the above in one statement, and its converse: the parser refuses a string exactly for one of these reasons
   (M_field_quote and the empty case of M_separators cannot occur for a field cut out by the lexer; they are
   kept so that the equivalence needs no further lemma) *)
Theorem C12_rejects s : malformed s -> parse s = None.
Proof. exact (rejects_sound s). Qed.
Print Assumptions C12_rejects.

Theorem C12_rejects_complete s : parse s = None -> malformed s.
Proof. exact (rejects_complete s). Qed.
Print Assumptions C12_rejects_complete.

(* at the level of rendered queries: a value outside a closed vocabulary (status, no, sort) or a second sort *)
Theorem C12_rejects_rendered its : wf_lex its = true ->
  (existsb (fun it => negb (wf_sem_item it)) its = true \/ (2 <= count_sort its)%nat) -> parse (render its) = None.
Proof. exact (reject_render its). Qed.
Print Assumptions C12_rejects_rendered.

(* whatever is accepted carries a sort key in {id, creation, edit}, a direction and only open/closed statuses *)
Theorem C12_accepted_valid s q : parse s = Some q ->
  valid_sort (q_orderby q) (q_dir q) = true /\ forallb valid_status (q_status q) = true.
Proof. exact (parse_valid s q). Qed.
Print Assumptions C12_accepted_valid.

(* ---- matching ---- *)

(* any-of within status, author, metadata, participant, actor; all-of for label, no:label, title; all-of across kinds.
   [lower] is strings.ToLower per code point (any function). Names, logins and titles are compared lowered on both
   sides; the id test lowers only the query; labels and metadata are compared exactly (case-sensitive). *)
Theorem C12_match_spec lower q b : matches lower q b = true <->
  (q_status q = [] \/ exists st, In st (q_status q) /\ b_status b = st) /\
  (q_author q = [] \/ exists v, In v (q_author q) /\ ident_matches lower v (b_author b)) /\
  (q_meta q = [] \/ exists k v, In (k, v) (q_meta q) /\ assoc k (b_meta b) = Some v) /\
  (q_participant q = [] \/ exists v, In v (q_participant q) /\ exists i, In i (b_participants b) /\ ident_matches lower v i) /\
  (q_actor q = [] \/ exists v, In v (q_actor q) /\ exists i, In i (b_actors b) /\ ident_matches lower v i) /\
  (forall l, In l (q_label q) -> In l (b_labels b)) /\
  (q_nolabel q = true -> b_labels b = []) /\
  (forall t, In t (q_title q) -> exists pre post, lower_s lower (b_title b) = pre ++ lower_s lower t ++ post).
Proof. exact (matches_spec lower q b). Qed.
Print Assumptions C12_match_spec.

(* an identity matches a value: lowered value is a prefix of the id, or occurs in the lowered name or login *)
Theorem C12_ident_match_spec lower v i : ident_match lower (lower_s lower v) i = true <->
  (exists post, i_id i = lower_s lower v ++ post) \/
  (exists pre post, lower_s lower (i_name i) = pre ++ lower_s lower v ++ post) \/
  (exists pre post, lower_s lower (i_login i) = pre ++ lower_s lower v ++ post).
Proof. exact (ident_match_spec lower v i). Qed.
Print Assumptions C12_ident_match_spec.

Theorem C12_case_insensitive_value lower v v' i : lower_s lower v = lower_s lower v' ->
  ident_match lower (lower_s lower v) i = ident_match lower (lower_s lower v') i.
Proof. exact (ci_query_value lower v v' i). Qed.
Print Assumptions C12_case_insensitive_value.

Theorem C12_case_insensitive_name lower ql i i' : i_id i = i_id i' -> lower_s lower (i_name i) = lower_s lower (i_name i') ->
  lower_s lower (i_login i) = lower_s lower (i_login i') -> ident_match lower ql i = ident_match lower ql i'.
Proof. exact (ci_ident_name lower ql i i'). Qed.
Print Assumptions C12_case_insensitive_name.

Theorem C12_case_insensitive_title lower t t' b : lower_s lower t = lower_s lower t' -> f_title lower t b = f_title lower t' b.
Proof. exact (ci_title lower t t' b). Qed.
Print Assumptions C12_case_insensitive_title.

(* full-text terms: any-of; a term is found in a bug when its words (lower-cased, cut at every code point that is no
   letter and no digit) occur in a row in one indexed text *)
Theorem C12_search_spec lower q b : found lower q b = true <->
  (q_search q = [] \/ exists t, In t (q_search q) /\ term_words lower t <> [] /\
     exists text pre post, In text (b_texts b) /\ text = pre ++ term_words lower t ++ post).
Proof. exact (found_spec lower q b). Qed.
Print Assumptions C12_search_spec.

(* a search term is text, not an expression: whatever stands around a word and is no letter and no digit (-crash,
   crash~2, (crash), "crash", +crash) does not change what is looked for, and such characters alone (->, >=, ^, /)
   look for nothing; in particular evaluation is defined for them (C12_eval_total). The index as it was read terms
   as bleve query strings (syntax errors, negation, field queries): observed by the check, not modelled. *)
Theorem C12_search_term_is_text lower (Hl : forall r, is_word_rune (lower r) = is_word_rune r) p w s :
  forallb (fun r => negb (is_word_rune r)) p = true -> forallb (fun r => negb (is_word_rune r)) s = true ->
  w <> [] -> forallb is_word_rune w = true -> term_words lower (p ++ w ++ s) = [lower_s lower w].
Proof. exact (term_words_decorated lower Hl p w s). Qed.
Print Assumptions C12_search_term_is_text.

Theorem C12_search_operators_alone lower (Hl : forall r, is_word_rune (lower r) = is_word_rune r) p :
  forallb (fun r => negb (is_word_rune r)) p = true -> term_words lower p = [].
Proof. exact (term_words_operators lower Hl p). Qed.
Print Assumptions C12_search_operators_alone.

(* the hypothesis on the lower-casing holds for the one the check uses *)
Example C12_lower_keeps_words r : is_word_rune (lower_rune r) = is_word_rune r.
Proof. exact (lower_rune_word r). Qed.

(* ---- evaluation ---- *)

(* the answer is a permutation of the selected bugs (found by the search and matching the filters), without
   duplicates when ids are distinct, and every earlier element may stand before every later one for the requested
   key and direction; nothing is said about the order among equal keys (Go's sort is unstable, the input a map) *)
Theorem C12_eval lower q bugs r : eval lower q bugs = Some r ->
  Permutation r (filter (selected lower q) bugs) /\
  StronglySorted (fun a b => ord (q_orderby q) (q_dir q) a b = true) r /\
  (NoDup (map b_id bugs) -> NoDup (map b_id r)) /\
  (forall b, In b r <-> In b bugs /\ selected lower q b = true).
Proof. exact (eval_spec lower q bugs r). Qed.
Print Assumptions C12_eval.

(* ord in terms of the Less functions of the Go sorters: ascending = Less(later, earlier) never holds,
   descending = Less(earlier, later) never holds *)
Theorem C12_order_meaning ob d a b :
  ord ob d a b = if N.eqb d 1 then negb (klt (skey ob b) (skey ob a)) else negb (klt (skey ob a) (skey ob b)).
Proof. exact (ord_less ob d a b). Qed.
Print Assumptions C12_order_meaning.

(* a parsed query can always be evaluated (no "missing sort type/direction") *)
Theorem C12_eval_total lower s q bugs : parse s = Some q -> eval lower q bugs <> None.
Proof. exact (eval_total lower s q bugs). Qed.
Print Assumptions C12_eval_total.

(* ---- the command line: `git bug [flags] [QUERY...]` ---- *)

(* every argv element is a piece of the documented language given verbatim (quotes protected from the shell:
   title:"Typo in string", or several qualifiers in one element) or one qualifier whose quotes the shell removed
   (title:Typo in string): the command hands the parser a string that parses to what the elements denote *)
Theorem C12_cli_roundtrip args : args <> [] -> Forall (fun a => wf_arg a = true) args -> wf_items (flat_map arg_items args) = true ->
  parse (repair true (map arg_str args)) = Some (denote (flat_map arg_items args)).
Proof. exact (cli_parse args). Qed.
Print Assumptions C12_cli_roundtrip.

(* the command as it was put quotes around the pieces of an element that has its quotes already *)
Theorem C12_cli_roundtrip_pinned_refuted : exists args, args <> [] /\ Forall (fun a => wf_arg a = true) args /\
  wf_items (flat_map arg_items args) = true /\
  parse (repair false (map arg_str args)) <> Some (denote (flat_map arg_items args)).
Proof. exact cli_parse_pinned_refuted. Qed.
Print Assumptions C12_cli_roundtrip_pinned_refuted.

(* sorting: a flag that is given wins, then the sort qualifier of the query, then the defaults (creation, asc) *)
Theorem C12_cli_sort q f q' : complete true q f = Some q' ->
  Some (q_orderby q') = (match fl_by f with Some v => by_of v | None => Some (if q_sorted q then q_orderby q else 2) end) /\
  Some (q_dir q') = (match fl_dir f with Some v => dir_of v | None => Some (if q_sorted q then q_dir q else 1) end).
Proof. exact (complete_sort q f q'). Qed.
Print Assumptions C12_cli_sort.

(* as it was, the default values of --by / --direction replaced the sort qualifier of the query *)
Theorem C12_cli_sort_pinned_refuted : exists q q', q_sorted q = true /\ complete false q no_flags = Some q' /\
  (q_orderby q', q_dir q') <> (q_orderby q, q_dir q).
Proof. exact complete_sort_pinned_refuted. Qed.
Print Assumptions C12_cli_sort_pinned_refuted.

(* the filter flags add their values after those of the query; --metadata key=value is cut at the first = *)
Theorem C12_cli_filters fixed q f q' : complete fixed q f = Some q' ->
  q_search q' = q_search q /\ q_author q' = q_author q ++ fl_author f /\ q_actor q' = q_actor q ++ fl_actor f /\
  q_participant q' = q_participant q ++ fl_participant f /\ q_label q' = q_label q ++ fl_label f /\ q_title q' = q_title q ++ fl_title f /\
  (exists sts, all_some (map status_of (fl_status f)) = Some sts /\ q_status q' = q_status q ++ sts) /\
  (exists ms, all_some (map (if fixed then cut_first else cut_pinned) (fl_meta f)) = Some ms /\ q_meta q' = q_meta q ++ ms).
Proof. exact (complete_filters fixed q f q'). Qed.
Print Assumptions C12_cli_filters.

Theorem C12_cli_metadata_flag k v : existsb (N.eqb eq_sign) k = false -> cut_first (k ++ eq_sign :: v) = Some (k, v).
Proof. exact (meta_flag_cut k v). Qed.
Print Assumptions C12_cli_metadata_flag.

Theorem C12_cli_metadata_flag_pinned_refuted : exists k v, existsb (N.eqb eq_sign) k = false /\ cut_pinned (k ++ eq_sign :: v) <> Some (k, v).
Proof. exact meta_flag_pinned_refuted. Qed.
Print Assumptions C12_cli_metadata_flag_pinned_refuted.

(* ---- non-vacuity ---- *)

(* a query with quoted multi-word values, a quoted colon in a metadata value, an apostrophe, an empty value *)
Example C12_wf_example :
  let q := {| q_search := [[100;101]]; q_status := [1; 2]; q_author := [[82;101;110;233;32;68;101;115;99;97;114;116;101;115]];
              q_meta := [([107;101;121], [97;58;98;32;99])]; q_actor := []; q_participant := [[]];
              q_label := [[71;111;111;100;32;102;105;114;115;116;32;105;115;115;117;101]]; q_title := [[105;116;39;115]];
              q_nolabel := true; q_orderby := 3; q_dir := 1; q_sorted := true |} in
  wf_query q = true /\ parse (render_query q) = Some q.
Proof. vm_compute. split; reflexivity. Qed.

(* the documented spellings of status and sort *)
Example C12_vocabulary :
  status_of s_open = Some 1 /\ status_of s_closed = Some 2 /\ status_of [79;80;69;78] = Some 1 /\
  sorting v_id = Some (1, 1) /\ sorting v_id_asc = Some (1, 1) /\ sorting v_id_desc = Some (1, 2) /\
  sorting v_creation = Some (2, 2) /\ sorting v_creation_desc = Some (2, 2) /\ sorting v_creation_asc = Some (2, 1) /\
  sorting v_edit = Some (3, 2) /\ sorting v_edit_desc = Some (3, 2) /\ sorting v_edit_asc = Some (3, 1).
Proof. vm_compute. repeat split; reflexivity. Qed.

(* sort:id sort:edit is rejected; so are  a:b:c:d ,  :a ,  author: followed by an unclosed quotation, and STATUS:open
   (qualifier names are case-sensitive) *)
Example C12_reject_examples :
  parse (k_sort ++ [58] ++ v_id ++ [32] ++ k_sort ++ [58] ++ v_edit) = None /\
  parse [97;58;98;58;99;58;100] = None /\ parse [58;97] = None /\ parse (k_author ++ [58;34;120]) = None /\
  parse ([83;84;65;84;85;83;58] ++ s_open) = None.
Proof. vm_compute. repeat split; reflexivity. Qed.

(* two bugs with equal creation keys, one closed: status:open author:REN (name René) sort:creation-asc *)
Example C12_eval_example :
  let rene := mkident [97;98;99] [82;101;110;233] [] in
  let b1 := mkbug 1 5 7 9 9 rene 1 [] [116] [rene] [rene] [] [[[116]]] in
  let b2 := mkbug 2 5 7 8 8 rene 1 [[108]] [116] [rene] [rene] [] [[[116]]] in
  let b3 := mkbug 3 4 7 8 8 rene 2 [] [116] [rene] [rene] [] [[[116]]] in
  match parse (k_status ++ [58] ++ s_open ++ [32] ++ k_author ++ [58;82;69;78] ++ [32] ++ k_sort ++ [58] ++ v_creation_asc) with
  | Some q => option_map (map b_id) (eval lower_rune q [b3; b2; b1]) = Some [2; 1]
  | None => False
  end.
Proof. vm_compute. reflexivity. Qed.
