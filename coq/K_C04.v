(* C04 — stored form of every commit against the Tree.v codec; read-back identity flags from the harness. *)
From Coq Require Import List NArith Bool.
Import ListNotations.
From GB Require Export Decimal Tree.
Local Open Scope N_scope.

Record case := mkcase4 { k_gogit : bool (* go-git backend: trees are stored sorted; the in-memory test backend keeps the given order *);
                        k_trees : list (list entry); k_flags : list bool }.

Definition entry_eqb (a b : entry) : bool := str_eqb (fst a) (fst b) && Bool.eqb (snd a) (snd b).
Fixpoint entries_eqb (a b : list entry) : bool :=
  match a, b with [], [] => true | x :: a', y :: b' => entry_eqb x y && entries_eqb a' b' | _, _ => false end.

Definition has_extra (l : list entry) : bool := existsb (fun e => str_eqb (fst e) s_extra && snd e) l.

(* the model's reader decodes the stored tree, and the model's writer rebuilds exactly that tree from the decoded values *)
Definition tree_agrees (gogit : bool) (l : list entry) : bool :=
  match read_entries 4 l with
  | ROk v true e c => entries_eqb (store_tree {| t_version := v; t_edit := e; t_create := c; t_extra := has_extra l |}) (if gogit then l else git_sort l)
  | _ => false
  end.
Definition agrees (c : case) : bool := forallb (tree_agrees (k_gogit c)) (k_trees c).

Definition C04_ok (c : case) : bool :=
  forallb (fun b => b) (k_flags c) &&
  forallb (fun l => (negb (k_gogit c) || sorted_strict l) && match read_entries 4 l with ROk _ true e _ => negb (N.eqb e 0) | _ => false end) (k_trees c) &&
  (* the root pack, and only it, carries the creation clock *)
  match k_trees c with
  | [] => false
  | root :: rest =>
      match read_entries 4 root with ROk _ _ _ cr => negb (N.eqb cr 0) | _ => false end &&
      forallb (fun l => match read_entries 4 l with ROk _ _ _ cr => N.eqb cr 0 | _ => false end) rest
  end.

Fixpoint index_filter {A} (f : A -> bool) (i : nat) (l : list A) : list nat :=
  match l with [] => [] | x :: t => if f x then index_filter f (S i) t else i :: index_filter f (S i) t end.
Definition mismatches (cs : list case) : list nat := index_filter agrees 0 cs.
Definition failing (cs : list case) : list nat := index_filter C04_ok 0 cs.
Definition explain (c : case) := map (read_entries 4) (k_trees c).
