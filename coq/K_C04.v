(* C04 — stored form of every commit against the Tree.v codec; read-back identity flags from the harness;
   texts, operations, commit decisions, the final read and the names in commits against Accept.v;
   the edit clocks of the chain against ClockWrap.readable. *)
From Coq Require Import List NArith Bool Arith.
Import ListNotations.
From GB Require Export Decimal Tree Accept.
From GB Require ClockWrap.
Local Open Scope N_scope.

(* a text the case uses: bytes, and what the implementation says of it (text.Empty, text.Safe, text.SafeOneLine) *)
Record text := mktext { t_bytes : list N; t_empty : bool; t_safe : bool; t_line : bool }.
(* an attempt to make an operation: texts (indices) that have to be non-empty and one-line safe / one-line safe /
   safe / valid UTF-8; whether that is the whole rule for this kind; whether the operation was accepted *)
Record opatt := mkop { o_line : list nat; o_line0 : list nat; o_multi : list nat; o_utf8 : list nat; o_predict : bool; o_accepted : bool }.
(* an object of the bug is (re)read from the repository / commits: kinds of all its operations, numbers of the
   staged ones, authors and files of the staged ones stored, Commit returned nil *)
Inductive ev := ELoad (h : nat) | ECommit (h : nat) (kinds : list N) (new : list nat) (prereq : bool) (accepted : bool).

Record case := mkcase4 { k_gogit : bool (* go-git backend: trees are stored sorted; the in-memory test backend keeps the given order *);
                        k_trees : list (list entry); k_flags : list bool;
                        k_texts : list text; k_ops : list opatt; k_evs : list ev;
                        k_readable : bool (* the bug could be read at the end *); k_read : list nat (* numbers of the operations read *);
                        k_pairs : list (nat * nat) (* text of a committed operation in memory, read back (indices in k_texts) *);
                        k_names : list (list N * list N) (* configured name, name in the commit written *) }.

Definition text_at (c : case) (i : nat) : list N := match nth_error (k_texts c) i with Some t => t_bytes t | None => [] end.
Definition rep (n : nat) (u : list N) : list N := concat (repeat u n).

Definition entry_eqb (a b : entry) : bool := str_eqb (fst a) (fst b) && Bool.eqb (snd a) (snd b).
Fixpoint entries_eqb (a b : list entry) : bool :=
  match a, b with [], [] => true | x :: a', y :: b' => entry_eqb x y && entries_eqb a' b' | _, _ => false end.

Definition has_extra (l : list entry) : bool := existsb (fun e => str_eqb (fst e) s_extra && snd e) l.

(* the model's reader decodes the stored tree, and the model's writer rebuilds exactly that tree from the decoded values *)
Definition tree_agrees (gogit : bool) (l : list entry) : bool :=
  match read_entries 4 l with
  | ROk v true e c => entries_eqb (store_tree {| t_version := v; t_edit := e; t_create := c; t_extra := has_extra l |}) (if gogit then l else git_sort l)
  | _ => false
  end.

(* ---- texts and operations ---- *)
Record tverdict := mktv { v_valid : bool; v_safe : bool; v_line : bool; v_empty : bool }.
Definition verdict (t : text) : tverdict :=
  let b := t_bytes t in mktv (valid b) (safe b) (safe_line b) (t_empty t).
Definition tv0 : tverdict := mktv false false false true.
Definition op_valid (tv : list tverdict) (o : opatt) : bool :=
  if o_predict o then
    forallb (fun i => let v := nth i tv tv0 in v_line v && negb (v_empty v)) (o_line o) &&
    forallb (fun i => v_line (nth i tv tv0)) (o_line0 o) &&
    forallb (fun i => v_safe (nth i tv tv0)) (o_multi o) &&
    forallb (fun i => v_valid (nth i tv tv0)) (o_utf8 o)
  else o_accepted o.
Definition op0 : opatt := mkop [] [] [] [] false false.

(* ---- commit decisions: Accept.hrun with the compare-and-set guard ---- *)
Definition to_hev (ov : list bool) (e : ev) : hev :=
  match e with
  | ELoad h => HLoad h
  | ECommit h kinds new prereq _ =>
      HCommit h (shape_ok kinds && forallb (fun n => nth n ov false) new && prereq && negb (match new with [] => true | _ => false end)) new
  end.
Definition observed (evs : list ev) : list bool :=
  flat_map (fun e => match e with ECommit _ _ _ _ a => [a] | _ => [] end) evs.
Definition committed_obs (evs : list ev) : list nat :=
  flat_map (fun e => match e with ECommit _ _ new _ true => new | _ => [] end) evs.
Fixpoint bools_eqb (a b : list bool) : bool :=
  match a, b with [], [] => true | x :: a', y :: b' => Bool.eqb x y && bools_eqb a' b' | _, _ => false end.

(* ---- the edit clocks along the chain ---- *)
Definition edit_of_tree (l : list entry) : N := match read_entries 4 l with ROk _ _ e _ => e | _ => 0 end.
Fixpoint chain_readable (p : N) (es : list N) : bool :=
  match es with [] => true | e :: t => ClockWrap.readable p e && chain_readable e t end.
Definition trees_readable (ts : list (list entry)) : bool :=
  match map edit_of_tree ts with [] => true | e :: t => negb (e =? 0) && chain_readable e t end.

Definition model (c : case) :=
  let tv := map verdict (k_texts c) in
  let ov := map (op_valid tv) (k_ops c) in
  (tv, ov, hrun true hs0 (map (to_hev ov) (k_evs c))).

Definition agrees (c : case) : bool :=
  let '(tv, ov, (_, log, decisions)) := model c in
  forallb (tree_agrees (k_gogit c)) (k_trees c) &&
  (* text.Safe, text.SafeOneLine *)
  forallb (fun x => Bool.eqb (v_safe (snd x)) (t_safe (fst x)) && Bool.eqb (v_line (snd x)) (t_line (fst x))) (combine (k_texts c) tv) &&
  (* what the editing API accepts *)
  bools_eqb ov (map o_accepted (k_ops c)) &&
  (* what Commit accepts *)
  bools_eqb decisions (observed (k_evs c)) &&
  (* what is read at the end: the operations of the accepted commits, in that order *)
  (negb (k_readable c) || nats_eqb (k_read c) log) &&
  (* readable: nothing but the clock rules of dag.read can make unreadable what Commit accepted *)
  Bool.eqb (k_readable c) (trees_readable (k_trees c)) &&
  (* encoding/json *)
  forallb (fun p => str_eqb (stored (text_at c (fst p))) (text_at c (snd p))) (k_pairs c) &&
  (* repository.identConfig *)
  forallb (fun p => str_eqb (clean (fst p)) (snd p)) (k_names c).

Definition C04_ok (c : case) : bool :=
  let any := existsb (fun b => b) (observed (k_evs c)) in
  forallb (fun b => b) (k_flags c) &&
  forallb (fun l => (negb (k_gogit c) || sorted_strict l) && match read_entries 4 l with ROk _ true e _ => negb (N.eqb e 0) | _ => false end) (k_trees c) &&
  (* the root pack, and only it, carries the creation clock *)
  match k_trees c with
  | [] => negb any
  | root :: rest =>
      match read_entries 4 root with ROk _ _ _ cr => negb (N.eqb cr 0) | _ => false end &&
      forallb (fun l => match read_entries 4 l with ROk _ _ _ cr => N.eqb cr 0 | _ => false end) rest
  end &&
  (* what Commit accepted can be read, and every operation of an accepted commit is read *)
  (negb any || k_readable c) &&
  (negb (k_readable c) || forallb (fun n => existsb (Nat.eqb n) (k_read c)) (committed_obs (k_evs c))) &&
  (* texts are read back byte for byte *)
  forallb (fun p => str_eqb (text_at c (fst p)) (text_at c (snd p))) (k_pairs c).

Fixpoint index_filter {A} (f : A -> bool) (i : nat) (l : list A) : list nat :=
  match l with [] => [] | x :: t => if f x then index_filter f (S i) t else i :: index_filter f (S i) t end.
Definition mismatches (cs : list case) : list nat := index_filter agrees 0 cs.
Definition failing (cs : list case) : list nat := index_filter C04_ok 0 cs.
Definition explain (c : case) :=
  let '(tv, ov, (_, log, decisions)) := model c in
  (map (read_entries 4) (k_trees c), map (fun v => (v_valid v, v_safe v, v_line v)) tv, ov, decisions, log, trees_readable (k_trees c)).
