(* C19 — only one process at a time can open a repository's cache. Property theorems only.
   Model: Lock.v (lock file = absent | pid | torn, live/dead processes, holders; open = Test ; Create ; Write,
   Write being the rename of a temporary file that holds the pid).
   Standing assumption, explicit as [aok]/[mem p (dead s) = false]: the pid of a dead process is not reused. *)
From Coq Require Import List Arith Bool Lia.
Import ListNotations.
From GB Require Import Lock.

(* while the holder named in the lock file is alive, an open is refused, names the holder and changes nothing *)
Theorem C19_refuse s p q : lockf s = Some (LPid q) -> mem q (dead s) = false -> open_atomic s p = (s, Refused q).
Proof. exact (refuse_open s p q). Qed.
Print Assumptions C19_refuse.

(* the same seen through a whole command, on every path that reaches the open: the command reports the holder,
   the lock file still names the holder, the holder is alive and still holds *)
Theorem C19_refuse_command f pa s p q : pa <> EarlyErr -> lockf s = Some (LPid q) -> mem q (dead s) = false -> p <> q ->
  let r := command fixed f pa s p in
  snd r = Refused q /\ lockf (fst r) = Some (LPid q) /\ mem q (dead (fst r)) = false /\
  (In q (holders s) -> In q (holders (fst r))).
Proof. exact (refuse_command f pa s p q). Qed.
Print Assumptions C19_refuse_command.

(* ... and leaves the whole state as it was — lock file, temporary lock files, the other processes' caches — except
   that the refused process is gone *)
Theorem C19_refuse_changes_nothing f pa s p q : pa <> EarlyErr -> lockf s = Some (LPid q) -> mem q (dead s) = false ->
  let s' := fst (command fixed f pa s p) in
  s' = fst (kill1 s p) /\ lockf s' = lockf s /\ tmpf s' = tmpf s /\ holders s' = rm p (holders s).
Proof. exact (refuse_command_frame f pa s p q). Qed.
Print Assumptions C19_refuse_changes_nothing.

(* a web UI asked to stop while it serves a request waits for the request before it closes the cache: as long as it
   lives it holds, its lock stays and names it, everybody else is refused; once the request has ended the lock is gone *)
Theorem C19_shutdown_keeps_lock s p q : inv s -> In p (holders s) ->
  let s1 := ask WaitThenClose s p in
  In p (holders s1) /\ lockf s1 = Some (LPid p) /\ open_atomic s1 q = (s1, Refused p) /\ inv (finish WaitThenClose s1 p) /\
  lockf (finish WaitThenClose s1 p) = None.
Proof. exact (asked_keeps_lock s p q). Qed.
Print Assumptions C19_shutdown_keeps_lock.

(* no temporary lock file is left by any schedule of opens (granted or refused), closes, kills and failing commands in
   which nobody dies in the middle of an open; by a whole command on any path; and one that is there belongs to a process that is gone *)
Theorem C19_no_stray_tmp es s : forallb (fun e => negb (crashes e)) es = true -> tmpf s = [] -> tmpf (arun s es) = [].
Proof. exact (no_stray_tmp es s). Qed.
Print Assumptions C19_no_stray_tmp.
Theorem C19_command_leaves_no_tmp f pa s p : tmpf s = [] -> tmpf (fst (command fixed f pa s p)) = [].
Proof. exact (command_no_tmp f pa s p). Qed.
Print Assumptions C19_command_leaves_no_tmp.
Theorem C19_tmp_of_dead s : areach s -> forall x, In x (tmpf s) -> mem x (dead s) = true.
Proof. exact (tinv_areach s). Qed.
Print Assumptions C19_tmp_of_dead.

(* the holder has died leaving its lock behind: the next open succeeds and the lock names the opener *)
Theorem C19_stale s p q : inv s -> lockf s = Some (LPid q) -> mem q (dead s) = true ->
  snd (open_atomic s p) = Granted /\ lockf (fst (open_atomic s p)) = Some (LPid p) /\ In p (holders (fst (open_atomic s p))).
Proof. exact (stale_open s p q). Qed.
Print Assumptions C19_stale.

(* an empty lock file, as an older version could leave it, does not block anybody *)
Theorem C19_stale_torn s p : inv s -> lockf s = Some LTorn ->
  snd (open_atomic s p) = Granted /\ lockf (fst (open_atomic s p)) = Some (LPid p) /\ In p (holders (fst (open_atomic s p))).
Proof. exact (torn_open s p). Qed.
Print Assumptions C19_stale_torn.

(* whatever the interleaving of the sub-steps of any number of opens, closes, kills and failing commands,
   the lock file never exists without a pid in it *)
Theorem C19_no_torn_lock es : forallb fixed_ev es = true -> lockf (run es) <> Some LTorn.
Proof. exact (no_torn es). Qed.
Print Assumptions C19_no_torn_lock.

(* the holder closed cleanly (or ended through an error path / the signal cleaner): the next open succeeds *)
Theorem C19_free_after_close s p q : inv s -> In q (holders s) ->
  let s1 := astep s (AClose q) in
  snd (open_atomic s1 p) = Granted /\ lockf (fst (open_atomic s1 p)) = Some (LPid p) /\ holders (fst (open_atomic s1 p)) = [p].
Proof. exact (free_after_close s p q). Qed.
Print Assumptions C19_free_after_close.
Theorem C19_free_after_fail s p q : inv s -> In q (holders s) ->
  let s1 := astep s (AFail q) in
  snd (open_atomic s1 p) = Granted /\ lockf (fst (open_atomic s1 p)) = Some (LPid p) /\ holders (fst (open_atomic s1 p)) = [p].
Proof. exact (free_after_fail s p q). Qed.
Print Assumptions C19_free_after_fail.

(* whatever the other processes do — open, close, fail, get killed, crash in the middle of an open, in any number
   and order — the lock of a live process stays *)
Theorem C19_never_removes_live_lock es s q : inv s -> aoks s es = true -> lockf s = Some (LPid q) -> mem q (dead s) = false ->
  (forall e, In e es -> actor e <> q) -> lockf (arun s es) = Some (LPid q).
Proof. exact (live_lock_run es s q). Qed.
Print Assumptions C19_never_removes_live_lock.

(* every exit path of a command — error before the open, refused, error after the lock is taken (pre-run or body),
   success, signal — leaves no lock of that process, no open cache of it, and the invariant *)
Theorem C19_release_all_paths f pa s p : inv s -> mem p (dead s) = false -> ~ In p (holders s) -> lockf s <> Some (LPid p) ->
  let s' := fst (command fixed f pa s p) in
  inv s' /\ ~ In p (holders s') /\ lockf s' <> Some (LPid p) /\ mem p (dead s') = true.
Proof. exact (release_all_paths f pa s p). Qed.
Print Assumptions C19_release_all_paths.

(* mutual exclusion for the atomic test-and-write, in every reachable state of any schedule of
   open / close / kill / fail / crash-inside-open steps *)
Theorem C19_mutex s p q : areach s -> In p (holders s) -> In q (holders s) -> p = q.
Proof. exact (mutex_reach s p q). Qed.
Print Assumptions C19_mutex.
Theorem C19_mutex_count s : areach s -> length (holders s) <= 1.
Proof. exact (mutex_count s). Qed.
Print Assumptions C19_mutex_count.
Theorem C19_invariant s : areach s -> inv s.
Proof. exact (inv_areach s). Qed.
Print Assumptions C19_invariant.

(* ---- what the code as written does not guarantee ---- *)
(* the open is test ; create ; write: two processes can both pass the test and both hold (true of the repaired steps too) *)
Theorem C19_toctou_refuted : exists es, forallb fixed_ev es = true /\ holders (run es) = [2; 1] /\ dead (run es) = [].
Proof. exact toctou_refuted. Qed.
Print Assumptions C19_toctou_refuted.
(* ... after which a clean close by one of them removes the lock while the other, alive, still holds *)
Theorem C19_removes_live_lock_refuted : exists es, holders (run es) = [2] /\ lockf (run es) = None /\ dead (run es) = [].
Proof. exact removes_live_lock_refuted. Qed.
Print Assumptions C19_removes_live_lock_refuted.
(* the pinned tree (lock file created in place, pid written in a second step, empty file = error): a process that dies
   in between leaves a lock that refuses everybody, for ever *)
Theorem C19_torn_lock_refuted : exists es, dead (run es) = [1] /\ holders (run es) = [] /\ lockf (run es) = Some LTorn /\
  forall p, step (run es) (TestPinned p) = (run es, Corrupt).
Proof. exact torn_lock_refuted. Qed.
Print Assumptions C19_torn_lock_refuted.
(* the pinned wrapper: no identity / cache build error / webui cannot listen — the lock of the finished command stays *)
Theorem C19_release_pinned_refuted :
  lockf (fst (command pinned FEnsureUser PreErr st0 1)) = Some (LPid 1) /\
  lockf (fst (command pinned FBackend PreErr st0 1)) = Some (LPid 1) /\
  lockf (fst (command pinned FWebui RunErr st0 1)) = Some (LPid 1) /\
  mem 1 (dead (fst (command pinned FWebui RunErr st0 1))) = true.
Proof. exact pinned_leaks_refuted. Qed.
Print Assumptions C19_release_pinned_refuted.
(* a repair that also closes the backend when the open was refused removes the live holder's lock *)
Theorem C19_close_on_refusal_refuted : exists s, inv s /\ lockf s = Some (LPid 1) /\ In 1 (holders s) /\
  let s' := fst (command close_always FBackend Success s 2) in
  lockf s' = None /\ In 1 (holders s') /\ mem 1 (dead s') = false.
Proof. exact close_on_refusal_refuted. Qed.
Print Assumptions C19_close_on_refusal_refuted.

(* a shutdown that closes the cache first and waits for the requests afterwards: the lock of a live process that is
   still serving is gone, the next process is admitted next to it *)
Theorem C19_early_release_refuted : exists s, inv s /\ In 1 (holders s) /\
  let s1 := ask CloseThenWait s 1 in
  lockf s1 = None /\ mem 1 (dead s1) = false /\
  snd (open_atomic s1 2) = Granted /\ holders (fst (open_atomic s1 2)) = [2; 1] /\ dead (fst (open_atomic s1 2)) = [].
Proof. exact early_release_refuted. Qed.
Print Assumptions C19_early_release_refuted.

(* ---- holders and openers of different users ----
   kill(pid, 0) answers EPERM for a process of another user: it exists. Liveness is existence, so the protocol above is
   the protocol for any assignment of users to processes ... *)
Theorem C19_liveness_is_existence own s p : open_u Exists own s p = open_atomic s p.
Proof. exact (open_u_exists own s p). Qed.
Print Assumptions C19_liveness_is_existence.
(* ... a live holder is protected from everybody: the open is refused, names it and changes nothing ... *)
Theorem C19_other_user_refused own s p q : lockf s = Some (LPid q) -> mem q (dead s) = false -> open_u Exists own s p = (s, Refused q).
Proof. exact (other_user_refused own s p q). Qed.
Print Assumptions C19_other_user_refused.
(* ... and the lock a dead holder left behind blocks nobody *)
Theorem C19_other_user_stale own s p q : inv s -> lockf s = Some (LPid q) -> mem q (dead s) = true ->
  snd (open_u Exists own s p) = Granted /\ lockf (fst (open_u Exists own s p)) = Some (LPid p) /\ In p (holders (fst (open_u Exists own s p))).
Proof. exact (other_user_stale own s p q). Qed.
Print Assumptions C19_other_user_stale.
(* reading "alive" as "I can signal it" (`Signal(0) == nil`): an unprivileged process is admitted next to root's live holder *)
Theorem C19_signalable_refuted : exists own s, inv s /\ In 1 (holders s) /\ lockf s = Some (LPid 1) /\ mem 1 (dead s) = false /\
  own 2 <> 0 /\ own 2 <> own 1 /\
  kill0 own s 2 1 = PNotPermitted /\
  snd (open_u Signalable own s 2) = Granted /\ lockf (fst (open_u Signalable own s 2)) = Some (LPid 2) /\
  holders (fst (open_u Signalable own s 2)) = [2; 1] /\ dead (fst (open_u Signalable own s 2)) = [].
Proof. exact signalable_refuted. Qed.
Print Assumptions C19_signalable_refuted.
(* and only schedules with two users can tell: an opener who is root, or of the same user as everybody, sees no difference *)
Theorem C19_signalable_blind own s p : (forall q, own p = 0 \/ own p = own q) -> open_u Signalable own s p = open_atomic s p.
Proof. exact (signalable_blind own s p). Qed.
Print Assumptions C19_signalable_blind.

(* ---- a holder that is suspended (SIGSTOP, ctrl-z, a debugger), and one that has exited but is not reaped ----
   process.IsRunning asks kill(pid, 0): the pid exists. A stopped process exists, so the protocol above does not see
   suspension at all ... *)
Theorem C19_liveness_ignores_suspension x p :
  open_x Kill0 x p = (mkx (fst (open_atomic (base x) p)) (stopped x) (zombies x), snd (open_atomic (base x) p)).
Proof. exact (open_x_kill0 x p). Qed.
Print Assumptions C19_liveness_ignores_suspension.
(* ... a stopped holder is alive and protected: the open is refused, names it, changes nothing ... *)
Theorem C19_stopped_holder_refused x p q : lockf (base x) = Some (LPid q) -> pstate_of x q = PStopped ->
  lives (pstate_of x q) = true /\ open_x Kill0 x p = (x, Refused q).
Proof. exact (stopped_refused x p q). Qed.
Print Assumptions C19_stopped_holder_refused.
(* ... and stays so whatever happens meanwhile: the others open, close, fail, get killed, crash inside their open, in
   any number and order, and anybody — the holder too — is stopped and continued any number of times: the lock still
   names the holder, the holder is there, every open is refused *)
Theorem C19_stopped_lock_stays es x q : inv (base x) -> aoks (base x) (proj es) = true ->
  lockf (base x) = Some (LPid q) -> mem q (dead (base x)) = false ->
  (forall a, In (XA a) es -> actor a <> q) ->
  let x' := xrun x es in
  lockf (base x') = Some (LPid q) /\ mem q (dead (base x')) = false /\ forall p, open_x Kill0 x' p = (x', Refused q).
Proof. exact (stopped_lock_stays es x q). Qed.
Print Assumptions C19_stopped_lock_stays.
(* reading "alive" as "in state R, S or D of /proc/<pid>/stat" (a zombie test by white list): process 2 is admitted next
   to the live, stopped holder 1 *)
Theorem C19_statRSD_refuted : exists x, inv (base x) /\ In 1 (holders (base x)) /\ lockf (base x) = Some (LPid 1) /\
  pstate_of x 1 = PStopped /\ lives (pstate_of x 1) = true /\
  snd (open_x StatRSD x 2) = Granted /\ lockf (base (fst (open_x StatRSD x 2))) = Some (LPid 2) /\
  holders (base (fst (open_x StatRSD x 2))) = [2; 1] /\ dead (base (fst (open_x StatRSD x 2))) = [].
Proof. exact statRSD_refuted. Qed.
Print Assumptions C19_statRSD_refuted.
(* only schedules in which somebody is stopped or unreaped can tell the readings apart *)
Theorem C19_readings_blind r x p : stopped x = [] -> zombies x = [] -> open_x r x p = open_x Kill0 x p.
Proof. exact (readings_blind r x p). Qed.
Print Assumptions C19_readings_blind.
(* a zombie test by black list (exists and is not Z) keeps every live holder, stopped or running, protected *)
Theorem C19_notzombie_protects x p q : lockf (base x) = Some (LPid q) -> lives (pstate_of x q) = true -> open_x NotZombie x p = (x, Refused q).
Proof. exact (notzombie_protects x p q). Qed.
Print Assumptions C19_notzombie_protects.
(* what the code does not guarantee: a holder that was killed and has not been reaped by its parent holds nothing, and
   its lock still refuses everybody (kill(pid, 0) answers for a zombie) until the parent collects it; then it is stale *)
Theorem C19_zombie_blocks_refuted : exists x, inv (base x) /\ holders (base x) = [] /\ lockf (base x) = Some (LPid 1) /\
  pstate_of x 1 = PZombie /\ lives (pstate_of x 1) = false /\
  open_x Kill0 x 2 = (x, Refused 1) /\
  snd (open_x NotZombie x 2) = Granted /\
  snd (open_x Kill0 (xreap x 1) 2) = Granted /\ holders (base (fst (open_x Kill0 (xreap x 1) 2))) = [2].
Proof. exact zombie_blocks_refuted. Qed.
Print Assumptions C19_zombie_blocks_refuted.

(* ---- the hypotheses are satisfiable ---- *)
(* a session: 1 opens, 2 is refused, 1 is killed, 3 cleans the stale lock and holds, 3's command fails and releases, 4 crashes
   inside its open before creating the file, 5 opens *)
Example C19_session :
  let es := [AOpen 1; AOpen 2; AKill 2; AKill 1; AOpen 3; AFail 3; ACrash 4 1; AOpen 5] in
  aoks st0 es = true /\ holders (arun st0 es) = [5] /\ lockf (arun st0 es) = Some (LPid 5).
Proof. vm_compute. auto. Qed.
Example C19_live_lock_example :
  let s := arun st0 [AOpen 1] in
  let es := [AOpen 2; AKill 2; ACrash 3 2; AFail 4; AClose 5] in
  inv s /\ aoks s es = true /\ lockf (arun s es) = Some (LPid 1).
Proof. split; [apply (inv_held [] 1); reflexivity|]. vm_compute. auto. Qed.
(* 1 holds; it is stopped, 2 is refused, 1 is continued and stopped again, 3 crashes inside its open, 1 is continued: still 1's *)
Example C19_suspended_session :
  let x := mkx (arun st0 [AOpen 1]) [] [] in
  let es := [XStop 1; XA (AOpen 2); XA (AKill 2); XCont 1; XStop 1; XA (ACrash 3 2); XCont 1] in
  inv (base x) /\ aoks (base x) (proj es) = true /\ lockf (base (xrun x es)) = Some (LPid 1) /\ stopped (xrun x es) = [].
Proof. split; [apply (inv_held [] 1); reflexivity|]. vm_compute. auto. Qed.
