(* Committing on top of a head: what is read afterwards is what was read before, followed by the new
   operations (C04 "committed data reads back", C05 "new edits sort after what their author could see"). *)
From Coq Require Import List Arith NArith Lia Bool.
Import ListNotations.
From GB Require Import Reach Sort Read Good Snoc Ext World.
Local Open Scope N_scope.

Lemma reach_snoc_old s c h i : wf_store s -> (h < length s)%nat -> reach s h i -> reach (s ++ [c]) h i.
Proof. intros W Hh R. induction R as [|i p R IH Hp]; [constructor|]. eapply reach_step; [exact IH|].
  rewrite parents_app_old; [exact Hp|]. apply reach_le in R; auto. lia. Qed.

Lemma reach_snoc_back s c h i : wf_store s -> (h < length s)%nat -> reach (s ++ [c]) h i -> reach s h i.
Proof. intros W Hh R. induction R as [|i p R IH Hp]; [constructor|]. eapply reach_step; [exact IH|].
  rewrite parents_app_old in Hp; [exact Hp|]. apply reach_le in IH; auto. lia. Qed.

Lemma reach_new s c h i : wf_store s -> (h < length s)%nat -> c_parents c = [h] ->
  (reach (s ++ [c]) (length s) i <-> i = length s \/ reach s h i).
Proof. intros W Hh Hc. split.
  - intros R. induction R as [|i p R IH Hp]; [now left|]. right. destruct IH as [->|IH].
    + rewrite parents_app_new, Hc in Hp. destruct Hp as [<-|[]]. constructor.
    + eapply reach_step; [exact IH|]. rewrite parents_app_old in Hp; [exact Hp|]. apply reach_le in IH; auto. lia.
  - intros [->|R]; [constructor|].
    assert (R0 : reach (s ++ [c]) (length s) h).
    { eapply reach_step; [constructor|]. rewrite parents_app_new, Hc. now left. }
    clear Hc. induction R as [|i p R IH Hp]; [exact R0|]. eapply reach_step; [exact IH|].
    rewrite parents_app_old; [exact Hp|]. apply reach_le in R; auto. lia. Qed.

Lemma memb_reach s h i : wf_store s -> (i <= h)%nat -> (memb i (mark s (S h) [h]) = true <-> reach s h i).
Proof. intros W Hi. rewrite <- (reachl_spec s h i W). unfold reachl. rewrite filter_In, in_seq. intuition lia. Qed.

Lemma filter_ext_in' {A} (f g : A -> bool) l : (forall x, In x l -> f x = g x) -> filter f l = filter g l.
Proof. induction l as [|x t IH]; intros H; cbn; [reflexivity|]. rewrite (H x (or_introl eq_refl)).
  rewrite IH; [reflexivity|]. intros y Hy. apply H. now right. Qed.

Lemma bool_iff (a b : bool) : (a = true <-> b = true) -> a = b.
Proof. destruct a, b; intuition congruence. Qed.

Lemma reachl_snoc s c h : wf_store s -> (h < length s)%nat -> c_parents c = [h] ->
  reachl (s ++ [c]) (length s) = reachl s h ++ [length s].
Proof. intros W Hh Hc.
  assert (W' : wf_store (s ++ [c])).
  { apply wf_snoc; [exact W|]. rewrite Hc. constructor; [exact Hh|constructor]. }
  unfold reachl at 1.
  replace (seq 0 (S (length s))) with (seq 0 (S h) ++ seq (S h) (length s - S h) ++ [length s]).
  2:{ rewrite app_assoc, <- seq_app. replace (S h + (length s - S h))%nat with (length s) by lia. now rewrite seq_S. }
  rewrite !filter_app. f_equal; [|rewrite filter_none].
  - unfold reachl. apply filter_ext_in'. intros i Hi. apply in_seq in Hi. apply bool_iff.
    rewrite (memb_reach (s ++ [c]) (length s) i W') by lia. rewrite (memb_reach s h i W) by lia.
    rewrite (reach_new s c h i W Hh Hc). split; [intros [->|R]; [lia|exact R]|now right].
  - cbn [app filter]. assert (memb (length s) (mark (s ++ [c]) (S (length s)) [length s]) = true) as ->; [|reflexivity].
    apply (memb_reach (s ++ [c]) (length s) (length s) W'); [lia|constructor].
  - intros i Hi. apply in_seq in Hi. apply not_true_is_false. intros M.
    apply (memb_reach (s ++ [c]) (length s) i W') in M; [|lia]. apply (reach_new s c h i W Hh Hc) in M.
    destruct M as [->|R]; [lia|]. apply reach_le in R; auto. lia. Qed.

Lemma insert_last x l p : key_le x p = true -> insert x (l ++ [p]) = insert x l ++ [p].
Proof. intros H. induction l as [|y t IH]; cbn; [now rewrite H|]. destruct (key_le x y); [reflexivity|]. now rewrite IH. Qed.

Lemma isort_snoc l p : (forall x, In x l -> key_le x p = true) -> isort (l ++ [p]) = isort l ++ [p].
Proof. intros H. unfold isort. rewrite fold_right_app. cbn [fold_right insert].
  induction l as [|x t IH]; cbn [fold_right]; [reflexivity|].
  rewrite IH by (intros y Hy; apply H; now right). apply insert_last. apply H. now left. Qed.

Lemma isort_In x l : In x (isort l) <-> In x l.
Proof. split; intros H; [eapply Permutation.Permutation_in; [symmetry; apply isort_perm|exact H]|eapply Permutation.Permutation_in; [apply isort_perm|exact H]]. Qed.

Theorem read_child s h c ops : wf_store s -> (h < length s)%nat -> c_parents c = [h] ->
  valid (s ++ [c]) (length s) = true -> read s h = Some ops ->
  (forall i, reach s h i -> edit_of s i < p_edit (c_pack c)) ->
  read (s ++ [c]) (length s) = Some (ops ++ p_ops (c_pack c)).
Proof. intros W Hh Hc V R Hlt. unfold read in *. rewrite V. destruct (valid s h); [|discriminate]. inversion R; subst; clear R.
  f_equal. rewrite (reachl_snoc s c h W Hh Hc).
  assert (P : packs_of (s ++ [c]) (reachl s h ++ [length s]) = packs_of s (reachl s h) ++ [c_pack c]).
  { unfold packs_of. rewrite flat_map_app. f_equal.
    - fold (packs_of (s ++ [c]) (reachl s h)). fold (packs_of s (reachl s h)). apply packs_of_app_old.
      intros i Hi. apply In_reachl_lt in Hi. lia.
    - cbn. rewrite nth_error_app2, Nat.sub_diag by lia. reflexivity. }
  rewrite P, isort_snoc.
  - rewrite map_app, concat_app. cbn. now rewrite app_nil_r.
  - intros x Hx. unfold packs_of in Hx. apply in_flat_map in Hx as (i & Hi & Hp).
    apply reachl_spec in Hi; [|exact W]. specialize (Hlt i Hi). unfold edit_of in Hlt.
    destruct (nth_error s i) as [ci|]; [|destruct Hp]. destruct Hp as [<-|[]].
    unfold key_le. destruct (N.eqb_spec (p_edit (c_pack ci)) (p_edit (c_pack c))); [lia|]. apply N.ltb_lt. exact Hlt. Qed.

(* reach = the head itself or a strict ancestor *)
Lemma reach_anc s h i : reach s h i -> i = h \/ anc s h i.
Proof. intros R. induction R as [|i p R IH Hp]; [now left|]. right. destruct IH as [->|A]; [now constructor|eapply anc_trans; eauto]. Qed.

Lemma head_has_max_edit s h i : wf_store s -> valid s h = true -> reach s h i -> edit_of s i <= edit_of s h.
Proof. intros W V R. destruct (reach_anc _ _ _ R) as [->|A]; [lia|].
  destruct (ancestor_edit_lt s h h i W V (reach_refl s h) A) as (cb & ca & Hb & Ha & Hlt).
  unfold edit_of. rewrite Hb, Ha. lia. Qed.

(* in every reachable world, an edit committed on a local head reads back as the old operations followed
   by the new ones: same order, nothing lost, the new ones last *)
Theorem edit_reads_back w r h id au ops w' old : inv w -> budget w + 2 <= jump_limit ->
  step w (AEdit r h id au ops) = Some w' -> read (st w) h = Some old ->
  read (st w') (length (st w)) = Some (old ++ ops).
Proof. intros I B S R. pose proof (inv_step w _ w' I B S) as I'.
  destruct I as (G & Hh & Hb & Hc). cbn [step] in S.
  destruct (nth_error (reps w) r) as [rp|] eqn:Er; [|discriminate]. pose proof (nth_error_In _ _ Er) as Hrp.
  destruct (existsb (Nat.eqb h) (heads rp)) eqn:Eh; cbn in S; [|discriminate].
  apply existsb_eqb_In in Eh. destruct (Hh rp h Hrp Eh) as [Lh Ehc].
  inversion S; subst; clear S. cbn [st] in *.
  destruct I' as (G' & _). cbn [st eidf] in G'.
  set (c := {| c_parents := [h]; c_pack := mkpack id au ops (clk rp + 1) 0 |}).
  change ops with (p_ops (c_pack c)). apply (read_child (st w) h c old); try reflexivity.
  - exact (proj1 G).
  - exact Lh.
  - eapply good_valid; [exact G'|]. rewrite app_length. cbn. lia.
  - exact R.
  - intros i Ri. cbn [c c_pack mkpack p_edit].
    assert (V : valid (st w) h = true) by (eapply good_valid; eauto).
    pose proof (head_has_max_edit _ _ _ (proj1 G) V Ri). lia. Qed.
