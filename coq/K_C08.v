(* C08 — correspondence (Sig.valid_keys_at / accept / write = Identity.ValidKeysAtTime / readOperationPack /
   operationPack.Write, observed through bug.Read, bug.MergeAll and Bug.Commit) and the property on the
   implementation's verdicts. Keys are small numbers (0..2 = the pool, 3 = a stranger's key); the commit's content is
   payload 0 and an altered commit carries a signature made over payload 1. *)
From Coq Require Import List Arith NArith Bool Lia.
Import ListNotations.
From GB Require Export Sig.
Local Open Scope N_scope.

(* a commit written straight into git: its edit time, who signed it (None = nobody), whether the content was
   swapped after signing; what the implementation did with it:
   p_read  : 0 bug.Read returned the bug, 1 returned an error, 2 panicked
   p_merge : 0 MergeAll reported "new" and the bug is now local, 1 reported "invalid" and nothing became local,
             2 not run (the read panicked; MergeAll would panic in a goroutine), 3 anything else *)
(* p_empty: the commit carries no operation (its author signs it but is the author of nothing) *)
Record probe := mkprobe { p_time : N; p_signer : option N; p_altered : bool; p_empty : bool; p_read : N; p_merge : N }.

(* a bug created through the normal API by the author loaded from git, with the private parts of w_have in the keyring;
   w_time is the edit time the implementation gave the commit (0 if nothing was written);
   w_out : 0 written and read back, 1 written but rejected on read-back, 2 panicked, 3 the write was refused with an error *)
Record wprobe := mkwprobe { w_have : list N; w_time : N; w_out : N }.

(* c_requested: in API mode, the key sets asked for through NewIdentityFull / Mutate, one per call that changed
   something; what git holds (c_versions, read back from the blobs) must be exactly that *)
(* c_early: bugs the author wrote through the API (every private key at hand) right after each version but the
   last was committed: (edit time of the commit, verdict of reading it once the whole history exists) *)
Record case := mkcase { c_versions : list (version N); c_requested : option (list (list N)); c_probes : list probe; c_writes : list wprobe;
                        c_early : list (N * N) }.

Definition memN (x : N) (l : list N) : bool := existsb (N.eqb x) l.

(* ---- model predictions ---- *)
Definition probe_sig (p : probe) : option (N * N) :=
  match p_signer p with Some k => Some (ideal_sign k (if p_altered p then 1 else 0)) | None => None end.
Definition model_probe (vs : list (version N)) (p : probe) : N :=
  if accept ideal_ok vs (p_time p) 0 (probe_sig p) then 0 else 1.
Definition model_write (vs : list (version N)) (have : list N) (t : N) : N :=
  match write ideal_sign vs t (fun k => memN k have) 0 with
  | None => 3
  | Some s => if accept ideal_ok vs t 0 s then 0 else 1
  end.
(* a refused write has no time of its own: the harness reports 0 and the model is asked at "after every version" *)
Definition after_all (vs : list (version N)) : N := fold_left (fun m p => N.max m (fst p)) (eff vs 0) 0 + 1.
Definition wtime (vs : list (version N)) (w : wprobe) : N := if N.eqb (w_time w) 0 then after_all vs else w_time w.

(* bug.Read does not validate the author, MergeAll does (Bug.Validate -> Identity.Validate): an identity whose clock
   goes backwards or disappears makes every remote bug of that author invalid *)
(* ... except a commit without operations: Bug.Validate validates the authors of operations, and it has none *)
Definition model_merge (vs : list (version N)) (p : probe) : N := if id_valid vs None || p_empty p then model_probe vs p else 1.
Definition probe_agrees (vs : list (version N)) (p : probe) : bool :=
  N.eqb (p_read p) (model_probe vs p) && N.eqb (p_merge p) (model_merge vs p).
Definition write_agrees (vs : list (version N)) (w : wprobe) : bool :=
  N.eqb (w_out w) (model_write vs (w_have w) (wtime vs w)).
Definition agrees (c : case) : bool :=
  forallb (probe_agrees (c_versions c)) (c_probes c) && forallb (write_agrees (c_versions c)) (c_writes c).

Fixpoint index_filter {A} (f : A -> bool) (i : nat) (l : list A) : list nat :=
  match l with [] => [] | x :: t => if f x then index_filter f (S i) t else i :: index_filter f (S i) t end.
Definition mismatches (cs : list case) : list nat := index_filter agrees 0 cs.

Definition explain (c : case) :=
  (map (fun p => (valid_keys_at (c_versions c) (p_time p), model_probe (c_versions c) p, model_merge (c_versions c) p)) (c_probes c),
   map (fun w => model_write (c_versions c) (w_have w) (wtime (c_versions c) w)) (c_writes c)).

(* ---- the property, on the implementation's verdicts ---- *)
(* histories Identity.Validate lets through (they have non-decreasing times: Sig.id_valid_sorted) *)
Definition chronological (vs : list (version N)) : bool := id_valid vs None.
(* the property's own notion of "keys in force at t": those of the last version whose time is <= t *)
Definition in_force (vs : list (version N)) (t : N) : list N := spec (eff vs 0) t [].

Definition no_crash (v : N) : bool := N.eqb v 0 || N.eqb v 1.
Definition verdict_ok (vs : list (version N)) (p : probe) (v : N) : bool :=
  if chronological vs then
    match in_force vs (p_time p) with
    | [] => match p_signer p with None => N.eqb v 0 | Some _ => no_crash v end
    | ks => match p_signer p with
            | Some k => if memN k ks && negb (p_altered p) then N.eqb v 0 else N.eqb v 1
            | None => N.eqb v 1
            end
    end
  else no_crash v.
Definition probe_ok (vs : list (version N)) (p : probe) : bool := verdict_ok vs p (p_read p) && verdict_ok vs p (p_merge p).
(* git-bug itself must not produce a commit of a keyed author that its reader rejects (nor crash) *)
Definition write_ok (w : wprobe) : bool := N.eqb (w_out w) 0 || N.eqb (w_out w) 3.
Fixpoint nlist_eqb (a b : list N) : bool :=
  match a, b with [], [] => true | x :: a', y :: b' => N.eqb x y && nlist_eqb a' b' | _, _ => false end.
Fixpoint nll_eqb (a b : list (list N)) : bool :=
  match a, b with [], [] => true | x :: a', y :: b' => nlist_eqb x y && nll_eqb a' b' | _, _ => false end.
Definition requested_ok (c : case) : bool :=
  match c_requested c with None => true | Some r => nll_eqb r (map snd (c_versions c)) end.

Definition C08_ok (c : case) : bool :=
  forallb (probe_ok (c_versions c)) (c_probes c) && forallb write_ok (c_writes c) && requested_ok c &&
  forallb (fun e => N.eqb (snd e) 0) (c_early c).
Definition failing (cs : list case) : list nat := index_filter C08_ok 0 cs.

(* sanity: on the model's own verdicts the property checker is satisfied for a chronological history *)
Example K_C08_self :
  let vs := ex_history in
  let mk t s a := let p := mkprobe t s a false 0 0 in mkprobe t s a false (model_probe vs p) (model_probe vs p) in
  let ps := flat_map (fun t => flat_map (fun s => [mk t s false; mk t s true]) [None; Some 1; Some 2; Some 3]) [1; 2; 3; 4; 5; 6; 7; 8] in
  C08_ok (mkcase vs None ps [mkwprobe [] 0 (model_write vs [] (after_all vs))] []) = true.
Proof. vm_compute. reflexivity. Qed.
