(* Frame properties of the session model (World.step / Sync.sstep) needed by the cache model:
   which local ref of which replica an action can change, and that reading an untouched ref
   gives the same result afterwards (the store only grows).  *)
From Coq Require Import List Arith NArith Lia Bool.
Import ListNotations.
From GB Require Import Reach Sort Read Good Snoc World Sync Ext KMap.

(* ---- Sync.amap is a KMap ---- *)
Lemma alookup_kget e (m : amap) : alookup e m = kget e m.
Proof. reflexivity. Qed.
Lemma ainsert_kins e h (m : amap) : ainsert e h m = kins e h m.
Proof. induction m as [|[k x] t IH]; cbn; [reflexivity|]. destruct (Nat.ltb e k); [reflexivity|]. destruct (Nat.eqb e k); [reflexivity|]. now rewrite IH. Qed.
Lemma aremove_kdel e (m : amap) : aremove e m = kdel e m.
Proof. reflexivity. Qed.

Lemma alookup_ainsert e' e h m : alookup e' (ainsert e h m) = if Nat.eqb e' e then Some h else alookup e' m.
Proof. rewrite ainsert_kins. apply kget_kins. Qed.

Lemma asort_cons p m : asort (p :: m) = ainsert (fst p) (snd p) (asort m).
Proof. reflexivity. Qed.

Lemma alookup_asort e m : alookup e (asort m) = alookup e m.
Proof. induction m as [|[k x] t IH]; [reflexivity|]. rewrite asort_cons, alookup_ainsert. cbn [fst snd].
  unfold alookup at 2. cbn [find fst]. rewrite (Nat.eqb_sym k e). destruct (Nat.eqb e k); [reflexivity|exact IH]. Qed.

Lemma ksorted_asort m : ksorted (asort m).
Proof. induction m as [|p t IH]; [apply ksorted_nil|]. rewrite asort_cons, ainsert_kins. now apply ksorted_kins. Qed.

Lemma In_ainsert x e h m : In x (ainsert e h m) -> x = (e, h) \/ In x m.
Proof. induction m as [|[k y] t IH]; cbn [ainsert]; [intros [<-|[]]; now left|].
  destruct (Nat.ltb e k); [intros [<-|H]; auto|]. destruct (Nat.eqb e k).
  - intros [<-|H]; [now left|right; now right].
  - intros [<-|H]; [right; now left|]. destruct (IH H); [now left|right; now right]. Qed.

Lemma In_asort x m : In x (asort m) -> In x m.
Proof. induction m as [|p t IH]; [intros []|]. rewrite asort_cons. intros H. apply In_ainsert in H as [->|H]; [left; now destruct p|right; auto]. Qed.

Lemma In_aoverride x base upd : In x (aoverride base upd) -> In x base \/ In x upd.
Proof. unfold aoverride. revert base. assert (G : forall acc, In x (fold_left (fun acc p => ainsert (fst p) (snd p) acc) upd acc) -> In x acc \/ In x upd).
  { induction upd as [|p t IH]; intros acc H; cbn in H; [now left|]. apply IH in H as [H|H]; [|right; now right].
    apply In_ainsert in H as [->|H]; [right; left; now destruct p|now left]. }
  intros base H. apply G in H as [H|H]; [left; now apply In_asort|now right]. Qed.

(* ---- the first head of an entity ---- *)
Definition fh (f : nat -> nat) (l : list nat) (e : nat) : option nat := find (fun h => Nat.eqb (f h) e) l.

Lemma alookup_map_fh f l e : alookup e (map (fun h => (f h, h)) l) = fh f l e.
Proof. induction l as [|x t IH]; [reflexivity|]. unfold alookup, fh in *. cbn [map find fst]. destruct (Nat.eqb (f x) e); [reflexivity|exact IH]. Qed.

Definition lh (w : world) (r e : nat) : option nat := fh (eidf w) (heads (rep_of w r)) e.

Lemma locals_lh w r e : alookup e (locals w r) = lh w r e.
Proof. unfold locals. now rewrite alookup_asort, alookup_map_fh. Qed.

Lemma fh_some f l e h : fh f l e = Some h -> In h l /\ f h = e.
Proof. unfold fh. intros H. apply find_some in H as [H E]. apply Nat.eqb_eq in E. auto. Qed.

Lemma fh_ext f f' l e : (forall x, In x l -> f' x = f x) -> fh f' l e = fh f l e.
Proof. induction l as [|x t IH]; intros H; [reflexivity|]. unfold fh in *. cbn [find]. rewrite (H x (or_introl eq_refl)).
  destruct (Nat.eqb (f x) e); [reflexivity|]. apply IH. intros y Hy. apply H. now right. Qed.

Lemma fh_map f f' g l e : (forall x, In x l -> f' (g x) = f x) -> fh f' (map g l) e = option_map g (fh f l e).
Proof. induction l as [|x t IH]; intros H; [reflexivity|]. unfold fh in *. cbn [map find]. rewrite (H x (or_introl eq_refl)).
  destruct (Nat.eqb (f x) e); [reflexivity|]. apply IH. intros y Hy. apply H. now right. Qed.

Lemma fh_app_one f l t e : fh f (l ++ [t]) e = match fh f l e with Some x => Some x | None => if Nat.eqb (f t) e then Some t else None end.
Proof. induction l as [|x u IH]; unfold fh in *; cbn [app find]; [destruct (Nat.eqb (f t) e); reflexivity|].
  destruct (Nat.eqb (f x) e); [reflexivity|exact IH]. Qed.

Lemma fh_none_notin f l e : fh f l e = None -> ~ In e (map f l).
Proof. unfold fh. intros H Hin. apply in_map_iff in Hin as (x & E & Hx). eapply find_none in H; [|exact Hx]. cbn in H. rewrite E, Nat.eqb_refl in H. discriminate. Qed.

Lemma fh_skip f t h e : ~ In h t -> fh f (filter (fun x => negb (Nat.eqb x h)) t) e = fh f t e.
Proof. induction t as [|y u IH]; intros H; [reflexivity|]. cbn [filter]. destruct (Nat.eqb_spec y h) as [E|Hy]; cbn [negb].
  - exfalso. apply H. now left.
  - unfold fh in *. cbn [find]. destruct (Nat.eqb (f y) e); [reflexivity|]. apply IH. intros H'. apply H. now right. Qed.

Lemma fh_filter f l h e : NoDup (map f l) -> In h l ->
  fh f (filter (fun x => negb (Nat.eqb x h)) l) e = if Nat.eqb e (f h) then None else fh f l e.
Proof. induction l as [|x t IH]; intros ND Hin; [destruct Hin|]. cbn [map] in ND. inversion ND as [|? ? Hx ND']; subst.
  cbn [filter]. destruct (Nat.eqb_spec x h) as [Exh|Hne]; cbn [negb].
  - (* the removed head: no other head has its entity *)
    subst x. assert (Hnt : ~ In h t) by (intros H; apply Hx; now apply in_map).
    rewrite (fh_skip f t h e Hnt). destruct (Nat.eqb_spec e (f h)) as [E2|He].
    + destruct (fh f t e) eqn:F; [|reflexivity]. apply fh_some in F as [F1 F2]. exfalso. apply Hx. rewrite <- E2, <- F2. now apply in_map.
    + unfold fh at 2. cbn [find]. destruct (Nat.eqb_spec (f h) e); [congruence|reflexivity].
  - destruct Hin as [Hin|Hin]; [congruence|]. unfold fh at 1 2. cbn [find]. destruct (Nat.eqb_spec (f x) e) as [E|E].
    + destruct (Nat.eqb_spec e (f h)) as [E2|]; [|reflexivity]. exfalso. apply Hx. rewrite E, E2. now apply in_map.
    + apply (IH ND' Hin). Qed.

(* ---- the part of the invariant that only concerns the world ---- *)
Record WW (w : world) : Prop := {
  ww_wf : wf_store (st w);
  ww_eid : forall x, x < length (st w) -> eidf w x <= x;
  ww_heads : forall r rp, nth_error (reps w) r = Some rp ->
     (forall h, In h (heads rp) -> h < length (st w)) /\ NoDup (map (eidf w) (heads rp)) }.

Lemma WW_w0 n : WW (w0 n).
Proof. split; cbn.
  - intros i p Hp. unfold parents in Hp. destruct i; cbn in Hp; destruct Hp.
  - intros x H. lia.
  - intros r rp H. apply nth_error_In, repeat_spec in H. subst. cbn. split; [intros h []|constructor]. Qed.

Lemma rep_of_heads_lt w r h : WW w -> In h (heads (rep_of w r)) -> h < length (st w).
Proof. intros W H. unfold rep_of in H. destruct (nth_error (reps w) r) as [rp|] eqn:E; [|destruct H]. destruct (ww_heads w W r rp E) as [A _]. auto. Qed.

Lemma rep_of_nodup w r : WW w -> NoDup (map (eidf w) (heads (rep_of w r))).
Proof. intros W. unfold rep_of. destruct (nth_error (reps w) r) as [rp|] eqn:E; [|constructor]. now destruct (ww_heads w W r rp E). Qed.

Lemma nth_error_set_nth_same {A} r (x : A) l rp : nth_error l r = Some rp -> nth_error (set_nth r x l) r = Some x.
Proof. intros H. unfold set_nth. assert (L : r < length l) by (apply nth_error_Some; congruence).
  rewrite nth_error_app2; rewrite firstn_length_le by lia; [|lia]. now rewrite Nat.sub_diag. Qed.

Lemma nth_error_firstn' {A} : forall n (l : list A) i, i < n -> nth_error (firstn n l) i = nth_error l i.
Proof. induction n as [|n IH]; intros l i H; [lia|]. destruct l as [|x t]; [now destruct i|]. destruct i as [|i]; [reflexivity|]. cbn. apply IH. lia. Qed.

Lemma nth_error_skipn' {A} : forall n (l : list A) i, nth_error (skipn n l) i = nth_error l (n + i).
Proof. induction n as [|n IH]; intros l i; [reflexivity|]. destruct l as [|x t]; [now destruct i|]. cbn. apply IH. Qed.

Lemma nth_error_set_nth_other {A} r r' (x : A) l : r' <> r -> r < length l -> nth_error (set_nth r x l) r' = nth_error l r'.
Proof. intros Hne L. unfold set_nth. destruct (Nat.lt_ge_cases r' r) as [H|H].
  - rewrite nth_error_app1 by (rewrite firstn_length_le; lia). apply nth_error_firstn'. exact H.
  - rewrite nth_error_app2 by (rewrite firstn_length_le; lia). rewrite firstn_length_le by lia.
    destruct (r' - r) as [|k] eqn:E; [lia|]. cbn [nth_error]. rewrite nth_error_skipn'. f_equal. lia. Qed.

Lemma rep_of_set_same w r x rp w' : nth_error (reps w) r = Some rp -> reps w' = set_nth r x (reps w) -> rep_of w' r = x.
Proof. intros H E. unfold rep_of. rewrite E, (nth_error_set_nth_same r x _ rp H). reflexivity. Qed.
Lemma rep_of_set_other w r r' x rp w' : nth_error (reps w) r = Some rp -> reps w' = set_nth r x (reps w) -> r' <> r -> rep_of w' r' = rep_of w r'.
Proof. intros H E Hne. unfold rep_of. rewrite E, nth_error_set_nth_other; auto. apply nth_error_Some. congruence. Qed.

(* every transition: the acting replica, the new head list, how the store and the entity map grow *)
Definition act_rep (a : action) : nat :=
  match a with ACreate r _ _ _ | AEdit r _ _ _ _ | AAdopt r _ | AFF r _ _ | AMerge r _ _ _ _ | AWitness r _ | ARemove r _ | AResetClock r => r end.

Definition new_heads (w : world) (a : action) (hs : list nat) : list nat :=
  let n := length (st w) in
  match a with
  | ACreate _ _ _ _ => hs ++ [n]
  | AEdit _ h _ _ _ => replace_head h n hs
  | AAdopt _ t => hs ++ [t]
  | AFF _ h t => replace_head h t hs
  | AMerge _ h _ _ _ => replace_head h n hs
  | AWitness _ _ | AResetClock _ => hs
  | ARemove _ h => filter (fun x => negb (Nat.eqb x h)) hs
  end.

Lemma length_set_nth {A} r (x : A) l : r < length l -> length (set_nth r x l) = length l.
Proof. intros H. unfold set_nth. rewrite app_length, firstn_length_le by lia. cbn [length]. rewrite skipn_length. lia. Qed.

Lemma step_shape w a w' : WW w -> step w a = Some w' ->
  exists rp, nth_error (reps w) (act_rep a) = Some rp /\
  heads (rep_of w' (act_rep a)) = new_heads w a (heads rp) /\
  (forall r', r' <> act_rep a -> rep_of w' r' = rep_of w r') /\
  length (reps w') = length (reps w) /\
  ((st w' = st w /\ eidf w' = eidf w) \/
   (exists c e, st w' = st w ++ [c] /\ eidf w' = upd (eidf w) (length (st w)) e /\
                Forall (fun p => p < length (st w)) (c_parents c) /\ e <= length (st w) /\
                match a with
                | ACreate _ _ _ _ => e = length (st w)
                | AEdit _ h _ _ _ | AMerge _ h _ _ _ => e = eidf w h /\ In h (heads rp)
                | _ => False
                end)).
Proof.
  intros W Hs. destruct a as [r id au ops|r h id au ops|r t|r h t|r h t id au|r t|r h|r]; cbn [step act_rep] in *;
  destruct (nth_error (reps w) r) as [rp|] eqn:Er; try discriminate; exists rp; (split; [reflexivity|]);
  assert (Lr : r < length (reps w)) by (apply nth_error_Some; congruence);
  destruct (ww_heads w W r rp Er) as [Hlt _].
  - inversion Hs; subst; clear Hs. cbn [st eidf reps]. split; [|split; [|split]].
    + erewrite rep_of_set_same; [|exact Er|reflexivity]. reflexivity.
    + intros r' Hne. eapply rep_of_set_other; [exact Er|reflexivity|exact Hne].
    + now apply length_set_nth.
    + right. eexists _, _. repeat split; cbn; auto.
  - destruct (existsb (Nat.eqb h) (heads rp)) eqn:Eh; cbn in Hs; [|discriminate]. apply existsb_eqb_In in Eh.
    inversion Hs; subst; clear Hs. cbn [st eidf reps]. split; [|split; [|split]].
    + erewrite rep_of_set_same; [|exact Er|reflexivity]. reflexivity.
    + intros r' Hne. eapply rep_of_set_other; [exact Er|reflexivity|exact Hne].
    + now apply length_set_nth.
    + right. eexists _, _. split; [reflexivity|]. split; [reflexivity|]. cbn [c_parents].
      pose proof (Hlt h Eh) as Lh. pose proof (ww_eid w W h Lh).
      split; [constructor; [exact Lh|constructor]|]. split; [lia|]. split; [reflexivity|exact Eh].
  - destruct (Nat.ltb_spec t (length (st w))) as [Lt|]; cbn in Hs; [|discriminate].
    inversion Hs; subst; clear Hs. cbn [st eidf reps]. split; [|split; [|split]].
    + erewrite rep_of_set_same; [|exact Er|reflexivity]. reflexivity.
    + intros r' Hne. eapply rep_of_set_other; [exact Er|reflexivity|exact Hne].
    + now apply length_set_nth.
    + now left.
  - destruct (Nat.ltb_spec t (length (st w))) as [Lt|]; cbn in Hs; [|discriminate].
    inversion Hs; subst; clear Hs. cbn [st eidf reps]. split; [|split; [|split]].
    + erewrite rep_of_set_same; [|exact Er|reflexivity]. reflexivity.
    + intros r' Hne. eapply rep_of_set_other; [exact Er|reflexivity|exact Hne].
    + now apply length_set_nth.
    + now left.
  - destruct (existsb (Nat.eqb h) (heads rp) && Nat.ltb t (length (st w)) && Nat.eqb (eidf w t) (eidf w h) && negb (Nat.eqb h t)) eqn:Eg; cbn in Hs; [|discriminate].
    rewrite !andb_true_iff in Eg. destruct Eg as (((Eh & Lt) & Ee) & _).
    apply existsb_eqb_In in Eh. apply Nat.ltb_lt in Lt.
    inversion Hs; subst; clear Hs. cbn [st eidf reps]. split; [|split; [|split]].
    + erewrite rep_of_set_same; [|exact Er|reflexivity]. reflexivity.
    + intros r' Hne. eapply rep_of_set_other; [exact Er|reflexivity|exact Hne].
    + now apply length_set_nth.
    + right. eexists _, _. split; [reflexivity|]. split; [reflexivity|]. cbn [c_parents].
      pose proof (Hlt h Eh) as Lh. pose proof (ww_eid w W h Lh).
      split; [constructor; [exact Lh|constructor; [exact Lt|constructor]]|]. split; [lia|]. split; [reflexivity|exact Eh].
  - destruct (Nat.ltb_spec t (length (st w))) as [Lt|]; cbn in Hs; [|discriminate].
    inversion Hs; subst; clear Hs. cbn [st eidf reps]. split; [|split; [|split]].
    + erewrite rep_of_set_same; [|exact Er|reflexivity]. reflexivity.
    + intros r' Hne. eapply rep_of_set_other; [exact Er|reflexivity|exact Hne].
    + now apply length_set_nth.
    + now left.
  - inversion Hs; subst; clear Hs. cbn [st eidf reps]. split; [|split; [|split]].
    + erewrite rep_of_set_same; [|exact Er|reflexivity]. reflexivity.
    + intros r' Hne. eapply rep_of_set_other; [exact Er|reflexivity|exact Hne].
    + now apply length_set_nth.
    + now left.
  - inversion Hs; subst; clear Hs. cbn [st eidf reps]. split; [|split; [|split]].
    + erewrite rep_of_set_same; [|exact Er|reflexivity]. reflexivity.
    + intros r' Hne. eapply rep_of_set_other; [exact Er|reflexivity|exact Hne].
    + now apply length_set_nth.
    + now left.
Qed.

Lemma rep_of_some w r rp : nth_error (reps w) r = Some rp -> rep_of w r = rp.
Proof. intros H. unfold rep_of. now rewrite H. Qed.

Lemma upd_old f n e x : x < n -> upd f n e x = f x.
Proof. intros H. unfold upd. destruct (Nat.eqb_spec x n); [lia|reflexivity]. Qed.
Lemma upd_new f n e : upd f n e n = e.
Proof. unfold upd. now rewrite Nat.eqb_refl. Qed.

(* the entity map agrees with the old one on every old commit *)
Lemma step_eidf_old w a w' : WW w -> step w a = Some w' -> forall x, x < length (st w) -> eidf w' x = eidf w x.
Proof. intros W Hs x Hx. destruct (step_shape w a w' W Hs) as (rp & _ & _ & _ & _ & [[_ E]|(c & e & _ & E & _)]); rewrite E; [reflexivity|now apply upd_old]. Qed.

Lemma step_len w a w' : WW w -> step w a = Some w' -> length (st w) <= length (st w').
Proof. intros W Hs. destruct (step_shape w a w' W Hs) as (rp & _ & _ & _ & _ & [[E _]|(c & e & E & _)]); rewrite E; [lia|rewrite app_length; cbn; lia]. Qed.

(* reading an old commit gives the same operations afterwards *)
Definition readops (s : store) (h : nat) : list N := match read s h with Some o => o | None => [] end.

Lemma step_read_old w a w' h : WW w -> step w a = Some w' -> h < length (st w) -> readops (st w') h = readops (st w) h.
Proof. intros W Hs Hh. unfold readops. destruct (step_shape w a w' W Hs) as (rp & _ & _ & _ & _ & [[E _]|(c & e & E & _)]); rewrite E; [reflexivity|].
  rewrite read_app_old; [reflexivity|apply (ww_wf w W)|exact Hh]. Qed.

Lemma replace_head_map h h' l : replace_head h h' l = map (fun x => if Nat.eqb x h then h' else x) l.
Proof. reflexivity. Qed.

Lemma NoDup_map_filter {A B} (f : A -> B) (p : A -> bool) l : NoDup (map f l) -> NoDup (map f (filter p l)).
Proof. induction l as [|x t IH]; cbn; intros H; [constructor|]. inversion H as [|? ? Hx H']; subst. destruct (p x); cbn; [|auto].
  constructor; [|auto]. intros Hin. apply Hx. apply in_map_iff in Hin as (y & E & Hy). apply filter_In in Hy as [Hy _]. rewrite <- E. now apply in_map. Qed.

Lemma NoDup_app_one {A} (l : list A) x : NoDup l -> ~ In x l -> NoDup (l ++ [x]).
Proof. intros ND H. induction ND as [|y t Hy ND IH]; cbn; [constructor; [intros []|constructor]|].
  constructor; [|apply IH; intros H'; apply H; now right]. intros Hin. apply in_app_or in Hin as [Hin|[<-|[]]]; [contradiction|apply H; now left]. Qed.

(* side conditions under which a transition keeps "one head per entity" *)
Definition adopt_ok (w : world) (a : action) : Prop :=
  match a with
  | AAdopt r t => lh w r (eidf w t) = None
  | AFF r h t => eidf w t = eidf w h
  | _ => True
  end.

Lemma step_WW w a w' : WW w -> adopt_ok w a -> step w a = Some w' -> WW w'.
Proof. intros W Ok Hs. destruct (step_shape w a w' W Hs) as (rp & Er & Hh & Ho & Hl & Hg).
  pose proof (step_eidf_old w a w' W Hs) as Eo. pose proof (step_len w a w' W Hs) as Ln.
  destruct (ww_heads w W _ rp Er) as [Hlt ND].
  assert (Wf' : wf_store (st w')).
  { destruct Hg as [[E _]|(c & e & E & _ & F & _)]; rewrite E; [apply (ww_wf w W)|]. apply wf_snoc; [apply (ww_wf w W)|exact F]. }
  assert (Eid' : forall x, x < length (st w') -> eidf w' x <= x).
  { intros x Hx. destruct Hg as [[E1 E2]|(c & e & E1 & E2 & _ & Le & _)].
    - rewrite E2. apply (ww_eid w W). now rewrite <- E1.
    - rewrite E1, app_length in Hx. cbn in Hx. rewrite E2. unfold upd. destruct (Nat.eqb_spec x (length (st w))); [lia|]. apply (ww_eid w W). lia. }
  split; [exact Wf'|exact Eid'|].
  intros r' rp' Er'. destruct (Nat.eq_dec r' (act_rep a)) as [->|Hne].
  - (* the acting replica *)
    assert (rp' = rep_of w' (act_rep a)) as -> by (symmetry; now apply rep_of_some). rewrite Hh.
    assert (Hlt' : forall h, In h (new_heads w a (heads rp)) -> h < length (st w')).
    { intros h Hin. destruct a; cbn [new_heads act_rep] in *.
      - apply in_app_or in Hin as [Hin|[<-|[]]]; [specialize (Hlt _ Hin); lia|].
        destruct Hg as [[E _]|(c & e & E & _)]; [|rewrite E, app_length; cbn; lia].
        cbn [step] in Hs. rewrite Er in Hs. inversion Hs; subst. cbn in E. apply (f_equal (@length _)) in E. rewrite app_length in E. cbn in E. lia.
      - apply In_replace_head in Hin as [->|Hin]; [|specialize (Hlt _ Hin); lia].
        cbn [step] in Hs. rewrite Er in Hs. destruct (negb _); [discriminate|]. inversion Hs; subst. cbn. rewrite app_length. cbn. lia.
      - apply in_app_or in Hin as [Hin|[<-|[]]]; [specialize (Hlt _ Hin); lia|].
        cbn [step] in Hs. rewrite Er in Hs. destruct (Nat.ltb_spec t (length (st w))); cbn in Hs; [|discriminate]. lia.
      - apply In_replace_head in Hin as [->|Hin]; [|specialize (Hlt _ Hin); lia].
        cbn [step] in Hs. rewrite Er in Hs. destruct (Nat.ltb_spec t (length (st w))); cbn in Hs; [|discriminate]. lia.
      - apply In_replace_head in Hin as [->|Hin]; [|specialize (Hlt _ Hin); lia].
        cbn [step] in Hs. rewrite Er in Hs. destruct (_ && _ && _ && _); cbn in Hs; [|discriminate]. inversion Hs; subst. cbn. rewrite app_length. cbn. lia.
      - specialize (Hlt _ Hin). lia.
      - apply filter_In in Hin as [Hin _]. specialize (Hlt _ Hin). lia.
      - specialize (Hlt _ Hin). lia. }
    split; [exact Hlt'|].
    (* one head per entity *)
    assert (Eh : forall x, In x (heads rp) -> eidf w' x = eidf w x) by (intros x Hx; apply Eo; auto).
    destruct a as [r id au ops|r h id au ops|r t|r h t|r h t id au|r t|r h|r]; cbn [new_heads act_rep] in *.
    + destruct Hg as [[E _]|(c & e & E1 & E2 & _ & _ & E3)].
      { cbn [step] in Hs. rewrite Er in Hs. inversion Hs; subst. cbn in E. apply (f_equal (@length _)) in E. rewrite app_length in E. cbn in E. lia. }
      subst e. rewrite map_app. cbn [map]. rewrite E2, upd_new. rewrite (map_ext_in _ (eidf w)) by (intros x Hx; apply upd_old; auto).
      apply NoDup_app_one; [exact ND|]. intros Hin. apply in_map_iff in Hin as (x & Ex & Hx). pose proof (ww_eid w W x (Hlt x Hx)). specialize (Hlt x Hx). lia.
    + destruct Hg as [[E _]|(c & e & E1 & E2 & _ & _ & E3 & Hin)].
      { cbn [step] in Hs. rewrite Er in Hs. destruct (negb _); [discriminate|]. inversion Hs; subst. cbn in E. apply (f_equal (@length _)) in E. rewrite app_length in E. cbn in E. lia. }
      subst e. rewrite replace_head_map, map_map. rewrite (map_ext_in _ (eidf w)); [exact ND|].
      intros x Hx. rewrite E2. destruct (Nat.eqb_spec x h) as [->|]; [apply upd_new|apply upd_old; auto].
    + rewrite map_app. cbn [map]. cbn in Ok. rewrite (map_ext_in _ (eidf w)) by exact Eh.
      assert (Lt : t < length (st w)).
      { cbn [step] in Hs. rewrite Er in Hs. destruct (Nat.ltb_spec t (length (st w))); cbn in Hs; [auto|discriminate]. }
      rewrite (Eo t Lt). apply NoDup_app_one; [exact ND|]. unfold lh in Ok. rewrite (rep_of_some _ _ _ Er) in Ok. now apply fh_none_notin.
    + cbn in Ok. rewrite replace_head_map, map_map. rewrite (map_ext_in _ (eidf w)); [exact ND|].
      assert (Lt : t < length (st w)).
      { cbn [step] in Hs. rewrite Er in Hs. destruct (Nat.ltb_spec t (length (st w))); cbn in Hs; [auto|discriminate]. }
      intros x Hx. destruct (Nat.eqb_spec x h) as [->|]; [rewrite (Eo t Lt); exact Ok|apply Eh; auto].
    + destruct Hg as [[E _]|(c & e & E1 & E2 & _ & _ & E3 & Hin)].
      { cbn [step] in Hs. rewrite Er in Hs. destruct (_ && _ && _ && _); cbn in Hs; [|discriminate]. inversion Hs; subst. cbn in E. apply (f_equal (@length _)) in E. rewrite app_length in E. cbn in E. lia. }
      subst e. rewrite replace_head_map, map_map. rewrite (map_ext_in _ (eidf w)); [exact ND|].
      intros x Hx. rewrite E2. destruct (Nat.eqb_spec x h) as [->|]; [apply upd_new|apply upd_old; auto].
    + rewrite (map_ext_in _ (eidf w)) by exact Eh. exact ND.
    + rewrite (map_ext_in _ (eidf w)) by (intros x Hx; apply Eh; apply filter_In in Hx; tauto). now apply NoDup_map_filter.
    + rewrite (map_ext_in _ (eidf w)) by exact Eh. exact ND.
  - (* another replica: same heads *)
    assert (rp' = rep_of w' r') as -> by (symmetry; now apply rep_of_some). rewrite (Ho r' Hne).
    assert (L2 : r' < length (reps w)) by (rewrite <- Hl; apply nth_error_Some; congruence).
    destruct (nth_error (reps w) r') as [rp0|] eqn:E0; [|apply nth_error_None in E0; lia].
    rewrite (rep_of_some _ _ _ E0). destruct (ww_heads w W r' rp0 E0) as [A B]. split; [intros h Hh'; specialize (A h Hh'); lia|].
    rewrite (map_ext_in _ (eidf w)); [exact B|]. intros x Hx. apply Eo. auto. Qed.

(* ---- how the local refs (lh) move ---- *)
Lemma step_lh_other w a w' r' e : WW w -> step w a = Some w' -> r' <> act_rep a -> lh w' r' e = lh w r' e.
Proof. intros W Hs Hne. destruct (step_shape w a w' W Hs) as (rp & Er & Hh & Ho & Hl & Hg). unfold lh. rewrite (Ho r' Hne).
  apply fh_ext. intros x Hx. apply (step_eidf_old w a w' W Hs). now apply rep_of_heads_lt in Hx. Qed.

Lemma lh_eid w r e h : lh w r e = Some h -> In h (heads (rep_of w r)) /\ eidf w h = e.
Proof. apply fh_some. Qed.

Lemma step_lh_create w r id au ops w' e : WW w -> step w (ACreate r id au ops) = Some w' ->
  lh w' r e = if Nat.eqb e (length (st w)) then Some (length (st w)) else lh w r e.
Proof. intros W Hs. destruct (step_shape _ _ _ W Hs) as (rp & Er & Hh & _ & _ & Hg). cbn [act_rep new_heads] in *.
  destruct (ww_heads w W _ rp Er) as [Hlt _]. unfold lh. rewrite Hh, (rep_of_some _ _ _ Er), fh_app_one.
  rewrite (fh_ext (eidf w)) by (intros x Hx; apply (step_eidf_old _ _ _ W Hs); auto).
  destruct Hg as [[E _]|(c & e0 & E1 & E2 & _ & _ & E3)].
  { cbn [step] in Hs. rewrite Er in Hs. inversion Hs; subst. cbn in E. apply (f_equal (@length _)) in E. rewrite app_length in E. cbn in E. lia. }
  subst e0. rewrite E2, upd_new. destruct (Nat.eqb_spec e (length (st w))) as [->|Hne].
  - rewrite Nat.eqb_refl. destruct (fh (eidf w) (heads rp) (length (st w))) eqn:F; [|reflexivity].
    apply fh_some in F as [F1 F2]. pose proof (ww_eid w W n (Hlt n F1)). specialize (Hlt n F1). lia.
  - destruct (Nat.eqb_spec (length (st w)) e); [congruence|]. now destruct (fh (eidf w) (heads rp) e). Qed.

(* AEdit / AMerge / AFF: the head h of entity e0 is replaced by h' (of the same entity) *)
Lemma fh_replace f f' hs h h' e0 e : (forall x, In x hs -> f' (if Nat.eqb x h then h' else x) = f x) -> fh f hs e0 = Some h ->
  fh f' (replace_head h h' hs) e = if Nat.eqb e e0 then Some h' else fh f hs e.
Proof. intros Hf H0. rewrite replace_head_map, (fh_map f f' _ hs e Hf).
  destruct (Nat.eqb_spec e e0) as [->|Hne].
  - rewrite H0. cbn. now rewrite Nat.eqb_refl.
  - destruct (fh f hs e) as [x|] eqn:F; [|reflexivity]. cbn. apply fh_some in F as [_ F]. apply fh_some in H0 as [_ H0].
    destruct (Nat.eqb_spec x h); [congruence|reflexivity]. Qed.

Lemma step_lh_edit w r h id au ops w' e0 e : WW w -> step w (AEdit r h id au ops) = Some w' -> lh w r e0 = Some h ->
  lh w' r e = if Nat.eqb e e0 then Some (length (st w)) else lh w r e.
Proof. intros W Hs H0. destruct (step_shape _ _ _ W Hs) as (rp & Er & Hh & _ & _ & Hg). cbn [act_rep new_heads] in *.
  destruct (ww_heads w W _ rp Er) as [Hlt _]. unfold lh in *. rewrite Hh. rewrite (rep_of_some _ _ _ Er) in *.
  destruct Hg as [[E _]|(c & e1 & E1 & E2 & _ & _ & E3 & Hin)].
  { cbn [step] in Hs. rewrite Er in Hs. destruct (negb _); [discriminate|]. inversion Hs; subst. cbn in E. apply (f_equal (@length _)) in E. rewrite app_length in E. cbn in E. lia. }
  subst e1. apply fh_replace; [|exact H0]. intros x Hx. rewrite E2. destruct (Nat.eqb_spec x h) as [->|]; [apply upd_new|apply upd_old; auto]. Qed.

Lemma step_lh_merge w r h t id au w' e0 e : WW w -> step w (AMerge r h t id au) = Some w' -> lh w r e0 = Some h ->
  lh w' r e = if Nat.eqb e e0 then Some (length (st w)) else lh w r e.
Proof. intros W Hs H0. destruct (step_shape _ _ _ W Hs) as (rp & Er & Hh & _ & _ & Hg). cbn [act_rep new_heads] in *.
  destruct (ww_heads w W _ rp Er) as [Hlt _]. unfold lh in *. rewrite Hh. rewrite (rep_of_some _ _ _ Er) in *.
  destruct Hg as [[E _]|(c & e1 & E1 & E2 & _ & _ & E3 & Hin)].
  { cbn [step] in Hs. rewrite Er in Hs. destruct (_ && _ && _ && _); cbn in Hs; [|discriminate]. inversion Hs; subst. cbn in E. apply (f_equal (@length _)) in E. rewrite app_length in E. cbn in E. lia. }
  subst e1. apply fh_replace; [|exact H0]. intros x Hx. rewrite E2. destruct (Nat.eqb_spec x h) as [->|]; [apply upd_new|apply upd_old; auto]. Qed.

Lemma step_same_store w a w' : WW w -> step w a = Some w' -> match a with AAdopt _ _ | AFF _ _ _ | AWitness _ _ | ARemove _ _ | AResetClock _ => True | _ => False end ->
  st w' = st w /\ eidf w' = eidf w.
Proof. intros W Hs Ha. destruct (step_shape _ _ _ W Hs) as (rp & _ & _ & _ & _ & [H|(c & e & _ & _ & _ & _ & F)]); [exact H|]. destruct a; try contradiction. Qed.

Lemma step_lh_ff w r h t w' e0 e : WW w -> step w (AFF r h t) = Some w' -> lh w r e0 = Some h -> eidf w t = e0 ->
  lh w' r e = if Nat.eqb e e0 then Some t else lh w r e.
Proof. intros W Hs H0 Et. destruct (step_shape _ _ _ W Hs) as (rp & Er & Hh & _ & _ & _). cbn [act_rep new_heads] in *.
  destruct (step_same_store _ _ _ W Hs I) as [_ E2]. unfold lh in *. rewrite Hh, E2. rewrite (rep_of_some _ _ _ Er) in *.
  apply fh_replace; [|exact H0]. intros x Hx. destruct (Nat.eqb_spec x h) as [->|]; [|reflexivity]. apply fh_some in H0 as [_ H0]. congruence. Qed.

Lemma step_lh_adopt w r t w' e : WW w -> step w (AAdopt r t) = Some w' -> lh w r (eidf w t) = None ->
  lh w' r e = if Nat.eqb e (eidf w t) then Some t else lh w r e.
Proof. intros W Hs H0. destruct (step_shape _ _ _ W Hs) as (rp & Er & Hh & _ & _ & _). cbn [act_rep new_heads] in *.
  destruct (step_same_store _ _ _ W Hs I) as [_ E2]. unfold lh in *. rewrite Hh, E2, fh_app_one. rewrite (rep_of_some _ _ _ Er) in *.
  destruct (Nat.eqb_spec e (eidf w t)) as [->|Hne].
  - now rewrite H0, Nat.eqb_refl.
  - destruct (Nat.eqb_spec (eidf w t) e); [congruence|]. now destruct (fh (eidf w) (heads rp) e). Qed.

Lemma step_lh_witness w r t w' r' e : WW w -> step w (AWitness r t) = Some w' -> lh w' r' e = lh w r' e.
Proof. intros W Hs. destruct (Nat.eq_dec r' r) as [->|Hne]; [|now apply (step_lh_other _ _ _ _ _ W Hs)].
  destruct (step_shape _ _ _ W Hs) as (rp & Er & Hh & _ & _ & _). cbn [act_rep new_heads] in *.
  destruct (step_same_store _ _ _ W Hs I) as [_ E2]. unfold lh. rewrite Hh, E2, (rep_of_some _ _ _ Er). reflexivity. Qed.

Lemma step_lh_remove w r h w' e0 e : WW w -> step w (ARemove r h) = Some w' -> lh w r e0 = Some h ->
  lh w' r e = if Nat.eqb e e0 then None else lh w r e.
Proof. intros W Hs H0. destruct (step_shape _ _ _ W Hs) as (rp & Er & Hh & _ & _ & _). cbn [act_rep new_heads] in *.
  destruct (step_same_store _ _ _ W Hs I) as [_ E2]. destruct (ww_heads w W _ rp Er) as [_ ND].
  unfold lh in *. rewrite Hh, E2. rewrite (rep_of_some _ _ _ Er) in *. apply fh_some in H0 as [Hin H0].
  rewrite (fh_filter (eidf w) (heads rp) h e ND Hin). now rewrite H0. Qed.

(* ---------------- session level ---------------- *)
Definition bgit := (nat * list N)%type.      (* a bug as read from its ref: head commit, ordered operation ids *)
Definition bgit_of (w : world) (h : nat) : bgit := (h, readops (st w) h).
Definition gfb (sw : sworld) (r e : nat) : option bgit := option_map (bgit_of (ww sw)) (alookup e (locals (ww sw) r)).

Lemma gfb_lh sw r e : gfb sw r e = option_map (bgit_of (ww sw)) (lh (ww sw) r e).
Proof. unfold gfb. now rewrite locals_lh. Qed.

Definition refs_ok (w : world) (m : amap) : Prop := forall e t, In (e, t) m -> t < length (st w) /\ eidf w t = e.

Record WI (sw : sworld) : Prop := {
  wi_ww : WW (ww sw);
  wi_trk : forall m, In m (tracks sw) -> refs_ok (ww sw) m;
  wi_rem : refs_ok (ww sw) (remote sw) }.

Lemma WI_sw0 n : WI (sw0 n).
Proof. split; cbn; [apply WW_w0| |intros e t []]. intros m H. apply repeat_spec in H. subst. intros e t []. Qed.

Lemma refs_ok_nil w : refs_ok w [].
Proof. intros e t []. Qed.

Lemma track_of_ok sw r : WI sw -> refs_ok (ww sw) (track_of sw r).
Proof. intros W. unfold track_of. destruct (nth_in_or_default r (tracks sw) []) as [H|H]; [now apply (wi_trk sw W)|rewrite H; apply refs_ok_nil]. Qed.

Lemma refs_ok_step w a w' m : WW w -> step w a = Some w' -> refs_ok w m -> refs_ok w' m.
Proof. intros W Hs R e t Hin. destruct (R e t Hin) as [A B]. pose proof (step_len _ _ _ W Hs). split; [lia|]. now rewrite (step_eidf_old _ _ _ W Hs t A). Qed.

Lemma refs_ok_locals w r : WW w -> refs_ok w (locals w r).
Proof. intros W e t Hin. unfold locals in Hin. apply In_asort in Hin. apply in_map_iff in Hin as (h & E & Hh). inversion E; subst.
  split; [now apply (rep_of_heads_lt w r)|reflexivity]. Qed.

Lemma refs_ok_aoverride w a b : refs_ok w a -> refs_ok w b -> refs_ok w (aoverride a b).
Proof. intros A B e t Hin. apply In_aoverride in Hin as [H|H]; auto. Qed.

Lemma refs_ok_aremove w e m : refs_ok w m -> refs_ok w (aremove e m).
Proof. intros A e' t Hin. unfold aremove in Hin. apply filter_In in Hin as [H _]. auto. Qed.

(* one world transition inside a session event *)
Lemma WI_step sw a w' : WI sw -> adopt_ok (ww sw) a -> step (ww sw) a = Some w' -> WI (with_ww sw w').
Proof. intros [A B C] Ok Hs. split; cbn [ww tracks remote with_ww].
  - eapply step_WW; eauto.
  - intros m Hm. eapply refs_ok_step; eauto.
  - eapply refs_ok_step; eauto. Qed.

Lemma bgit_of_step w a w' h : WW w -> step w a = Some w' -> h < length (st w) -> bgit_of w' h = bgit_of w h.
Proof. intros W Hs Hh. unfold bgit_of. now rewrite (step_read_old _ _ _ _ W Hs Hh). Qed.

Lemma gfb_step_same sw a w' r e : WI sw -> step (ww sw) a = Some w' -> lh w' r e = lh (ww sw) r e -> gfb (with_ww sw w') r e = gfb sw r e.
Proof. intros W Hs E. rewrite !gfb_lh. cbn [ww with_ww]. rewrite E. destruct (lh (ww sw) r e) as [h|] eqn:L; [|reflexivity]. cbn. f_equal.
  apply (bgit_of_step _ _ _ _ (wi_ww sw W) Hs). apply lh_eid in L as [L _]. exact (rep_of_heads_lt (ww sw) r h (wi_ww sw W) L). Qed.

Lemma gfb_step_other sw a w' r e : WI sw -> step (ww sw) a = Some w' -> r <> act_rep a -> gfb (with_ww sw w') r e = gfb sw r e.
Proof. intros W Hs Hne. apply (gfb_step_same sw a w' r e W Hs). exact (step_lh_other _ _ _ _ e (wi_ww sw W) Hs Hne). Qed.

Lemma with_ww_id sw : with_ww sw (ww sw) = sw.
Proof. now destruct sw. Qed.

Lemma gfb_same_ww sw sw' r e : ww sw' = ww sw -> gfb sw' r e = gfb sw r e.
Proof. intros H. unfold gfb. now rewrite H. Qed.

Definition erep (ev : event) : nat :=
  match ev with ECommit r _ _ | ERead r _ | EPush r | EFetch r | EMerge r _ _ _ | ERemove r _ | EReopen r _ => r end.

(* the entity a session event can touch on the acting replica *)
Definition ev_ent (sw : sworld) (ev : event) : nat :=
  match ev with
  | ECommit _ None _ => length (st (ww sw))
  | ECommit _ (Some e) _ | ERead _ e | EMerge _ e _ _ | ERemove _ e => e
  | _ => 0
  end.

(* the events the cache model issues *)
Definition cache_event (ev : event) : Prop :=
  match ev with
  | ECommit _ _ [Pk _ _ _] | EPush _ | EFetch _ | EMerge _ _ _ _ | ERemove _ _ | EReopen _ false => True
  | _ => False
  end.

Theorem sstep_frame sw ev sw' out : WI sw -> cache_event ev -> sstep sw ev = Some (sw', out) ->
  WI sw' /\
  (forall r' e', r' <> erep ev -> gfb sw' r' e' = gfb sw r' e') /\
  (forall e', e' <> ev_ent sw ev -> gfb sw' (erep ev) e' = gfb sw (erep ev) e') /\
  match ev, out with
  | ERemove r e, _ => gfb sw' r e = None
  | EMerge r e _ _, OMerge MNew _ | EMerge r e _ _, OMerge MUpdated _ => True
  | EMerge r e _ _, _ => gfb sw' r e = gfb sw r e
  | ECommit _ _ _, OFail => sw' = sw
  | EPush _, _ | EFetch _, _ | EReopen _ _, _ => ww sw' = ww sw
  | _, _ => True
  end.
Proof.
  intros W Hc Hs. pose proof (wi_ww sw W) as WWw.
  destruct ev as [r [e|] ps|r e|r|r|r e mid mau|r e|r lost]; cbn [cache_event] in Hc; try contradiction; cbn [sstep erep ev_ent] in *.
  - (* commit on an existing entity *)
    destruct ps as [|[id au ops] [|? ?]]; try contradiction.
    destruct (alookup e (locals (ww sw) r)) as [h|] eqn:El; [|inversion Hs; subst; (split; [exact W|repeat split; auto])].
    destruct (negb (valid (st (ww sw)) h)); [inversion Hs; subst; (split; [exact W|repeat split; auto])|].
    destruct (step (ww sw) (AWitness r h)) as [w1|] eqn:S1; [|discriminate]. cbn [commit_packs] in Hs.
    destruct (step w1 (AEdit r h id au ops)) as [w2|] eqn:S2; [|discriminate]. inversion Hs; subst.
    pose proof (WI_step sw (AWitness r h) _ W I S1) as W1. rewrite locals_lh in El.
    assert (El1 : lh w1 r e = Some h) by (rewrite (step_lh_witness _ _ _ _ r e WWw S1); exact El).
    assert (W2 : WI (with_ww sw w2)).
    { change (with_ww sw w2) with (with_ww (with_ww sw w1) w2). apply (WI_step (with_ww sw w1) (AEdit r h id au ops) w2 W1 I S2). }
    split; [exact W2|]. split; [|split; [|exact I]].
    + intros r' e' Hne. change (with_ww sw w2) with (with_ww (with_ww sw w1) w2).
      rewrite (gfb_step_other (with_ww sw w1) _ w2 r' e' W1 S2 Hne). apply (gfb_step_other sw _ w1 r' e' W S1 Hne).
    + intros e' Hne. change (with_ww sw w2) with (with_ww (with_ww sw w1) w2).
      rewrite (gfb_step_same (with_ww sw w1) _ w2 r e' W1 S2).
      * apply (gfb_step_same sw _ w1 r e' W S1). apply (step_lh_witness _ _ _ _ r e' WWw S1).
      * cbn [ww with_ww]. rewrite (step_lh_edit w1 r h id au ops w2 e e' (wi_ww _ W1) S2 El1). destruct (Nat.eqb_spec e' e); [congruence|reflexivity].
  - (* new entity *)
    destruct ps as [|[id au ops] [|? ?]]; try contradiction. cbn [commit_packs] in Hs.
    destruct (step (ww sw) (ACreate r id au ops)) as [w1|] eqn:S1; [|discriminate]. inversion Hs; subst.
    pose proof (WI_step sw (ACreate r id au ops) _ W I S1) as W1. split; [exact W1|]. split; [|split; [|exact I]].
    + intros r' e' Hne. apply (gfb_step_other sw _ w1 r' e' W S1 Hne).
    + intros e' Hne. apply (gfb_step_same sw _ w1 r e' W S1). rewrite (step_lh_create _ _ _ _ _ _ e' WWw S1).
      destruct (Nat.eqb_spec e' (length (st (ww sw)))); [congruence|reflexivity].
  - (* push *)
    destruct (push_ok (st (ww sw)) (locals (ww sw) r) (remote sw)); inversion Hs; subst; [|(split; [exact W|repeat split; auto])].
    split; [|repeat split; auto].
    split; cbn [ww tracks remote]; [exact WWw| |].
    + intros m Hm. apply In_set_nth in Hm as [->|Hm]; [|now apply (wi_trk sw W)].
      apply refs_ok_aoverride; [now apply track_of_ok|now apply refs_ok_locals].
    + apply refs_ok_aoverride; [apply (wi_rem sw W)|now apply refs_ok_locals].
  - (* fetch *)
    inversion Hs; subst. split; [|repeat split; auto].
    split; cbn [ww tracks remote]; [exact WWw| |apply (wi_rem sw W)].
    intros m Hm. apply In_set_nth in Hm as [->|Hm]; [|now apply (wi_trk sw W)].
    apply refs_ok_aoverride; [now apply track_of_ok|apply (wi_rem sw W)].
  - (* merge of the tracking ref of e *)
    destruct (alookup e (track_of sw r)) as [t|] eqn:Et; [|inversion Hs; subst; (split; [exact W|repeat split; auto])].
    destruct (track_of_ok sw r W e t (kget_In _ _ _ Et)) as [Lt Ee].
    destruct (negb (valid (st (ww sw)) t)); [inversion Hs; subst; (split; [exact W|repeat split; auto])|].
    destruct (step (ww sw) (AWitness r t)) as [w1|] eqn:S1; [|discriminate].
    pose proof (WI_step sw (AWitness r t) _ W I S1) as W1. pose proof (wi_ww _ W1) as WW1. cbn [ww with_ww] in WW1.
    assert (F1 : forall r' e', gfb (with_ww sw w1) r' e' = gfb sw r' e').
    { intros r' e'. apply (gfb_step_same sw _ w1 r' e' W S1). apply (step_lh_witness _ _ _ _ r' e' WWw S1). }
    assert (Eid1 : eidf w1 t = e) by (rewrite (step_eidf_old _ _ _ WWw S1 t Lt); exact Ee).
    rewrite locals_lh in Hs. destruct (lh (ww sw) r e) as [h|] eqn:El.
    + assert (El1 : lh w1 r e = Some h) by (rewrite (step_lh_witness _ _ _ _ r e WWw S1); exact El).
      destruct (Nat.eqb h t); [inversion Hs; subst; split; [exact W1|]; split; [intros; apply F1|]; split; [intros; apply F1|apply F1]|].
      destruct (is_anc (st (ww sw)) t h); [inversion Hs; subst; split; [exact W1|]; split; [intros; apply F1|]; split; [intros; apply F1|apply F1]|].
      destruct (is_anc (st (ww sw)) h t).
      * (* fast-forward *)
        destruct (step w1 (AFF r h t)) as [w2|] eqn:S2; [|discriminate]. inversion Hs; subst.
        assert (Ok : adopt_ok w1 (AFF r h t)) by (cbn; apply lh_eid in El1 as [_ El1]; congruence).
        assert (W2 : WI (with_ww sw w2)) by (change (with_ww sw w2) with (with_ww (with_ww sw w1) w2); apply (WI_step (with_ww sw w1) (AFF r h t) w2 W1 Ok S2)).
        split; [exact W2|]. split; [|split; [|exact I]].
        -- intros r' e' Hne. change (with_ww sw w2) with (with_ww (with_ww sw w1) w2).
           rewrite (gfb_step_other (with_ww sw w1) _ w2 r' e' W1 S2 Hne). apply F1.
        -- intros e' Hne. change (with_ww sw w2) with (with_ww (with_ww sw w1) w2).
           rewrite (gfb_step_same (with_ww sw w1) _ w2 r e' W1 S2); [apply F1|]. cbn [ww with_ww].
           rewrite (step_lh_ff w1 r h t w2 (eidf (ww sw) t) e' WW1 S2 El1 Eid1). destruct (Nat.eqb_spec e' (eidf (ww sw) t)); [congruence|reflexivity].
      * (* merge commit *)
        destruct (step w1 (AWitness r h)) as [w2|] eqn:S2; [|discriminate].
        destruct (step w2 (AMerge r h t mid mau)) as [w3|] eqn:S3; [|discriminate]. inversion Hs; subst.
        assert (W2 : WI (with_ww sw w2)) by (change (with_ww sw w2) with (with_ww (with_ww sw w1) w2); apply (WI_step (with_ww sw w1) (AWitness r h) w2 W1 I S2)).
        pose proof (wi_ww _ W2) as WW2. cbn [ww with_ww] in WW2.
        assert (W3 : WI (with_ww sw w3)) by (change (with_ww sw w3) with (with_ww (with_ww sw w2) w3); apply (WI_step (with_ww sw w2) (AMerge r h t mid mau) w3 W2 I S3)).
        assert (F2 : forall r' e', gfb (with_ww sw w2) r' e' = gfb sw r' e').
        { intros r' e'. change (with_ww sw w2) with (with_ww (with_ww sw w1) w2). rewrite (gfb_step_same (with_ww sw w1) _ w2 r' e' W1 S2); [apply F1|].
          apply (step_lh_witness _ _ _ _ r' e' WW1 S2). }
        assert (El2 : lh w2 r (eidf (ww sw) t) = Some h) by (rewrite (step_lh_witness _ _ _ _ r _ WW1 S2); exact El1).
        split; [exact W3|]. split; [|split; [|exact I]].
        -- intros r' e' Hne. change (with_ww sw w3) with (with_ww (with_ww sw w2) w3).
           rewrite (gfb_step_other (with_ww sw w2) _ w3 r' e' W2 S3 Hne). apply F2.
        -- intros e' Hne. change (with_ww sw w3) with (with_ww (with_ww sw w2) w3).
           rewrite (gfb_step_same (with_ww sw w2) _ w3 r e' W2 S3); [apply F2|]. cbn [ww with_ww].
           rewrite (step_lh_merge w2 r h t mid mau w3 (eidf (ww sw) t) e' WW2 S3 El2). destruct (Nat.eqb_spec e' (eidf (ww sw) t)); [congruence|reflexivity].
    + (* not local yet: the ref is created *)
      destruct (step w1 (AAdopt r t)) as [w2|] eqn:S2; [|discriminate]. inversion Hs; subst.
      assert (El1 : lh w1 r (eidf w1 t) = None) by (rewrite Eid1, (step_lh_witness _ _ _ _ r _ WWw S1); exact El).
      assert (W2 : WI (with_ww sw w2)) by (change (with_ww sw w2) with (with_ww (with_ww sw w1) w2); apply (WI_step (with_ww sw w1) (AAdopt r t) w2 W1 El1 S2)).
      split; [exact W2|]. split; [|split; [|exact I]].
      * intros r' e' Hne. change (with_ww sw w2) with (with_ww (with_ww sw w1) w2).
        rewrite (gfb_step_other (with_ww sw w1) _ w2 r' e' W1 S2 Hne). apply F1.
      * intros e' Hne. change (with_ww sw w2) with (with_ww (with_ww sw w1) w2).
        rewrite (gfb_step_same (with_ww sw w1) _ w2 r e' W1 S2); [apply F1|]. cbn [ww with_ww].
        rewrite (step_lh_adopt w1 r t w2 e' WW1 S2 El1), Eid1. destruct (Nat.eqb_spec e' (eidf (ww sw) t)); [congruence|reflexivity].
  - (* remove *)
    rewrite locals_lh in Hs. destruct (lh (ww sw) r e) as [h|] eqn:El.
    + destruct (step (ww sw) (ARemove r h)) as [w1|] eqn:S1; [|discriminate]. inversion Hs; subst.
      pose proof (WI_step sw (ARemove r h) _ W I S1) as W1.
      assert (G : forall r' e', gfb {| ww := w1; tracks := set_nth r (aremove e (track_of sw r)) (tracks sw); remote := remote sw |} r' e' = gfb (with_ww sw w1) r' e') by reflexivity.
      split; [|split; [|split]].
      * split; cbn [ww tracks remote]; [apply (wi_ww _ W1)| |apply (wi_rem _ W1)].
        intros m Hm. apply In_set_nth in Hm as [->|Hm]; [|now apply (wi_trk _ W1)].
        apply refs_ok_aremove. eapply refs_ok_step; [exact WWw|exact S1|now apply track_of_ok].
      * intros r' e' Hne. rewrite G. apply (gfb_step_other sw _ w1 r' e' W S1 Hne).
      * intros e' Hne. rewrite G. apply (gfb_step_same sw _ w1 r e' W S1). rewrite (step_lh_remove _ _ _ _ e e' WWw S1 El).
        destruct (Nat.eqb_spec e' e); [congruence|reflexivity].
      * rewrite G, gfb_lh. cbn [ww with_ww]. rewrite (step_lh_remove _ _ _ _ e e WWw S1 El), Nat.eqb_refl. reflexivity.
    + inversion Hs; subst.
      assert (G : forall r' e', gfb {| ww := ww sw; tracks := set_nth r (aremove e (track_of sw r)) (tracks sw); remote := remote sw |} r' e' = gfb sw r' e') by reflexivity.
      split; [|split; [|split]]; auto.
      * split; cbn [ww tracks remote]; [exact WWw| |apply (wi_rem sw W)].
        intros m Hm. apply In_set_nth in Hm as [->|Hm]; [|now apply (wi_trk sw W)]. apply refs_ok_aremove. now apply track_of_ok.
      * rewrite G, gfb_lh, El. reflexivity.
  - (* reopen without lost clocks *)
    destruct lost; [contradiction|]. inversion Hs; subst. (split; [exact W|repeat split; auto]).
Qed.
Print Assumptions sstep_frame.
