(* C10 — Bug.Compile against the model, and the documented interpretation as a checker. *)
From Coq Require Import List Arith NArith Bool.
Import ListNotations.
From GB Require Export Snap SnapSpec.
Local Open Scope N_scope.

Record obs10 := mkobs10 {
  b_id : opid; b_status : N; b_title : N; b_comments : list comment; b_labels : list N;
  b_actors : list N; b_parts : list N; b_timeline : list (bool * N) (* is a comment item, 14-char head of the op id *);
  b_ops : list opid; b_meta : list (list (N * N)) (* per operation, sorted by key: AllMetadata *);
  b_meta_get : list (list (N * N)) (* the same through the per-key accessor GetMetadata (and GetCreateMetadata) *);
  b_same : bool (* compiling twice gives the same snapshot *);
  b_incr : bool (* applying operation by operation, as the cache does, gives the same snapshot; and the snapshot's
                     accessor functions (HasActor, HasParticipant, Search*, Edited, ...) answer what its lists say *) }.
(* k_own: the metadata each operation carries itself (part of its content, hence of its id); the model and the
   specification speak of the metadata attached later, which never overrides it *)
Record case := mkcase10 { k_ops : list op; k_own : list (list (N * N)); k_obs : obs10 }.

Fixpoint list_eqb {A} (eqb : A -> A -> bool) (a b : list A) : bool :=
  match a, b with [], [] => true | x :: a', y :: b' => eqb x y && list_eqb eqb a' b' | _, _ => false end.
Definition opid_eqb (a b : opid) := N.eqb (fst a) (fst b) && N.eqb (snd a) (snd b).
Definition nl_eqb := list_eqb N.eqb.
Definition comment_eqb (a b : comment) :=
  opid_eqb (c_id a) (c_id b) && N.eqb (c_author a) (c_author b) && N.eqb (c_msg a) (c_msg b) &&
  nl_eqb (c_files a) (c_files b) && Nat.eqb (c_edits a) (c_edits b).
Definition kv_eqb (a b : N * N) := N.eqb (fst a) (fst b) && N.eqb (snd a) (snd b).

Definition bn_eqb (a b : bool * N) := Bool.eqb (fst a) (fst b) && N.eqb (snd a) (snd b).

Definition with_own (own extra : list (N * N)) : list (N * N) :=
  kv_sort (fold_left (fun m p => if existsb (fun q => N.eqb (fst q) (fst p)) m then m else m ++ [p]) extra own).
Fixpoint map2 {A B C} (f : A -> B -> C) (a : list A) (b : list B) : list C :=
  match a, b with x :: a', y :: b' => f x y :: map2 f a' b' | _, _ => [] end.

Definition snap_matches (own : list (list (N * N))) (s : snapshot) (o : obs10) : bool :=
  match s_id s with Some i => opid_eqb i (b_id o) | None => false end &&
  N.eqb (s_status s) (b_status o) && N.eqb (s_title s) (b_title o) &&
  list_eqb comment_eqb (s_comments s) (b_comments o) && nl_eqb (s_labels s) (b_labels o) &&
  nl_eqb (s_actors s) (b_actors o) && nl_eqb (s_parts s) (b_parts o) &&
  list_eqb bn_eqb (map titem_view (s_timeline s)) (b_timeline o) &&
  list_eqb opid_eqb (s_ops s) (b_ops o) &&
  list_eqb (list_eqb kv_eqb) (map2 with_own own (map snd (s_extra s))) (b_meta o) &&
  Nat.eqb (length own) (length (s_extra s)).

Definition agrees (c : case) : bool := snap_matches (k_own c) (compile (k_ops c)) (k_obs c).

(* the documented interpretation (spec_title, spec_status, spec_labels, spec_comments, spec_actors_parts,
   spec_timeline, spec_meta), kv_sort, titem_view and nodupb live in SnapSpec.v (re-exported here) *)
Fixpoint strictly_sorted (l : list N) : bool :=
  match l with a :: ((b :: _) as t) => N.ltb a b && strictly_sorted t | _ => true end.

Definition C10_ok (c : case) : bool :=
  let ops := k_ops c in let o := k_obs c in
  match ops with
  | [] => false
  | o1 :: _ =>
    let first := op_id o1 in
    opid_eqb (b_id o) first &&
    N.eqb (b_title o) (spec_title first ops) && N.eqb (b_status o) (spec_status ops) &&
    strictly_sorted (b_labels o) && nl_eqb (b_labels o) (spec_labels ops) &&
    list_eqb comment_eqb (b_comments o) (spec_comments first ops) &&
    nodupb (b_actors o) && nodupb (b_parts o) &&
    nl_eqb (b_actors o) (fst (spec_actors_parts first ops)) && nl_eqb (b_parts o) (snd (spec_actors_parts first ops)) &&
    forallb (fun cm => existsb (N.eqb (c_author cm)) (b_parts o)) (b_comments o) &&
    forallb (fun a => existsb (fun x => N.eqb (op_author x) a) ops) (b_actors o) &&
    forallb (fun a => existsb (N.eqb a) (b_actors o)) (b_parts o) &&
    list_eqb bn_eqb (b_timeline o) (spec_timeline first ops) &&
    list_eqb opid_eqb (b_ops o) (map op_id ops) &&
    list_eqb (list_eqb kv_eqb) (b_meta o) (map2 with_own (k_own c) (spec_meta ops)) &&
    Nat.eqb (length (k_own c)) (length ops) &&
    list_eqb (list_eqb kv_eqb) (b_meta_get o) (b_meta o) &&
    b_same o && b_incr o
  end.

Fixpoint index_filter {A} (f : A -> bool) (i : nat) (l : list A) : list nat :=
  match l with [] => [] | x :: t => if f x then index_filter f (S i) t else i :: index_filter f (S i) t end.
Definition mismatches (cs : list case) : list nat := index_filter agrees 0 cs.
Definition failing (cs : list case) : list nat := index_filter C10_ok 0 cs.
Definition explain (c : case) := (compile (k_ops c)).
