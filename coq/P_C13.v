(* C13 — id prefixes and combined comment ids resolve to exactly the right target. Property theorems only.
   sym is any symbol type with a decidable equality (the check instantiates it with code points, N). *)
From Coq Require Import List Arith NArith Bool Lia Sorting.Permutation.
Import ListNotations.
From GB Require Import Ids CommentLive.

(* a complete combined id has 64 symbols: the first 50 of the primary id and the first 14 of the secondary *)
Theorem C13_combine_lengths (sym : Type) (p s : list sym) : length p = 64 -> length s = 64 ->
  length (combine_ids sym p s) = 64 /\ separate_ids sym (combine_ids sym p s) = (firstn 50 p, firstn 14 s).
Proof. exact (combine_lengths sym p s). Qed.
Print Assumptions C13_combine_lengths.

(* every prefix of a combined id splits into a prefix of each part; np k + ns k = k *)
Theorem C13_separate_prefix (sym : Type) (p s : list sym) (k : nat) : length p = 64 -> length s = 64 -> k <= 64 ->
  separate_ids sym (firstn k (combine_ids sym p s)) = (firstn (np k) p, firstn (ns k) s) /\ np k + ns k = k.
Proof. exact (separate_prefix_np sym p s k). Qed.
Print Assumptions C13_separate_prefix.

(* SeparateIds as written in Go (the position decides, any input length) is the 64-position pattern on inputs of length <= 64 *)
Theorem C13_separate_go_is_pattern (sym : Type) (x : list sym) : length x <= 64 -> separate_go sym x = separate_ids sym x.
Proof. exact (separate_go_ids sym x). Qed.
Print Assumptions C13_separate_go_is_pattern.

(* x is a prefix of a combined id exactly when its two parts are prefixes of the two ids *)
Theorem C13_prefix_iff (sym : Type) (p s x : list sym) : length p = 64 -> length s = 64 -> length x <= 64 ->
  (is_prefix sym x (combine_ids sym p s) <->
   is_prefix sym (fst (separate_ids sym x)) p /\ is_prefix sym (snd (separate_ids sym x)) s).
Proof. exact (prefix_iff sym p s x). Qed.
Print Assumptions C13_prefix_iff.

(* 0 / 1 / many, for ALL populations: not-found iff nothing matches; the entity iff it is the only match;
   a multiple-match error lists exactly the matching ids (each once, at least two), and is raised whenever two entities match *)
Theorem C13_resolve_spec (sym : Type) (eqb : sym -> sym -> bool) (eqb_spec : forall a b, eqb a b = true <-> a = b)
  (pop : list (list sym)) (pfx : list sym) : NoDup pop ->
  ((forall i, ~ matches sym pop pfx i) <-> resolve_prefix sym eqb pop pfx = RNotFound sym) /\
  (forall a, (matches sym pop pfx a /\ forall b, matches sym pop pfx b -> b = a) <-> resolve_prefix sym eqb pop pfx = RFound sym a) /\
  (forall l, resolve_prefix sym eqb pop pfx = RMultiple sym l ->
     NoDup l /\ 2 <= length l /\ forall i, In i l <-> matches sym pop pfx i) /\
  ((exists a b, a <> b /\ matches sym pop pfx a /\ matches sym pop pfx b) -> exists l, resolve_prefix sym eqb pop pfx = RMultiple sym l).
Proof. exact (resolve_spec sym eqb eqb_spec pop pfx). Qed.
Print Assumptions C13_resolve_spec.

(* the answer does not depend on the order in which Go enumerates the excerpt map *)
Theorem C13_resolve_order_independent (sym : Type) (eqb : sym -> sym -> bool) (pop pop' : list (list sym)) (pfx : list sym) :
  Permutation pop pop' ->
  match resolve_prefix sym eqb pop pfx, resolve_prefix sym eqb pop' pfx with
  | RFound _ a, RFound _ b => a = b
  | RNotFound _, RNotFound _ => True
  | RMultiple _ l, RMultiple _ l' => Permutation l l'
  | _, _ => False
  end.
Proof. exact (resolve_perm sym eqb pop pop' pfx). Qed.
Print Assumptions C13_resolve_order_independent.

(* commands/select: a first argument that is a prefix of exactly one entity selects it and is consumed; an ambiguous one is an
   error listing exactly the matches; only "no match" falls back to the stored selection *)
Theorem C13_select_spec (sym : Type) (eqb : sym -> sym -> bool) (eqb_spec : forall a b, eqb a b = true <-> a = b)
  (pop : list (list sym)) (sel : option (list sym)) (a : list sym) (rest : list (list sym)) : NoDup pop ->
  (forall i, matches sym pop a i -> (forall j, matches sym pop a j -> j = i) -> select_resolve sym eqb pop sel (a :: rest) = SFound sym i rest) /\
  ((exists i j, i <> j /\ matches sym pop a i /\ matches sym pop a j) ->
     exists l, select_resolve sym eqb pop sel (a :: rest) = SMultiple sym l /\ forall i, In i l <-> matches sym pop a i) /\
  ((forall i, ~ matches sym pop a i) -> select_resolve sym eqb pop sel (a :: rest) = select_fallback sym eqb pop sel (a :: rest)).
Proof. exact (select_spec sym eqb eqb_spec pop sel a rest). Qed.
Print Assumptions C13_select_spec.

(* ResolveComment: restricting the search to the bugs whose id starts with the primary part of the prefix loses no comment *)
Theorem C13_comment_candidates_lose_nothing (sym : Type) (eqb : sym -> sym -> bool) (eqb_spec : forall a b, eqb a b = true <-> a = b)
  (pop : list (bugrec sym)) (pfx : list sym) : wf_pop sym pop ->
  cmatches_in sym eqb pfx (ccands sym eqb pop pfx) = cmatches_in sym eqb pfx pop.
Proof. exact (cands_lose_nothing sym eqb eqb_spec pop pfx). Qed.
Print Assumptions C13_comment_candidates_lose_nothing.

(* a prefix of a combined id that identifies a single comment resolves to that comment and its bug, and never to another *)
Theorem C13_comment_sound_complete (sym : Type) (eqb : sym -> sym -> bool) (eqb_spec : forall a b, eqb a b = true <-> a = b)
  (pop : list (bugrec sym)) (pfx : list sym) : wf_pop sym pop -> NoDup (all_comments sym pop) ->
  (forall bs, In bs (all_comments sym pop) -> cmatch sym pfx bs ->
     (forall bs', In bs' (all_comments sym pop) -> cmatch sym pfx bs' -> bs' = bs) ->
     resolve_comment sym eqb pop pfx = CFound sym (fst bs) (cid_of sym bs)) /\
  (forall b c, resolve_comment sym eqb pop pfx = CFound sym b c ->
     exists s, c = combine_ids sym b s /\ In (b, s) (all_comments sym pop) /\ is_prefix sym pfx c /\
               forall bs', In bs' (all_comments sym pop) -> cmatch sym pfx bs' -> bs' = (b, s)) /\
  (resolve_comment sym eqb pop pfx = CNone sym <-> forall bs, In bs (all_comments sym pop) -> ~ cmatch sym pfx bs) /\
  (forall l, resolve_comment sym eqb pop pfx = CMultiple sym l ->
     forall b, In b l <-> exists s, In (b, s) (all_comments sym pop) /\ cmatch sym pfx (b, s)).
Proof. exact (comment_sound_complete sym eqb eqb_spec pop pfx). Qed.
Print Assumptions C13_comment_sound_complete.

(* ---- the object handed out is the loaded instance of the entity (an evicted instance is locked for ever) ---- *)

(* SubCache.Resolve (and so ResolvePrefix, select.Resolve) hands out the most recently used loaded instance of the entity
   asked for: for every bound on the number of loaded entities (0 included), whatever is loaded or needs a commit *)
Theorem C13_resolve_handle_live (id : Type) (id_eqb : id -> id -> bool) (id_eqb_spec : forall a b, id_eqb a b = true <-> a = b)
  (dirty : id -> bool) (cap : nat) (e : id) (c : lcache id) :
  live id (fst (resolve id id_eqb dirty cap e c)) (snd (resolve id id_eqb dirty cap e c)) /\
  fst (snd (resolve id id_eqb dirty cap e c)) = e.
Proof. exact (resolve_live id id_eqb id_eqb_spec dirty cap e c). Qed.
Print Assumptions C13_resolve_handle_live.

(* ResolveComment resolving the matching bug once AFTER the scan of the candidates hands out a live instance: every bound,
   every visiting order of the candidates, every cache content *)
Theorem C13_comment_handle_live (id : Type) (id_eqb : id -> id -> bool) (id_eqb_spec : forall a b, id_eqb a b = true <-> a = b)
  (dirty : id -> bool) (cap : nat) (cands : list (id * nat)) (c : lcache id) (h : inst id) :
  snd (resolve_comment_again id id_eqb dirty cap cands c) = HFound id h ->
  live id (fst (resolve_comment_again id id_eqb dirty cap cands c)) h.
Proof. exact (comment_handle_live id id_eqb id_eqb_spec dirty cap cands c h). Qed.
Print Assumptions C13_comment_handle_live.

(* ... and names the same bug / the same multiple-match list / "no such comment" as the scan that keeps the instance *)
Theorem C13_comment_same_answer (id : Type) (id_eqb : id -> id -> bool) (id_eqb_spec : forall a b, id_eqb a b = true <-> a = b)
  (dirty : id -> bool) (cap : nat) (cands : list (id * nat)) (c : lcache id) :
  answer id (snd (resolve_comment_again id id_eqb dirty cap cands c)) = answer id (snd (resolve_comment_kept id id_eqb dirty cap cands c)).
Proof. exact (comment_same_answer id id_eqb id_eqb_spec dirty cap cands c). Qed.
Print Assumptions C13_comment_same_answer.

(* ResolveComment keeping the instance of the matching bug while it resolves the other candidates (the code as found before
   fixes/C13-resolvecomment-evicted-bug.patch): two candidate bugs and room for one loaded bug, the instance handed out has
   been evicted; the repaired scan answers the same bug with a live instance *)
Theorem C13_comment_kept_instance_refuted : exists cap cands c h,
  snd (resolve_comment_kept nat Nat.eqb nd cap cands c) = HFound nat h /\
  ~ live nat (fst (resolve_comment_kept nat Nat.eqb nd cap cands c)) h /\
  exists h', snd (resolve_comment_again nat Nat.eqb nd cap cands c) = HFound nat h' /\ fst h' = fst h /\
             live nat (fst (resolve_comment_again nat Nat.eqb nd cap cands c)) h'.
Proof. exact comment_kept_refuted. Qed.
Print Assumptions C13_comment_kept_instance_refuted.

(* ---- the model is the documented format; the hypotheses are satisfiable ---- *)

(* "PSPSPSPPPSPPPPSPPPPSPPPPSPPPPSPPPPSPPPPSPPPPSPPPPSPPPPSPPPPSPPPP" of entity/id_interleaved.go, S = true *)
Example C13_pattern_is_documented :
  pattern = [false;true;false;true;false;true;false;false;false;true;
             false;false;false;false;true; false;false;false;false;true; false;false;false;false;true;
             false;false;false;false;true; false;false;false;false;true; false;false;false;false;true;
             false;false;false;false;true; false;false;false;false;true; false;false;false;false;true;
             false;false;false;false;true; false;false;false;false].
Proof. vm_compute. reflexivity. Qed.

(* the breakdown quoted in the Go comment: 5: 3P 2S, 7: 4P 3S, 10: 6P 4S, 16: 11P 5S *)
Example C13_breakdown : (np 5, ns 5, np 7, ns 7, np 10, ns 10, np 16, ns 16) = (3, 2, 4, 3, 6, 4, 11, 5).
Proof. vm_compute. reflexivity. Qed.

Definition ex_p : list N := map N.of_nat (seq 100 64).
Definition ex_s : list N := map N.of_nat (seq 200 64).
Example C13_ex_lengths : length ex_p = 64 /\ length ex_s = 64.
Proof. vm_compute. auto. Qed.
Example C13_ex_combine : firstn 12 (combine_ids N ex_p ex_s) = [100; 200; 101; 201; 102; 202; 103; 104; 105; 203; 106; 107]%N.
Proof. vm_compute. reflexivity. Qed.

(* three entities, two of which share the first symbol: each of the three outcomes occurs *)
Definition ex_pop : list (list N) := [[1; 2; 3]; [1; 5; 6]; [7; 8; 9]]%N.
Example C13_ex_resolve :
  NoDup ex_pop /\
  resolve_prefix N N.eqb ex_pop [1]%N = RMultiple N [[1; 2; 3]; [1; 5; 6]]%N /\
  resolve_prefix N N.eqb ex_pop [1; 5]%N = RFound N [1; 5; 6]%N /\
  resolve_prefix N N.eqb ex_pop [2]%N = RNotFound N.
Proof. split; [|vm_compute; auto]. repeat constructor; cbn; intuition discriminate. Qed.

(* two bugs sharing the first symbol of their ids, three comments: a prefix that singles out one comment finds it *)
Definition ex_b2 : list N := 100%N :: firstn 63 ex_s.
Definition ex_bugs : list (bugrec N) := [(ex_p, [ex_p; ex_s]); (ex_b2, [ex_s])].
Example C13_ex_wf : wf_pop N ex_bugs /\ NoDup (all_comments N ex_bugs).
Proof. split.
  - unfold wf_pop, ex_bugs. intros b [<-|[<-|[]]]; cbn [fst snd]; (split; [vm_compute; reflexivity|]).
    + intros s [<-|[<-|[]]]; vm_compute; reflexivity.
    + intros s [<-|[]]; vm_compute; reflexivity.
  - change (all_comments N ex_bugs) with [(ex_p, ex_p); (ex_p, ex_s); (ex_b2, ex_s)].
    assert (D1 : ex_p <> ex_s) by (vm_compute; discriminate).
    assert (D2 : ex_p <> ex_b2) by (vm_compute; discriminate).
    repeat constructor; cbn [In]; intuition congruence. Qed.
Example C13_ex_comment :
  resolve_comment N N.eqb ex_bugs (firstn 4 (combine_ids N ex_p ex_s)) = CFound N ex_p (combine_ids N ex_p ex_s) /\
  resolve_comment N N.eqb ex_bugs [100]%N = CMultiple N [ex_p; ex_p; ex_b2] /\
  resolve_comment N N.eqb ex_bugs [5]%N = CNone N.
Proof. vm_compute. auto. Qed.
