(* Every page, for every combination of after / before / first / last, is a contiguous run of the list inside the
   requested window. *)
From Coq Require Import List Arith Lia Bool ZArith.
Import ListNotations.
From GB Require Import Page PageBack.

Lemma take_until_seq_gen c a len : exists k, k <= len /\ fst (take_until c (seq a len)) = seq a k /\
  (forall b, c = Off b -> a <= b < a + len -> k = b - a /\ snd (take_until c (seq a len)) = true) /\
  (snd (take_until c (seq a len)) = false -> k = len).
Proof. revert a. induction len as [|len IH]; intros a.
  - exists 0. cbn. split; [lia|]. split; [reflexivity|]. split; [intros b _ H; lia|reflexivity].
  - cbn [seq take_until]. destruct (cur_eqb c a) eqn:E.
    + exists 0. cbn. split; [lia|]. split; [reflexivity|]. split.
      * intros b -> Hb. cbn in E. apply Nat.eqb_eq in E. subst. split; [lia|reflexivity].
      * discriminate.
    + destruct (IH (S a)) as (k & Hk & Hf & Hb & Hn). destruct (take_until c (seq (S a) len)) as [l bb] eqn:T.
      cbn [fst snd] in *. exists (S k). split; [lia|]. split; [cbn; now rewrite Hf|]. split.
      * intros b -> Hr. cbn in E. apply Nat.eqb_neq in E. destruct (Hb b eq_refl ltac:(lia)) as [-> ->]. split; [lia|reflexivity].
      * intros H. rewrite (Hn H). reflexivity. Qed.

Lemma find_after_some c l o : find_after c l = Some o -> c = Off o /\ In o l.
Proof. induction l as [|x t IH]; cbn; [discriminate|]. destruct (cur_eqb c x) eqn:E.
  - intros H. inversion H; subst. destruct c as [m|]; cbn in E; [|discriminate]. apply Nat.eqb_eq in E. subst. split; [reflexivity|now left].
  - intros H. destruct (IH H) as [-> Hi]. split; [reflexivity|now right]. Qed.

Lemma existsb_off_seq b a : existsb (cur_eqb (Off b)) (seq 0 (S a)) = false -> a < b.
Proof. intros H. destruct (Nat.lt_ge_cases a b) as [Hl|Hg]; [exact Hl|].
  assert (T : existsb (cur_eqb (Off b)) (seq 0 (S a)) = true).
  { apply existsb_exists. exists b. split; [apply in_seq; lia|]. cbn. apply Nat.eqb_refl. }
  rewrite T in H. discriminate. Qed.

Lemma ltb_0 x : Nat.ltb x 0 = false.
Proof. destruct x; reflexivity. Qed.

(* whatever after / before / first / last are given: the page is a contiguous run of the list, every element of it
   lies strictly after the "after" cursor and strictly before the "before" cursor - also when "before" is at or
   ahead of "after" (the window is then empty, and so is the page) *)
Theorem page_window n i p : paginate n i = Ok p ->
  (exists lo len, p_items p = seq lo len /\ lo + len <= n) /\
  (forall a x, i_after i = Some (Off a) -> a < n -> In x (p_items p) -> a < x) /\
  (forall b x, i_before i = Some (Off b) -> b < n -> In x (p_items p) -> x < b).
Proof. unfold paginate. cbv zeta. intros H.
  destruct (empty_window n i) eqn:EW.
  { (* the empty window: nothing is returned *)
    assert (Hitems : p_items p = []).
    { destruct (match i_after i with Some c => match find_after c (seq 0 n) with Some o => _ | None => _ end | None => _ end) as [src0 hp].
      assert (E1 : (match i_before i with Some c => take_until c [] | None => ([], false) end) = (@nil nat, false)) by (destruct (i_before i); reflexivity).
      rewrite E1 in H. clear E1.
      destruct (i_first i) as [f|].
      - destruct (f <? 0)%Z; [discriminate|]. cbn [length] in H. rewrite ltb_0 in H.
        destruct (i_last i) as [l|].
        + destruct (l <? 0)%Z; [discriminate|]. cbn [length] in H. rewrite ltb_0 in H. inversion H. reflexivity.
        + inversion H. reflexivity.
      - destruct (i_last i) as [l|].
        + destruct (l <? 0)%Z; [discriminate|]. cbn [length] in H. rewrite ltb_0 in H. inversion H. reflexivity.
        + inversion H. reflexivity. }
    rewrite Hitems. split; [exists 0, 0; split; [reflexivity|lia]|]. split; intros ? ? _ _ [].
  }
  (* the source after "after" *)
  assert (S1 : exists o1, (match i_after i with
                           | Some c => match find_after c (seq 0 n) with Some o => (skipn (S o) (seq 0 n), true) | None => (seq 0 n, false) end
                           | None => (seq 0 n, false) end) = (seq o1 (n - o1), match i_after i with Some c => match find_after c (seq 0 n) with Some _ => true | None => false end | None => false end)
                    /\ o1 <= n /\ (forall a, i_after i = Some (Off a) -> a < n -> o1 = S a) /\
                    (o1 = 0 \/ exists a, i_after i = Some (Off a) /\ a < n /\ o1 = S a)).
  { destruct (i_after i) as [c|].
    - destruct (find_after c (seq 0 n)) as [o|] eqn:F.
      + destruct (find_after_some _ _ _ F) as [-> Hi]. apply in_seq in Hi. exists (S o). rewrite skipn_seq. cbn [Nat.add].
        split; [reflexivity|]. split; [lia|]. split; [intros a E _; inversion E; reflexivity|].
        right. exists o. split; [reflexivity|]. split; [lia|reflexivity].
      + exists 0. rewrite Nat.sub_0_r. split; [reflexivity|]. split; [lia|]. split; [|left; reflexivity].
        intros a E Ha. inversion E; subst. rewrite find_after_seq in F by lia. discriminate.
    - exists 0. rewrite Nat.sub_0_r. split; [reflexivity|]. split; [lia|]. split; [discriminate|left; reflexivity]. }
  destruct S1 as (o1 & ES1 & Ho1 & Hafter & Hcase). rewrite ES1 in H. clear ES1.
  set (hp := match i_after i with Some c => _ | None => false end) in *. clearbody hp.
  destruct (match i_before i with Some c => take_until c (seq o1 (n - o1)) | None => (seq o1 (n - o1), false) end) as [e1 hn] eqn:E1.
  assert (S2 : exists k, k <= n - o1 /\ e1 = seq o1 k /\ (forall b, i_before i = Some (Off b) -> o1 <= b < n -> k = b - o1)).
  { destruct (i_before i) as [c|].
    - destruct (take_until_seq_gen c o1 (n - o1)) as (k & Hk & Hf & Hb & _). rewrite E1 in Hf, Hb. cbn [fst snd] in *.
      exists k. repeat split; auto. intros b E Hr. inversion E; subst. apply (Hb b eq_refl). lia.
    - inversion E1; subst. exists (n - o1). repeat split; auto. discriminate. }
  destruct S2 as (k & Hk & -> & Hbefore).
  destruct (match i_first i with Some f => _ | None => _ end) as [[e2 hn2]|] eqn:E2; [|discriminate].
  assert (S3 : exists k2, k2 <= k /\ e2 = seq o1 k2).
  { destruct (i_first i) as [f|].
    - destruct (f <? 0)%Z; [discriminate|]. rewrite seq_length in E2.
      destruct (Nat.ltb_spec (Z.to_nat f) k); inversion E2; subst.
      + exists (Z.to_nat f). rewrite firstn_seq. split; [lia|]. f_equal. lia.
      + exists k. auto.
    - inversion E2; subst. exists k. auto. }
  destruct S3 as (k2 & Hk2 & ->).
  destruct (match i_last i with Some l => _ | None => _ end) as [[e3 hp3]|] eqn:E3; [|discriminate].
  inversion H; subst; clear H. cbn [p_items].
  assert (S4 : exists lo len, e3 = seq lo len /\ o1 <= lo /\ lo + len = o1 + k2).
  { destruct (i_last i) as [l|].
    - destruct (l <? 0)%Z; [discriminate|]. rewrite seq_length in E3.
      destruct (Nat.ltb_spec (Z.to_nat l) k2); inversion E3; subst.
      + exists (o1 + (k2 - Z.to_nat l)), (Z.to_nat l). rewrite lastn_seq by lia. repeat split; lia.
      + exists o1, k2. repeat split; lia.
    - inversion E3; subst. exists o1, k2. repeat split; lia. }
  destruct S4 as (lo & len & -> & Hlo & Hsum).
  split; [exists lo, len; split; [reflexivity|lia]|]. split.
  - intros a x E Ha Hin. apply in_seq in Hin. rewrite (Hafter a E Ha) in Hlo. lia.
  - intros b x E Hb Hin. apply in_seq in Hin.
    assert (Ho : o1 <= b).
    { (* the window is not empty: "before" lies strictly ahead of a valid "after" *)
      destruct Hcase as [->|(a & EA & Ha & ->)]; [lia|].
      unfold empty_window in EW. rewrite EA, E in EW.
      rewrite find_after_seq in EW by lia. apply existsb_off_seq in EW. lia. }
    rewrite (Hbefore b E ltac:(lia)) in Hk2. lia. Qed.

(* the pinned NameCon looked for "before" only in what was left after "after": when "before" was at or ahead of
   "after" the bound was dropped, and elements past it were returned *)
Definition paginate_pinned (n : nat) (i : input) : result :=
  let src := seq 0 n in
  let '(src1, hp) := match i_after i with
                     | Some c => match find_after c src with Some o => (skipn (S o) src, true) | None => (src, false) end
                     | None => (src, false) end in
  let '(e1, hn) := match i_before i with Some c => take_until c src1 | None => (src1, false) end in
  match (match i_first i with
         | Some f => if (f <? 0)%Z then None else
                     if Nat.ltb (Z.to_nat f) (length e1) then Some (firstn (Z.to_nat f) e1, true) else Some (e1, hn)
         | None => Some (e1, hn) end) with
  | None => ErrFirst
  | Some (e2, hn2) =>
    match (match i_last i with
           | Some l => if (l <? 0)%Z then None else
                       if Nat.ltb (Z.to_nat l) (length e2) then Some (lastn (Z.to_nat l) e2, true) else Some (e2, hp)
           | None => Some (e2, hp) end) with
    | None => ErrLast
    | Some (e3, hp3) => Ok {| p_items := e3; p_hasnext := hn2; p_hasprev := hp3; p_total := n |}
    end
  end.

Theorem pinned_window_refuted : exists n i p b x,
  paginate_pinned n i = Ok p /\ i_before i = Some (Off b) /\ b < n /\ In x (p_items p) /\ b <= x.
Proof. exists 6, {| i_after := Some (Off 1); i_before := Some (Off 0); i_first := None; i_last := None |}.
  eexists. exists 0, 2. split; [vm_compute; reflexivity|]. cbn. repeat split; auto; lia. Qed.
