(* The clock *directory*: what one write of a persisted clock does to the files around the clock, and the states a
   crash can leave. AllClocks lists every file of the `clocks` directory and loads it as a clock
   (repository/gogit.go), so a leftover of the write protocol inside that directory is a clock that does not exist
   (or does not load). Paths are numbers; `in_dir p` says whether p lies in the clocks directory. *)
From Coq Require Import List NArith Bool Lia Arith.
Import ListNotations.
From GB Require Import Decimal ClockFile.
Local Open Scope N_scope.

Inductive fsev := FTrunc (p : nat) | FWrite (p : nat) (d : list N) | FRename (p q : nat) | FRemove (p : nat).
Definition fs := list (nat * list N).   (* path -> content; a path that does not occur is no file *)

Fixpoint fs_get (p : nat) (s : fs) : option (list N) :=
  match s with [] => None | (q, c) :: r => if Nat.eqb p q then Some c else fs_get p r end.
Fixpoint fs_del (p : nat) (s : fs) : fs :=
  match s with [] => [] | (q, c) :: r => if Nat.eqb p q then fs_del p r else (q, c) :: fs_del p r end.
Definition fs_set (p : nat) (c : list N) (s : fs) : fs := (p, c) :: fs_del p s.

Definition fs_apply (s : fs) (e : fsev) : fs :=
  match e with
  | FTrunc p => fs_set p [] s
  | FWrite p d => fs_set p (match fs_get p s with Some c => c ++ d | None => d end) s
  | FRename p q => match fs_get p s with Some c => fs_set q c (fs_del p s) | None => s end
  | FRemove p => fs_del p s
  end.

(* the states a crash can leave: before each event, inside each write (every non-empty proper prefix of the data
   has reached the file), and after the last event *)
Fixpoint fs_crashes (s : fs) (evs : list fsev) : list fs :=
  match evs with
  | [] => [s]
  | e :: r =>
      s :: (match e with FWrite p d => map (fun d' => fs_apply s (FWrite p d')) (tl (prefixes d)) | _ => [] end)
        ++ fs_crashes (fs_apply s e) r
  end.

Definition listing (in_dir : nat -> bool) (s : fs) : fs := filter (fun pc => in_dir (fst pc)) s.

(* write aside, then rename over the clock *)
Definition write_aside (tmp clock : nat) (data : list N) : list fsev := [FTrunc tmp; FWrite tmp data; FRename tmp clock].

Lemma listing_set_out in_dir p c s : in_dir p = false -> listing in_dir (fs_set p c s) = listing in_dir (fs_del p s).
Proof. intros H. unfold fs_set, listing. simpl. rewrite H. reflexivity. Qed.

Lemma listing_del_out in_dir p : forall s, in_dir p = false -> listing in_dir (fs_del p s) = listing in_dir s.
Proof.
  intros s H. induction s as [|[q c] r IH]; [reflexivity|]. simpl.
  destruct (Nat.eqb p q) eqn:E.
  - apply Nat.eqb_eq in E; subst q. simpl. rewrite H. exact IH.
  - simpl. destruct (in_dir q); [f_equal|]; exact IH.
Qed.

(* the temporary file outside the directory: in every crash state the directory holds exactly the clock, and the
   clock is the old or the new one *)
Theorem aside_outside_safe in_dir tmp clock o n s :
  in_dir tmp = false -> in_dir clock = true -> o <= n -> n < 2 ^ 64 ->
  In s (fs_crashes [(clock, print_u64 o)] (write_aside tmp clock (print_u64 n))) ->
  exists c v, listing in_dir s = [(clock, c)] /\ load c = Some v /\ o <= v.
Proof.
  intros Ht Hc Hon Hn Hin.
  assert (Hne : Nat.eqb tmp clock = false).
  { destruct (Nat.eqb tmp clock) eqn:E; [|reflexivity]. apply Nat.eqb_eq in E; subst. congruence. }
  assert (Hne' : Nat.eqb clock tmp = false) by (rewrite Nat.eqb_sym; exact Hne).
  assert (Hold : exists v, load (print_u64 o) = Some v /\ o <= v).
  { exists o. split; [unfold load; apply C04_decimal_roundtrip; lia|lia]. }
  assert (Hnew : exists v, load (print_u64 n) = Some v /\ o <= v).
  { exists n. split; [unfold load; apply C04_decimal_roundtrip; lia|lia]. }
  assert (L0 : listing in_dir [(clock, print_u64 o)] = [(clock, print_u64 o)]) by (simpl; rewrite Hc; reflexivity).
  unfold write_aside in Hin. cbn [fs_crashes] in Hin.
  (* state 0 *)
  destruct Hin as [<-|Hin].
  { destruct Hold as [v [E1 E2]]. exists (print_u64 o), v. rewrite L0. auto. }
  cbn [app] in Hin.
  (* after the truncation of tmp *)
  set (s1 := fs_apply [(clock, print_u64 o)] (FTrunc tmp)) in *.
  assert (L1 : forall c, listing in_dir (fs_set tmp c s1) = [(clock, print_u64 o)]).
  { intros c. rewrite listing_set_out by exact Ht. rewrite listing_del_out by exact Ht.
    unfold s1. cbn [fs_apply]. rewrite listing_set_out by exact Ht. rewrite listing_del_out by exact Ht. exact L0. }
  assert (L1' : listing in_dir s1 = [(clock, print_u64 o)]).
  { unfold s1. cbn [fs_apply]. rewrite listing_set_out by exact Ht. rewrite listing_del_out by exact Ht. exact L0. }
  destruct Hin as [<-|Hin].
  { destruct Hold as [v [E1 E2]]. exists (print_u64 o), v. rewrite L1'. auto. }
  apply in_app_or in Hin. destruct Hin as [Hin|Hin].
  { (* torn writes of tmp *)
    apply in_map_iff in Hin. destruct Hin as [d' [<- _]]. cbn [fs_apply].
    destruct Hold as [v [E1 E2]]. exists (print_u64 o), v. rewrite L1. auto. }
  cbn [fs_crashes] in Hin.
  destruct Hin as [<-|Hin].
  { cbn [fs_apply]. destruct Hold as [v [E1 E2]]. exists (print_u64 o), v. rewrite L1. auto. }
  cbn [app] in Hin. destruct Hin as [<-|[]].
  (* after the rename *)
  destruct Hnew as [v [E1 E2]]. exists (print_u64 n), v. split; [|auto].
  unfold s1. repeat (cbn [fs_apply fs_set fs_del fs_get app]; rewrite ?Nat.eqb_refl, ?Hne, ?Hne').
  unfold listing. simpl. rewrite Hc, ?Nat.eqb_refl. reflexivity.
Qed.

(* the temporary file inside the directory: a crash leaves a second entry that is not a clock *)
Theorem aside_inside_unsafe : exists in_dir tmp clock s,
  in_dir tmp = true /\ in_dir clock = true /\
  In s (fs_crashes [(clock, print_u64 13)] (write_aside tmp clock (print_u64 14))) /\
  In (tmp, []) (listing in_dir s) /\ load [] = None.
Proof.
  exists (fun _ => true), 1%nat, 0%nat, [(1%nat, []); (0%nat, print_u64 13)].
  split; [reflexivity|]. split; [reflexivity|]. split; [vm_compute; auto|]. split; [simpl; auto|reflexivity].
Qed.
