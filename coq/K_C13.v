(* C13, pure part — correspondence (Ids.combine_ids / separate_go = entity.CombineIds / SeparateIds) and the property
   evaluated on what the implementation returned. Symbols are code points. *)
From Coq Require Import List Arith NArith Bool Lia.
Import ListNotations.
From GB Require Export Ids.

Notation nid := (list N).
Definition pfxb : nid -> nid -> bool := prefixb N N.eqb.
Definition ideqb : nid -> nid -> bool := id_eqb N N.eqb.
Definition pair_eqb (a b : nid * nid) : bool := ideqb (fst a) (fst b) && ideqb (snd a) (snd b).

Fixpoint index_filter {A} (f : A -> bool) (i : nat) (l : list A) : list nat :=
  match l with [] => [] | x :: t => if f x then index_filter f (S i) t else i :: index_filter f (S i) t end.

Record case := mkpcase {
  p_prim : nid; p_sec : nid;
  p_comb : nid;                        (* entity.CombineIds(prim, sec) *)
  p_seps : list (nid * nid);           (* entity.SeparateIds(comb[:k]) for k = 0, 1, ..., 64 *)
  p_raws : list (nid * (nid * nid))    (* other strings x (mutated prefixes, over-long, foreign) with entity.SeparateIds(x) *)
}.

(* model vs implementation *)
Fixpoint seps_agree (comb : nid) (k : nat) (l : list (nid * nid)) : bool :=
  match l with [] => true | o :: t => pair_eqb (separate_go N (firstn k comb)) o && seps_agree comb (S k) t end.
Definition agrees (c : case) : bool :=
  ideqb (combine_ids N (p_prim c) (p_sec c)) (p_comb c) &&
  Nat.eqb (length (p_seps c)) 65 && seps_agree (p_comb c) 0 (p_seps c) &&
  forallb (fun r => pair_eqb (separate_go N (fst r)) (snd r)) (p_raws c).
Definition mismatches (cs : list case) : list nat := index_filter agrees 0 cs.

(* the property on the implementation's answers: the combined id has the length of an id; every prefix of it splits into a
   prefix of each part (and nothing is lost: the two parts have k symbols together); a string of at most 64 symbols is a prefix
   of the combined id exactly when its two parts are prefixes of the two ids *)
Fixpoint seps_ok (prim sec : nid) (k : nat) (l : list (nid * nid)) : bool :=
  match l with
  | [] => true
  | (pp, sp) :: t => pfxb pp prim && pfxb sp sec && Nat.eqb (length pp + length sp) k && seps_ok prim sec (S k) t
  end.
Definition raw_ok (c : case) (r : nid * (nid * nid)) : bool :=
  let '(x, (xp, xs)) := r in
  if Nat.leb (length x) 64 then Bool.eqb (pfxb x (p_comb c)) (pfxb xp (p_prim c) && pfxb xs (p_sec c)) else true.
Definition C13_ok (c : case) : bool :=
  Nat.eqb (length (p_comb c)) 64 && Nat.eqb (length (p_seps c)) 65 &&
  seps_ok (p_prim c) (p_sec c) 0 (p_seps c) && forallb (raw_ok c) (p_raws c).
Definition failing (cs : list case) : list nat := index_filter C13_ok 0 cs.

(* --replay: does CombineIds agree; the prefix lengths / raw strings on which SeparateIds differs; the raw strings on which
   the prefix equivalence fails; the model's combined id *)
Fixpoint seps_diff (comb : nid) (k : nat) (l : list (nid * nid)) : list nat :=
  match l with [] => [] | o :: t => if pair_eqb (separate_go N (firstn k comb)) o then seps_diff comb (S k) t else k :: seps_diff comb (S k) t end.
Definition explain (c : case) :=
  (ideqb (combine_ids N (p_prim c) (p_sec c)) (p_comb c), seps_diff (p_comb c) 0 (p_seps c),
   index_filter (fun r => pair_eqb (separate_go N (fst r)) (snd r)) 0 (p_raws c),
   index_filter (raw_ok c) 0 (p_raws c), combine_ids N (p_prim c) (p_sec c)).
