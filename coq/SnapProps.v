(* Facts about Snap.compile used by the C10 property file. *)
From Coq Require Import List Arith NArith Bool Lia.
Import ListNotations.
From GB Require Import Snap.
Local Open Scope N_scope.

(* the state maintained incrementally (operation by operation) equals a compilation from scratch *)
Lemma seed_app ops o : ops <> [] -> seed (ops ++ [o]) = seed ops.
Proof. destruct ops; [congruence|reflexivity]. Qed.

Lemma compile_snoc ops o : ops <> [] -> compile (ops ++ [o]) = apply (compile ops) o.
Proof. intros H. unfold compile. rewrite fold_left_app, seed_app by exact H. reflexivity. Qed.

Lemma compile_app_fold ops more : ops <> [] -> compile (ops ++ more) = fold_left apply more (compile ops).
Proof. intros H. unfold compile. rewrite fold_left_app. f_equal. f_equal. destruct ops; [congruence|reflexivity]. Qed.

(* an edit whose target is the id of no comment changes nothing but the operation log *)
Lemma edit_unknown_target s i au t msg files :
  existsb (fun c => id_eqb (c_id c) t) (s_comments s) = false ->
  let s' := apply s (OEditComment i au t msg files) in
  s_comments s' = s_comments s /\ s_timeline s' = s_timeline s /\ s_title s' = s_title s /\ s_status s' = s_status s /\
  s_labels s' = s_labels s /\ s_actors s' = s_actors s /\ s_parts s' = s_parts s /\ s_ops s' = s_ops s ++ [i].
Proof. intros H. cbn. rewrite H. cbn. repeat split. Qed.

Lemma find_app {A} (f : A -> bool) l1 l2 : find f (l1 ++ l2) = match find f l1 with Some x => Some x | None => find f l2 end.
Proof. induction l1 as [|x t IH]; cbn; [reflexivity|]. destruct (f x); [reflexivity|exact IH]. Qed.

(* metadata: a key already present keeps its value *)
Definition kv_lookup (k : N) (m : list (N * N)) : option N := option_map snd (find (fun q => N.eqb (fst q) k) m).

Lemma add_kv_keeps m p k v : kv_lookup k m = Some v ->
  kv_lookup k (if existsb (fun q => N.eqb (fst q) (fst p)) m then m else m ++ [p]) = Some v.
Proof. intros H. destruct (existsb _ m); [exact H|]. unfold kv_lookup in *. rewrite find_app.
  destruct (find (fun q => N.eqb (fst q) k) m); [exact H|discriminate]. Qed.

Lemma add_kvs_keeps kv : forall m k v, kv_lookup k m = Some v ->
  kv_lookup k (fold_left (fun m p => if existsb (fun q => N.eqb (fst q) (fst p)) m then m else m ++ [p]) kv m) = Some v.
Proof. induction kv as [|p t IH]; intros m k v H; cbn; [exact H|]. apply IH. now apply add_kv_keeps. Qed.

Definition extra_lookup (tgt : opid) (k : N) (ex : list (opid * list (N * N))) : option N :=
  match find (fun e => id_eqb (fst e) tgt) ex with Some e => kv_lookup k (snd e) | None => None end.

Lemma set_extra_first_keeps tgt kv : forall ex x k v, extra_lookup x k ex = Some v -> extra_lookup x k (set_extra_first tgt kv ex) = Some v.
Proof. induction ex as [|e t IH]; intros x k v H; cbn; [exact H|].
  unfold extra_lookup in *. cbn in H. destruct (id_eqb (fst e) tgt) eqn:Et; cbn.
  - destruct (id_eqb (fst e) x) eqn:Ex; [now apply add_kvs_keeps|exact H].
  - destruct (id_eqb (fst e) x) eqn:Ex; [exact H|]. now apply IH. Qed.

Lemma extra_lookup_app ex x k v e : extra_lookup x k ex = Some v -> extra_lookup x k (ex ++ [e]) = Some v.
Proof. unfold extra_lookup. rewrite find_app. destruct (find _ ex); [auto|discriminate]. Qed.

(* whatever operation comes later, a metadata value that an operation already carries never changes *)
Lemma apply_keeps_extra s o x k v : extra_lookup x k (s_extra s) = Some v -> extra_lookup x k (s_extra (apply s o)) = Some v.
Proof. intros H. destruct o; cbn;
  repeat match goal with |- context [match ?b with _ => _ end] => destruct b end; cbn;
  try (apply extra_lookup_app; try exact H; now apply set_extra_first_keeps). Qed.

Lemma fold_keeps_extra ops : forall s x k v, extra_lookup x k (s_extra s) = Some v -> extra_lookup x k (s_extra (fold_left apply ops s)) = Some v.
Proof. induction ops as [|o t IH]; intros s x k v H; cbn; [exact H|]. apply IH. now apply apply_keeps_extra. Qed.

(* ---- title and status: the last change wins, creation otherwise ---- *)
Definition title_step (t : N) (o : op) : N := match o with OSetTitle _ _ x => x | _ => t end.
Definition status_step (st : N) (o : op) : N := match o with OSetStatus _ _ x => x | _ => st end.
Definition not_recreate (i : opid) (o : op) : Prop := match o with OCreate j _ _ _ _ => id_eqb i j = false | _ => True end.

Lemma apply_title_status s i o : s_id s = Some i -> not_recreate i o ->
  s_id (apply s o) = Some i /\ s_title (apply s o) = title_step (s_title s) o /\ s_status (apply s o) = status_step (s_status s) o.
Proof. intros Hi Hn. destruct o; unfold apply; cbn [title_step status_step not_recreate] in *.
  - (* create with another id: ignored *) rewrite Hi, Hn. cbn. auto.
  - cbn. auto.
  - destruct (negb (existsb _ (s_comments s))); cbn; [auto|].
    destruct (timeline_target (s_timeline s) target) as [[?|?]|]; cbn; auto.
  - cbn. auto.
  - cbn. auto.
  - cbn. auto.
  - cbn. auto.
  - cbn. auto. Qed.

Lemma fold_title_status rest : forall s i, s_id s = Some i -> (forall o, In o rest -> not_recreate i o) ->
  s_title (fold_left apply rest s) = fold_left title_step rest (s_title s) /\
  s_status (fold_left apply rest s) = fold_left status_step rest (s_status s).
Proof. induction rest as [|o t IH]; intros s i Hi Hn; cbn [fold_left]; [auto|].
  destruct (apply_title_status s i o Hi (Hn o (or_introl eq_refl))) as (Hi' & Ht & Hs).
  destruct (IH (apply s o) i Hi' (fun x Hx => Hn x (or_intror Hx))) as [A B]. rewrite A, B, Ht, Hs. auto. Qed.

Theorem compile_title_status i au title msg files rest : (forall o, In o rest -> not_recreate i o) ->
  let s := compile (OCreate i au title msg files :: rest) in
  s_title s = fold_left title_step rest title /\ s_status s = fold_left status_step rest 1.
Proof. intros Hn. unfold compile. cbn [fold_left seed hd_error option_map op_id].
  set (s1 := apply _ (OCreate i au title msg files)).
  assert (H1 : s_id s1 = Some i /\ s_title s1 = title /\ s_status s1 = 1).
  { unfold s1. cbn. unfold id_eqb. rewrite N.eqb_refl. cbn. auto. }
  destruct H1 as (Hi & Ht & Hs). destruct (fold_title_status rest s1 i Hi Hn) as [A B].
  rewrite A, B, Ht, Hs. auto. Qed.
