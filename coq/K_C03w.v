(* C03 — world part: every read git-bug performs in a session is ordered as specified and deterministic. *)
From Coq Require Import List Arith NArith Lia Bool.
Import ListNotations.
From GB Require Export K_World K_C03.
Local Open Scope N_scope.

Definition case := K_World.case.
Definition mismatches := K_World.mismatches.
Definition explain := K_World.divergence.

Fixpoint scan (s : store) (evs : list (event * obsv)) (allreads : list rrec) : bool :=
  match evs with
  | [] => true
  | (ERead r e, o) :: t =>
      match alookup e (o_loc o), o_out o with
      | Some h, ORead (Some ops) =>
          valid s h && causal s h ops && key_ordered s h ops &&
          (* the same history read anywhere, any time, gives the same order *)
          match head_find h allreads with Some y => opt_eqb ops_eqb (rr_ops y) (Some ops) | None => true end &&
          scan s t (mkrec r e h (Some ops) :: allreads)
      | Some h, ORead None => false
      | _, _ => scan s t allreads
      end
  | _ :: t => scan s t allreads
  end.

Definition C03w_ok (c : K_World.case) : bool := scan (c_store c) (c_evs c) [].
Definition failing (cs : list K_World.case) : list nat := index_filter C03w_ok 0 cs.
