(* C02 — a pull never loses operations nor breaks an entity: checker on the implementation's observations. *)
From Coq Require Import List Arith NArith Lia Bool.
Import ListNotations.
From GB Require Export K_World.
Local Open Scope N_scope.

Definition case := K_World.case.
Definition mismatches := K_World.mismatches.
Definition explain := K_World.divergence.

(* the events of one MergeAll: consecutive merge events of one replica, the last one observed *)
Fixpoint split_group (evs : list (event * obsv)) : list (event * obsv) * list (event * obsv) :=
  match evs with
  | ((EMerge _ _ _ _, o) as x) :: t =>
      if o_chk o then ([x], t) else let '(g, rest) := split_group t in (x :: g, rest)
  | _ => ([], evs)
  end.

(* the reads that follow (one per local entity of the replica) *)
Fixpoint following_reads (r : nat) (evs : list (event * obsv)) : list (nat * option (list N)) :=
  match evs with
  | (ERead r' e, o) :: t => if Nat.eqb r r' then
        match o_out o with ORead ops => (e, ops) :: following_reads r t | _ => following_reads r t end
      else []
  | _ => []
  end.

Definition lookup_read (e : nat) (l : list (nat * option (list N))) : option (option (list N)) :=
  option_map snd (find (fun p => Nat.eqb (fst p) e) l).

(* one merge result against: refs before, refs after the group, reads before (recs) and after *)
Definition merge_ok (s : store) (r : nat) (recs : list rrec) (allreads : list rrec)
           (pre post trk : amap) (after : list (nat * option (list N))) (x : event * obsv) : bool :=
  match x with
  | (EMerge _ e _ _, o) =>
      let before := option_map rr_ops (rec_find r e recs) in
      let aft := lookup_read e after in
      match o_out o with
      | OMerge st ent =>
          (* status agrees with what happened to the ref *)
          (match st, alookup e pre, alookup e post with
           | MNew, None, Some _ => true
           | MNothing, Some a, Some b => Nat.eqb a b
           | MUpdated, Some a, Some b => negb (Nat.eqb a b)
           | MInvalid, a, b => opt_eqb Nat.eqb a b
           | _, _, _ => false
           end) &&
          (* nothing lost, still readable *)
          (match before with
           | Some (Some ops0) => match aft with Some (Some ops1) => sublistb ops0 ops1 | _ => false end
           | _ => true end) &&
          (* everything of the (valid) remote version is there afterwards *)
          (match st with
           | MInvalid => true
           | _ => match alookup e trk with
                  | Some t => match head_find t allreads with
                              | Some y => match rr_ops y, aft with
                                          | Some rops, Some (Some ops1) => forallb (fun x => mem_N x ops1) rops
                                          | Some _, _ => false
                                          | None, _ => true end
                              | None => true end
                  | None => true end
           end) &&
          (* the entity handed back is the merged result *)
          (match st with
           | MNew | MUpdated => match ent, aft with Some a, Some (Some b) => ops_eqb a b | _, _ => false end
           | _ => true end)
      | _ => false     (* a merge error *)
      end
  | _ => true
  end.

Definition group_entities (g : list (event * obsv)) : list nat :=
  flat_map (fun x => match fst x with EMerge _ e _ _ => [e] | _ => [] end) g.

Fixpoint scan (fuel : nat) (s : store) (evs : list (event * obsv)) (recs allreads : list rrec) (locs : list (nat * amap)) : bool :=
  match fuel with 0%nat => true | S fuel =>
  match evs with
  | [] => true
  | (ERead r e, o) :: t =>
      match alookup e (o_loc o), o_out o with
      | Some h, ORead ops => let x := mkrec r e h ops in
          scan fuel s t (x :: rec_drop r e recs) (x :: allreads) ((r, o_loc o) :: locs)
      | _, _ => scan fuel s t recs allreads locs
      end
  | (ERemove r e, o) :: t => scan fuel s t (rec_drop r e recs) allreads ((r, o_loc o) :: locs)
  | (EMerge r _ _ _, _) :: _ =>
      let '(g, rest) := split_group evs in
      match rev g with
      | [] => true
      | (_, olast) :: _ =>
          let pre := match find (fun p => Nat.eqb (fst p) r) locs with Some p => snd p | None => [] end in
          let post := o_loc olast in
          let after := following_reads r rest in
          forallb (merge_ok s r recs allreads pre post (o_trk olast) after) g &&
          (* entities not named by any merge result keep their refs *)
          forallb (fun p => existsb (Nat.eqb (fst p)) (group_entities g) || opt_eqb Nat.eqb (alookup (fst p) post) (Some (snd p))) pre &&
          forallb (fun p => existsb (Nat.eqb (fst p)) (group_entities g) || opt_eqb Nat.eqb (alookup (fst p) pre) (Some (snd p))) post &&
          scan fuel s rest recs allreads ((r, post) :: locs)
      end
  | (ev, o) :: t => scan fuel s t recs allreads (if o_chk o then (ev_rep ev, o_loc o) :: locs else locs)
  end end.

Definition C02_ok (c : case) : bool := scan (S (length (c_evs c))) (c_store c) (c_evs c) [] [] [].

Definition failing (cs : list case) : list nat := index_filter C02_ok 0 cs.
