(* C18 — the excerpts of the cache (SubCache.excerpts: what Query, ResolveExcerpt and the bug lists show).
   entityUpdated computes the excerpt of the cached instance while it holds the sub-cache lock (one section,
   SNotify).  Theorem: in every reachable state of the repaired cache, for every bug, the excerpt is the one
   of the entity the cache hands out (staged operations included), or some thread still has to run the
   entityUpdated of its change, or a call about that bug failed inside entityUpdated / add (the entity was
   evicted under the caller).  Hence: once all threads are done, stale excerpts only belong to bugs with such
   a failed call.  Refuted for an entityUpdated that computes the excerpt before taking the lock.           *)
From Coq Require Import List Arith Lia Bool.
Import ListNotations.
From GB Require Import Conc CacheConc.

Definition iview (ins : inst) : list nat := concat (i_chain ins) ++ i_stage ins.
(* what the cache hands out for bug b: the loaded instance, or a fresh read of the stored history *)
Definition truth (g : nat -> option chain) (l : list inst) (c : nat -> option nat) (b : nat) : option (list nat) :=
  match c b with
  | Some i => match nth_error l i with Some ins => Some (iview ins) | None => None end
  | None => match g b with Some ch => Some (concat ch) | None => None end
  end.
Definition truth_s (s : shared) := truth (git s) (insts s) (cached s).
Definition fresh (s : shared) (b : nat) : Prop := excerpt s b = truth_s s b.

(* --- the shape of the code of a thread --- *)
Definition onotify (c : list sec) : bool := match c with SNotify _ :: _ => true | _ => false end.
(* user-level code: the sections of code_of, every change of an entity followed by its notification *)
Fixpoint ucode (c : list sec) : bool :=
  match c with
  | [] => true
  | SAppend :: r => onotify r && ucode r
  | SCreate :: r => (match r with SAdd :: SEvictBegin :: SNotify _ :: _ => true | _ => false end) && ucode r
  | SEvCheck _ :: _ | SEvLock _ :: _ | SEvictEnd :: _ | SLoad _ :: _ | SRead _ :: _ | SInstall _ :: _
  | SNotifyRd :: _ | SNotifySt :: _ => false
  | _ :: r => ucode r
  end.

Inductive tshape (s : shared) (t : nat) : list sec -> Prop :=
  | ts_user c : ucode c = true -> tshape s t c
  | ts_load b c : ucode c = true -> tshape s t (SLoad b :: c)
  | ts_ev l c : ucode c = true -> cown s = Some t -> tshape s t (map SEvCheck l ++ SEvictEnd :: c)
  | ts_evl b l c : ucode c = true -> cown s = Some t -> tshape s t (SEvLock b :: map SEvCheck l ++ SEvictEnd :: c).

Lemma ucode_tail x c : ucode (x :: c) = true -> ucode c = true.
Proof. destruct x; cbn; try discriminate; try tauto; intros H; apply andb_true_iff in H; tauto. Qed.

Lemma ucode_code_of c : ucode (code_of c) = true.
Proof. destruct c as [|b [|]|b|b|]; reflexivity. Qed.

Lemma onotify_app r b : onotify r = true -> onotify (r ++ b) = true.
Proof. destruct r as [|x r]; [discriminate|]. destruct x; try discriminate. reflexivity. Qed.

Lemma ucode_app a b : ucode a = true -> ucode b = true -> ucode (a ++ b) = true.
Proof. intros Ha Hb. induction a as [|x r IH]; [exact Hb|]. pose proof (ucode_tail _ _ Ha) as Hr. specialize (IH Hr).
  destruct x; cbn in *; try discriminate; try exact IH.
  - apply andb_true_iff in Ha as [Hn _]. now rewrite (onotify_app _ b Hn).
  - apply andb_true_iff in Ha as [Hn _]. rewrite IH, andb_true_r.
    destruct r as [|[] [|[] [|[] r]]]; try discriminate; reflexivity.
Qed.

Lemma ucode_prog (p : list call) : ucode (concat (map code_of p)) = true.
Proof. induction p as [|c p IH]; [reflexivity|]. cbn. apply ucode_app; [apply ucode_code_of|exact IH]. Qed.

(* --- who still has to notify, who failed to --- *)
Definition atend (c : list sec) : bool := match c with [] => true | SEnd :: _ => true | _ => false end.
Fixpoint after_checks (c : list sec) : list sec := match c with SEvCheck _ :: r => after_checks r | _ => c end.
Definition ev_tail (c : list sec) : bool := match after_checks c with SEvictEnd :: r => onotify r | _ => false end.
Definition owes_code (c : list sec) : bool :=
  match c with
  | SNotify _ :: _ => true
  | SEvictBegin :: r => onotify r
  | SAdd :: r => match r with SEvictBegin :: r' => onotify r' | _ => false end
  | SEvLock _ :: r => ev_tail r
  | SEvCheck _ :: r => ev_tail r
  | SEvictEnd :: r => onotify r
  | _ => false
  end.

Lemma after_checks_map l c : after_checks (map SEvCheck l ++ SEvictEnd :: c) = SEvictEnd :: c.
Proof. induction l as [|x l IH]; [reflexivity|exact IH]. Qed.
Lemma owes_ev l c : owes_code (map SEvCheck l ++ SEvictEnd :: c) = onotify c.
Proof. destruct l as [|x l]; [reflexivity|]. cbn. unfold ev_tail. now rewrite after_checks_map. Qed.
Lemma owes_evl b l c : owes_code (SEvLock b :: map SEvCheck l ++ SEvictEnd :: c) = onotify c.
Proof. cbn. unfold ev_tail. now rewrite after_checks_map. Qed.
Lemma owes_notify c : onotify c = true -> owes_code c = true.
Proof. destruct c as [|[] c]; try discriminate. reflexivity. Qed.

Definition regok (l : list inst) (th : thr) (b : nat) : Prop :=
  match reg th with None => True | Some i => exists ins, nth_error l i = Some ins /\ i_bug ins = b end.
Definition owes (l : list inst) (th : thr) (b : nat) : Prop :=
  owes_code (code th) = true /\ cbug th = b /\ regok l th b.
Definition pendres (th : thr) : callres := mkres (kind th) (cbug th) (curop th) (e1 th) (e2 th).
Definition failed (th : thr) (b : nat) : Prop :=
  (exists r, In r (results th) /\ r_bug r = b /\ missedb r = true) \/
  (atend (code th) = true /\ cbug th = b /\ missedb (pendres th) = true).

Definition iext (l l' : list inst) : Prop :=
  forall i ins, nth_error l i = Some ins -> exists ins', nth_error l' i = Some ins' /\ i_bug ins' = i_bug ins.
Lemma iext_refl l : iext l l.
Proof. intros i ins H. eauto. Qed.
Lemma ext_iext g l g' l' : ext g l g' l' -> iext l l'.
Proof. intros [_ H] i ins Hi. destruct (H i ins Hi) as (x & Hx & Bx & _). eauto. Qed.
Lemma owes_iext l l' th b : iext l l' -> owes l th b -> owes l' th b.
Proof. intros E (A & B & C). split; [exact A|]. split; [exact B|]. unfold regok in *. destruct (reg th) as [i|]; [|exact I].
  destruct C as (ins & Hi & Bi). destruct (E i ins Hi) as (x & Hx & Bx). exists x. split; [exact Hx|congruence]. Qed.

(* the bug entityUpdated is about, as exec computes it *)
Lemma owes_target l th b : owes l th b ->
  match reg th with Some i => match nth_error l i with Some ins => i_bug ins | None => cbug th end | None => cbug th end = b.
Proof. intros (_ & B & C). unfold regok in C. destruct (reg th) as [i|]; [|exact B]. destruct C as (ins & -> & Bi). exact Bi. Qed.

Lemma atend_skip c : atend (skip_to_end c) = true.
Proof. induction c as [|x c IH]; [reflexivity|]. destruct x; cbn; try exact IH. reflexivity. Qed.

(* --- truth under the changes of the shared state --- *)
Lemma truth_load g l c b0 ch b : c b0 = None -> g b0 = Some ch -> (forall b i, c b = Some i -> i < length l) ->
  truth g (l ++ [mkinst b0 ch [] false]) (fupd c b0 (Some (length l))) b = truth g l c b.
Proof. intros C G V. unfold truth. destruct (Nat.eq_dec b b0) as [->|N].
  - rewrite fupd_eq, C, G, nth_error_app2, Nat.sub_diag by lia. cbn. unfold iview. cbn. now rewrite app_nil_r.
  - rewrite fupd_neq by exact N. destruct (c b) as [i|] eqn:E; [|reflexivity]. now rewrite nth_error_app1 by (eapply V; eauto). Qed.

Lemma truth_upd_other g l c i x b : c b <> Some i -> truth g (upd l i x) c b = truth g l c b.
Proof. intros N. unfold truth. destruct (c b) as [j|]; [|reflexivity]. rewrite nth_upd_other; [reflexivity|congruence]. Qed.

Lemma truth_upd_same g l c i x y b : c b = Some i -> nth_error l i = Some y -> truth g (upd l i x) c b = Some (iview x).
Proof. intros C H. unfold truth. rewrite C. now rewrite (nth_upd_same _ _ _ _ H). Qed.

Lemma truth_git_other g l c b0 v b : b <> b0 \/ c b <> None -> truth (fupd g b0 v) l c b = truth g l c b.
Proof. intros H. unfold truth. destruct (c b) as [i|]; [reflexivity|]. destruct H as [H|H]; [|congruence]. now rewrite fupd_neq. Qed.

(* --- what one section does to the excerpts, seen from the thread that runs it --- *)
Record facts (s : shared) (th : thr) (s' : shared) (th' : thr) (oo : nat -> Prop) : Prop := {
  fa : forall b, fresh s b -> fresh s' b \/ owes (insts s') th' b \/ failed th' b \/ oo b;
  fb : forall b, owes (insts s) th b -> fresh s' b \/ owes (insts s') th' b \/ failed th' b;
  fc : forall b, failed th b -> failed th' b }.

Lemma failed_results th th' b : results th' = results th -> atend (code th) = false -> failed th b -> failed th' b.
Proof. intros R A [H|(H & _)]; [left; now rewrite R|congruence]. Qed.

Lemma facts_neutral s th s' th' oo :
  (forall b, excerpt s' b = excerpt s b) -> (forall b, truth_s s' b = truth_s s b) ->
  owes_code (code th) = false -> atend (code th) = false -> results th' = results th -> facts s th s' th' oo.
Proof. intros E T O A R. constructor.
  - intros b F. left. unfold fresh in *. now rewrite E, T.
  - intros b (H & _). congruence.
  - intros b. now apply failed_results. Qed.

Lemma facts_keep s th s' th' oo :
  (forall b, excerpt s' b = excerpt s b) -> (forall b, truth_s s' b = truth_s s b) -> iext (insts s) (insts s') ->
  cbug th' = cbug th -> reg th' = reg th -> (owes_code (code th) = true -> owes_code (code th') = true) ->
  atend (code th) = false -> results th' = results th -> facts s th s' th' oo.
Proof. intros E T X B R O A Rs. constructor.
  - intros b F. left. unfold fresh in *. now rewrite E, T.
  - intros b Hb. right. left. apply (owes_iext _ _ _ _ X) in Hb. destruct Hb as (H1 & H2 & H3).
    split; [exact (O H1)|]. split; [congruence|]. unfold regok in *. now rewrite R.
  - intros b. now apply failed_results. Qed.

(* the call ends with an error of entityUpdated / add: whoever owed an excerpt has now failed *)
Lemma facts_fail s th th' oo x rest : code th = x :: rest -> atend (x :: rest) = false ->
  code th' = skip_to_end rest -> cbug th' = cbug th -> results th' = results th -> missedb (pendres th') = true ->
  facts s th s th' oo.
Proof. intros C A C' B R M. constructor.
  - intros b F. now left.
  - intros b (_ & Hb & _). right. right. right. rewrite C', atend_skip. split; [reflexivity|]. split; [congruence|exact M].
  - intros b. apply failed_results; [exact R|now rewrite C]. Qed.

Lemma inv_cached_valid s : Inv s -> forall b i, cached s b = Some i -> i < length (insts s).
Proof. intros I b i H. destruct (iA _ _ _ _ _ I b i H) as (ins & Hn & _). eapply nth_lt; eauto. Qed.

Lemma inv_cached_bug s : Inv s -> forall b i ins, cached s b = Some i -> nth_error (insts s) i = Some ins ->
  i_bug ins = b /\ git s b = Some (i_chain ins).
Proof. intros I b i ins H Hn. destruct (iA _ _ _ _ _ I b i H) as (x & Hx & B & _ & G). rewrite Hn in Hx. injection Hx as <-. tauto. Qed.

Lemma truth_unc g l c b0 b : b <> b0 -> truth g l (fupd c b0 None) b = truth g l c b.
Proof. intros N. unfold truth. now rewrite fupd_neq. Qed.

(* inversion of the shapes *)
Definition plain (x : sec) : bool :=
  match x with SLoad _ | SEvCheck _ | SEvLock _ | SEvictEnd => false | _ => true end.
Lemma shape_user s t x rest : tshape s t (x :: rest) -> plain x = true -> ucode (x :: rest) = true.
Proof. intros H P. inversion H as [c U|b c U|l c U O E|b l c U O]; subst; try discriminate P; [exact U|].
  destruct l; cbn in E; injection E as <- _; discriminate P. Qed.
Lemma shape_check s t b rest : tshape s t (SEvCheck b :: rest) ->
  exists l c, rest = map SEvCheck l ++ SEvictEnd :: c /\ ucode c = true /\ cown s = Some t.
Proof. intros H. inversion H as [c U|b' c U|l c U O E|b' l c U O]; subst; [discriminate U|].
  destruct l as [|y l]; cbn in E; [discriminate E|]. injection E as _ <-. eauto. Qed.
Lemma shape_lock s t b rest : tshape s t (SEvLock b :: rest) ->
  exists l c, rest = map SEvCheck l ++ SEvictEnd :: c /\ ucode c = true /\ cown s = Some t.
Proof. intros H. inversion H as [c U|b' c U|l c U O E|b' l c U O]; subst; [discriminate U| |eauto].
  destruct l as [|y l]; cbn in E; discriminate E. Qed.
Lemma shape_end s t rest : tshape s t (SEvictEnd :: rest) -> ucode rest = true /\ cown s = Some t.
Proof. intros H. inversion H as [c U|b' c U|l c U O E|b' l c U O]; subst; [discriminate U|].
  destruct l as [|y l]; cbn in E; [|discriminate E]. injection E as <-. tauto. Qed.

Lemma skip_evict_map l c : skip_to_evict_end (map SEvCheck l ++ SEvictEnd :: c) = SEvictEnd :: c.
Proof. induction l as [|x l IH]; [reflexivity|exact IH]. Qed.

Ltac inj H := injection H as <- <-.
Ltac neutral C := apply facts_neutral; [intros; reflexivity|intros; reflexivity|rewrite C; reflexivity|rewrite C; reflexivity|reflexivity].

Lemma exec_facts t s th s' th' (oo : nat -> Prop) :
  Inv s -> tshape s t (code th) ->
  (forall b r i ins, code th = SEvLock b :: r -> cached s b = Some i -> nth_error (insts s) i = Some ins ->
     i_stage ins = [] \/ owes (insts s) th b \/ oo b) ->
  exec true t s th = Some (s', th') -> facts s th s' th' oo.
Proof. intros I Sh Hev H. unfold exec in H. change (negb true) with false in H.
  destruct (code th) as [|x rest] eqn:C; [discriminate|]. destruct x; cbv beta iota in H.
  - (* SBegin *) inj H. neutral C.
  - (* SLookup *) destruct (is_none (cown s)); [|discriminate]. destruct (cached s b); inj H; neutral C.
  - (* SMiss *) destruct (reg th); inj H; neutral C.
  - (* SLoad *) destruct (is_none (cown s)); [|discriminate]. destruct (cached s b) eqn:Cb; [inj H; neutral C|].
    destruct (git s b) eqn:Gb; inj H; [|neutral C].
    apply facts_neutral; [intros; reflexivity| |rewrite C; reflexivity|rewrite C; reflexivity|reflexivity].
    intros b0. unfold truth_s. cbn [git insts cached]. apply truth_load; [exact Cb|exact Gb|exact (inv_cached_valid s I)].
  - (* SRead *) inj H. neutral C.
  - (* SInstall *) inj H. neutral C.
  - (* SEvictBegin *) destruct (is_none (cown s)); [|discriminate].
    destruct (Nat.leb (length (lru s)) (maxl s)); inj H;
      (apply facts_keep; [intros; reflexivity|intros; reflexivity|apply iext_refl|reflexivity|reflexivity| |rewrite C; reflexivity|reflexivity]);
      rewrite C; cbn [code set_code]; intros O; [now apply owes_notify|now rewrite owes_ev].
  - (* SEvCheck *) rewrite <- C in Sh. rewrite C in Sh. destruct (shape_check _ _ _ _ Sh) as (l & c & -> & U & O).
    assert (K : forall th', cbug th' = cbug th -> reg th' = reg th -> results th' = results th ->
              (code th' = SEvLock b :: map SEvCheck l ++ SEvictEnd :: c \/ code th' = map SEvCheck l ++ SEvictEnd :: c) ->
              facts s th s th' oo).
    { intros u B R Rs Cu. apply facts_keep; [intros; reflexivity|intros; reflexivity|apply iext_refl|exact B|exact R| |rewrite C; reflexivity|exact Rs].
      rewrite C. change (SEvCheck b :: map SEvCheck l ++ SEvictEnd :: c) with (map SEvCheck (b :: l) ++ SEvictEnd :: c).
      rewrite owes_ev. destruct Cu as [->| ->]; [now rewrite owes_evl|now rewrite owes_ev]. }
    destruct (cached s b); [destruct (nth_error (insts s) n); [destruct (is_nil (i_stage i))|]|]; inj H; apply K; cbn; auto.
  - (* SEvLock *) destruct (shape_lock _ _ _ _ Sh) as (l & c & -> & U & O).
    assert (K : forall th', cbug th' = cbug th -> reg th' = reg th -> results th' = results th ->
              code th' = map SEvCheck l ++ SEvictEnd :: c -> facts s th s th' oo).
    { intros u B R Rs Cu. apply facts_keep; [intros; reflexivity|intros; reflexivity|apply iext_refl|exact B|exact R| |rewrite C; reflexivity|exact Rs].
      rewrite C, Cu. now rewrite owes_evl, owes_ev. }
    destruct (cached s b) as [i|] eqn:Cb; [|inj H; apply K; reflexivity].
    destruct (nth_error (insts s) i) as [ins|] eqn:Ni; [|inj H; apply K; reflexivity].
    destruct (inv_cached_bug s I b i ins Cb Ni) as [Bi Gi].
    set (dead := mkinst (i_bug ins) (i_chain ins) (i_stage ins) true) in H.
    assert (X : iext (insts s) (upd (insts s) i dead)).
    { intros j y Hj. destruct (Nat.eq_dec j i) as [->|N].
      - rewrite Ni in Hj. injection Hj as <-. exists dead. split; [eapply nth_upd_same; eauto|reflexivity].
      - exists y. now rewrite nth_upd_other. }
    assert (Oc : owes_code (code th) = true -> owes_code (code th') = true).
    { rewrite C, owes_evl. intros Hc. inj H. cbn [code set_code].
      destruct (Nat.leb _ _); [rewrite skip_evict_map; exact Hc|now rewrite owes_ev]. }
    assert (Ow : forall b', owes (insts s) th b' -> owes (insts s') th' b').
    { intros b' Hb. pose proof Hb as (H1 & H2 & H3). split; [exact (Oc H1)|]. inj H. cbn [cbug reg set_code insts]. split; [exact H2|].
      apply (owes_iext _ _ _ _ X) in Hb. exact (proj2 (proj2 Hb)). }
    constructor.
    + intros b' F. destruct (Nat.eq_dec b' b) as [->|N].
      * destruct (Hev b _ i ins eq_refl Cb Ni) as [St|[Hb|Hb]]; [left|right; left; now apply Ow|right; right; right; exact Hb].
        inj H. unfold fresh, truth_s in *. cbn [excerpt git insts cached]. rewrite F. unfold truth. rewrite Cb, Ni, fupd_eq, Gi.
        unfold iview. now rewrite St, app_nil_r.
      * left. inj H. unfold fresh, truth_s in *. cbn [excerpt git insts cached]. rewrite F, truth_unc by exact N.
        symmetry. apply truth_upd_other. intros Hc. destruct (inv_cached_bug s I b' i ins Hc Ni) as [Bi' _]. congruence.
    + intros b' Hb. right. left. now apply Ow.
    + intros b'. apply failed_results; [inj H; reflexivity|now rewrite C].
  - (* SEvictEnd *) inj H. apply facts_keep; [intros; reflexivity|intros; reflexivity|apply iext_refl|reflexivity|reflexivity| |rewrite C; reflexivity|reflexivity].
    rewrite C. cbn [code set_code owes_code]. apply owes_notify.
  - (* SAppend *) destruct (is_edit (kind th)); cbn [negb] in H; [|inj H; neutral C].
    destruct (reg th) as [i|] eqn:R; [|inj H; neutral C].
    destruct (nth_error (insts s) i) as [ins|] eqn:Ni; [|inj H; neutral C].
    destruct (i_dead ins) eqn:Dd; [discriminate|]. inj H.
    pose proof (iB _ _ _ _ _ I i ins Ni Dd) as Cb.
    pose proof (shape_user _ _ _ _ Sh eq_refl) as U. cbn in U. apply andb_true_iff in U as [On _].
    constructor.
    + intros b F. destruct (Nat.eq_dec b (i_bug ins)) as [->|N].
      * right. left. split; [cbn; now apply owes_notify|]. split; [reflexivity|]. unfold regok. cbn [reg insts].
        eexists. split; [eapply nth_upd_same; eauto|reflexivity].
      * left. unfold fresh, truth_s in *. cbn [excerpt git insts cached]. rewrite F. symmetry. apply truth_upd_other.
        intros Hc. destruct (inv_cached_bug s I b i ins Hc Ni) as [Bi' _]. congruence.
    + intros b (Hc & _). rewrite C in Hc. discriminate Hc.
    + intros b. apply failed_results; [reflexivity|now rewrite C].
  - (* SNotify *) destruct (is_none (cown s)); [|discriminate].
    set (b0 := match reg th with Some i => match nth_error (insts s) i with Some ins => i_bug ins | None => cbug th end | None => cbug th end) in *.
    destruct (cached s b0) as [j|] eqn:Cb.
    + destruct (nth_error (insts s) j) as [ins|] eqn:Nj; [|destruct (iA _ _ _ _ _ I b0 j Cb) as (x & Hx & _); congruence].
      inj H.
      assert (F0 : forall b, b = b0 \/ fresh s b -> fresh (mksh (git s) (insts s) (cached s) (touch b0 (lru s)) (maxl s) (cown s)
                     (fupd (excerpt s) b0 (Some (concat (i_chain ins) ++ i_stage ins))) (nextop s) (nextbug s)) b).
      { intros b Hb. unfold fresh, truth_s. cbn [excerpt git insts cached]. destruct (Nat.eq_dec b b0) as [->|N].
        - rewrite fupd_eq. unfold truth. now rewrite Cb, Nj.
        - rewrite fupd_neq by exact N. destruct Hb as [Hb|Hb]; [contradiction|exact Hb]. }
      constructor.
      * intros b F. left. apply F0. now right.
      * intros b Hb. left. apply F0. left. symmetry. exact (owes_target _ _ _ Hb).
      * intros b. apply failed_results; [reflexivity|now rewrite C].
    + destruct slot; inj H; (eapply facts_fail; [exact C|reflexivity|reflexivity|reflexivity|reflexivity|]);
        unfold missedb, pendres; cbn; [now rewrite !orb_true_r|reflexivity].
  - (* SNotifyRd *) pose proof (shape_user _ _ _ _ Sh eq_refl) as U. discriminate U.
  - (* SNotifySt *) pose proof (shape_user _ _ _ _ Sh eq_refl) as U. discriminate U.
  - (* SCommit *) destruct (reg th) as [i|] eqn:R; [|inj H; neutral C].
    destruct (nth_error (insts s) i) as [ins|] eqn:Ni; [|inj H; neutral C].
    destruct (i_dead ins) eqn:Dd; [discriminate|]. destruct (is_nil (i_stage ins)); inj H; [neutral C|].
    pose proof (iB _ _ _ _ _ I i ins Ni Dd) as Cb.
    apply facts_neutral; [intros; reflexivity| |rewrite C; reflexivity|rewrite C; reflexivity|reflexivity].
    intros b. unfold truth_s. cbn [git insts cached]. destruct (Nat.eq_dec b (i_bug ins)) as [->|N].
    + rewrite truth_git_other by (right; congruence). rewrite (truth_upd_same _ _ _ _ _ ins) by assumption.
      unfold truth. rewrite Cb, Ni. unfold iview. cbn. now rewrite concat_snoc, app_nil_r.
    + rewrite truth_git_other by (left; exact N). apply truth_upd_other.
      intros Hc. destruct (inv_cached_bug s I b i ins Hc Ni) as [Bi' _]. congruence.
  - (* SCreate *) destruct (is_new (kind th)); cbn [negb] in H; [|inj H; neutral C].
    destruct (Nat.eqb (curop th) 0); cbn [negb] in H; [|inj H; neutral C]. inj H.
    pose proof (shape_user _ _ _ _ Sh eq_refl) as U. cbn in U. apply andb_true_iff in U as [On _].
    destruct (iF _ _ _ _ _ I (nextbug s) (le_n _)) as [_ Cn].
    constructor.
    + intros b F. destruct (Nat.eq_dec b (nextbug s)) as [->|N].
      * right. left. split; [|split; [reflexivity|exact Logic.I]]. cbn [code].
        destruct rest as [|[] [|[] [|[] r]]]; try discriminate On; reflexivity.
      * left. unfold fresh, truth_s in *. cbn [excerpt git insts cached]. rewrite F. symmetry. apply truth_git_other. now left.
    + intros b (Hc & _). rewrite C in Hc. discriminate Hc.
    + intros b. apply failed_results; [reflexivity|now rewrite C].
  - (* SAdd *)
    assert (Fl : facts s th s (fail1 th 4 rest) oo).
    { eapply facts_fail; [exact C|reflexivity|reflexivity|reflexivity|reflexivity|reflexivity]. }
    destruct (is_new (kind th)); cbn [negb] in H; [|inj H; exact Fl].
    destruct (is_none (cown s)); [|discriminate].
    destruct (cached s (cbug th)) eqn:Cb; [inj H; exact Fl|]. destruct (git s (cbug th)) as [ch|] eqn:Gb; inj H; [|exact Fl].
    assert (X : iext (insts s) (insts s ++ [mkinst (cbug th) ch [] false])).
    { intros j y Hj. exists y. rewrite nth_error_app1 by (eapply nth_lt; eauto). auto. }
    constructor.
    + intros b F. left. unfold fresh, truth_s in *. cbn [excerpt git insts cached]. rewrite F. symmetry.
      apply truth_load; [exact Cb|exact Gb|exact (inv_cached_valid s I)].
    + intros b (Hc & Hb & _). right. left. rewrite C in Hc. split; [|split; [exact Hb|]].
      * cbn [code]. destruct rest as [|[] r]; try discriminate Hc. exact Hc.
      * unfold regok. cbn [reg insts]. eexists. split; [rewrite nth_error_app2, Nat.sub_diag by lia; reflexivity|exact Hb].
    + intros b. apply failed_results; [reflexivity|now rewrite C].
  - (* SReadC *) destruct (is_none (cown s)); [|discriminate]. inj H. neutral C.
  - (* SEnd *) inj H. constructor.
    + intros b F. now left.
    + intros b (Hc & _). rewrite C in Hc. discriminate Hc.
    + intros b [(r & Hr & Hb)|(_ & Hb & M)]; left.
      * exists r. split; [cbn; apply in_app_iff; now left|exact Hb].
      * exists (pendres th). split; [cbn; apply in_app_iff; right; now left|]. split; [exact Hb|exact M].
Qed.

(* --- the shapes are kept; only the thread inside evictIfNeeded owns the sub-cache lock --- *)
Definition cown_rel (s s' : shared) (t : nat) : Prop :=
  cown s' = cown s \/ (cown s = None /\ cown s' = Some t) \/ (cown s = Some t /\ cown s' = None).

Lemma ucode_skip c : ucode c = true -> ucode (skip_to_end c) = true.
Proof. induction c as [|x c IH]; [reflexivity|]. intros U. pose proof (ucode_tail _ _ U) as Uc.
  destruct x; cbn [skip_to_end]; try exact (IH Uc). exact U. Qed.

Lemma shape_load s t b rest : tshape s t (SLoad b :: rest) -> ucode rest = true.
Proof. intros H. inversion H as [c U|b' c U|l c U O E|b' l c U O]; subst; [discriminate U|exact U|].
  destruct l; cbn in E; discriminate E. Qed.

Lemma is_none_true {A} (o : option A) : is_none o = true -> o = None.
Proof. destruct o; [discriminate|reflexivity]. Qed.

Ltac user_shape Sh U Ur := pose proof (shape_user _ _ _ _ Sh eq_refl) as U; pose proof (ucode_tail _ _ U) as Ur.
Ltac keep_user Ur := split; [apply ts_user; first [exact Ur|apply ucode_skip; exact Ur]|left; reflexivity].

Lemma exec_shape t s th s' th' : tshape s t (code th) -> exec true t s th = Some (s', th') ->
  tshape s' t (code th') /\ cown_rel s s' t.
Proof. intros Sh H. unfold exec in H. change (negb true) with false in H.
  destruct (code th) as [|x rest] eqn:C; [discriminate|]. destruct x; cbv beta iota in H.
  - user_shape Sh U Ur. inj H. keep_user Ur.
  - user_shape Sh U Ur. destruct (is_none (cown s)); [|discriminate]. destruct (cached s b); inj H; keep_user Ur.
  - user_shape Sh U Ur. destruct (reg th); inj H; [keep_user Ur|]. split; [apply ts_load; exact Ur|left; reflexivity].
  - pose proof (shape_load _ _ _ _ Sh) as Ur. destruct (is_none (cown s)); [|discriminate]. destruct (cached s b); [inj H; keep_user Ur|].
    destruct (git s b); inj H; [|keep_user Ur]. split; [apply ts_user; exact Ur|left; reflexivity].
  - user_shape Sh U Ur. discriminate U.
  - user_shape Sh U Ur. discriminate U.
  - user_shape Sh U Ur. destruct (is_none (cown s)) eqn:O; [|discriminate]. apply is_none_true in O.
    destruct (Nat.leb _ _); inj H; [keep_user Ur|]. split; [apply ts_ev; [exact Ur|reflexivity]|right; left; split; [exact O|reflexivity]].
  - destruct (shape_check _ _ _ _ Sh) as (l & c & -> & U & O).
    destruct (cached s b); [destruct (nth_error (insts s) n); [destruct (is_nil (i_stage i))|]|]; inj H;
      (split; [first [apply ts_evl; assumption|apply ts_ev; assumption]|left; reflexivity]).
  - destruct (shape_lock _ _ _ _ Sh) as (l & c & -> & U & O).
    destruct (cached s b); [destruct (nth_error (insts s) n)|]; inj H; try (split; [apply ts_ev; assumption|left; reflexivity]).
    split; [|left; reflexivity]. cbn [code set_code]. destruct (Nat.leb _ _); [rewrite skip_evict_map; apply (ts_ev _ _ [] c); assumption|apply ts_ev; assumption].
  - destruct (shape_end _ _ _ Sh) as [Ur O]. inj H. split; [apply ts_user; exact Ur|right; right; split; [exact O|reflexivity]].
  - user_shape Sh U Ur. destruct (is_edit (kind th)); cbn [negb] in H; [|inj H; keep_user Ur].
    destruct (reg th); [|inj H; keep_user Ur]. destruct (nth_error (insts s) n); [|inj H; keep_user Ur].
    destruct (i_dead i); [discriminate|]. inj H. keep_user Ur.
  - user_shape Sh U Ur. destruct (is_none (cown s)); [|discriminate].
    destruct (cached s _); [destruct (nth_error (insts s) n)|destruct slot]; inj H; keep_user Ur.
  - user_shape Sh U Ur. discriminate U.
  - user_shape Sh U Ur. discriminate U.
  - user_shape Sh U Ur. destruct (reg th); [|inj H; keep_user Ur]. destruct (nth_error (insts s) n); [|inj H; keep_user Ur].
    destruct (i_dead i); [discriminate|]. destruct (is_nil (i_stage i)); inj H; keep_user Ur.
  - user_shape Sh U Ur. destruct (is_new (kind th)); cbn [negb] in H; [|inj H; keep_user Ur].
    destruct (Nat.eqb (curop th) 0); cbn [negb] in H; inj H; keep_user Ur.
  - user_shape Sh U Ur. destruct (is_new (kind th)); cbn [negb] in H; [|inj H; keep_user Ur].
    destruct (is_none (cown s)); [|discriminate]. destruct (cached s (cbug th)); [inj H; keep_user Ur|].
    destruct (git s (cbug th)); inj H; keep_user Ur.
  - user_shape Sh U Ur. destruct (is_none (cown s)); [|discriminate]. inj H. keep_user Ur.
  - user_shape Sh U Ur. inj H. keep_user Ur.
Qed.

Lemma shape_other s s' t t' c : t' <> t -> cown_rel s s' t -> tshape s t' c -> tshape s' t' c.
Proof. intros N R H. assert (K : cown s = Some t' -> cown s' = Some t').
  { intros O. destruct R as [R|[[R _]|[R _]]]; congruence. }
  destruct H as [c U|b c U|l c U O|b l c U O]; [apply ts_user|apply ts_load|apply ts_ev|apply ts_evl]; auto. Qed.

(* --- evictIfNeeded locks an instance it found clean: what can happen in between --- *)
(* a thread arrives at SEvLock b only from the SEvCheck b that saw nothing staged *)
Lemma exec_evlock_head t s th s' th' b r : tshape s t (code th) -> exec true t s th = Some (s', th') ->
  code th' = SEvLock b :: r ->
  s' = s /\ exists i ins, cached s b = Some i /\ nth_error (insts s) i = Some ins /\ i_stage ins = [].
Proof. intros Sh H Hc. destruct (exec_shape _ _ _ _ _ Sh H) as [Sh' _]. unfold exec in H. change (negb true) with false in H.
  destruct (code th) as [|x rest] eqn:C; [discriminate|].
  assert (NU : forall c, ucode c = true -> c = SEvLock b :: r -> False) by (intros c U ->; discriminate U).
  assert (NS : forall c, ucode c = true -> skip_to_end c = SEvLock b :: r -> False) by (intros c U E; apply ucode_skip in U; rewrite E in U; discriminate U).
  destruct x; cbv beta iota in H;
    try (pose proof (shape_user _ _ _ _ Sh eq_refl) as U; pose proof (ucode_tail _ _ U) as Ur; try discriminate U).
  - inj H. destruct (NU _ Ur Hc).
  - destruct (is_none (cown s)); [|discriminate]. destruct (cached s b0); inj H; destruct (NU _ Ur Hc).
  - destruct (reg th); inj H; [destruct (NU _ Ur Hc)|discriminate Hc].
  - pose proof (shape_load _ _ _ _ Sh) as Ur. destruct (is_none (cown s)); [|discriminate]. destruct (cached s b0); [inj H; destruct (NU _ Ur Hc)|].
    destruct (git s b0); inj H; [discriminate Hc|destruct (NS _ Ur Hc)].
  - destruct (is_none (cown s)); [|discriminate]. destruct (Nat.leb _ _); inj H; [destruct (NU _ Ur Hc)|].
    cbn in Hc. destruct (lru s); discriminate Hc.
  - destruct (shape_check _ _ _ _ Sh) as (l & c & -> & U & O).
    destruct (cached s b0) as [i|] eqn:Cb; [destruct (nth_error (insts s) i) as [ins|] eqn:Ni; [destruct (is_nil (i_stage ins)) eqn:St|]|]; inj H; cbn in Hc;
      try (destruct l; discriminate Hc).
    injection Hc as -> _. split; [reflexivity|]. exists i, ins. auto using is_nil_true.
  - destruct (shape_lock _ _ _ _ Sh) as (l & c & -> & U & O).
    destruct (cached s b0); [destruct (nth_error (insts s) n)|]; inj H; cbn in Hc; try (destruct l; discriminate Hc).
    destruct (Nat.leb _ _); [rewrite skip_evict_map in Hc; discriminate Hc|destruct l; discriminate Hc].
  - destruct (shape_end _ _ _ Sh) as [Ur O]. inj H. destruct (NU _ Ur Hc).
  - destruct (is_edit (kind th)); cbn [negb] in H; [|inj H; destruct (NS _ Ur Hc)].
    destruct (reg th); [|inj H; destruct (NS _ Ur Hc)]. destruct (nth_error (insts s) n); [|inj H; destruct (NS _ Ur Hc)].
    destruct (i_dead i); [discriminate|]. inj H. destruct (NU _ Ur Hc).
  - destruct (is_none (cown s)); [|discriminate].
    destruct (cached s _); [destruct (nth_error (insts s) n); inj H; destruct (NU _ Ur Hc)|destruct slot; inj H; destruct (NS _ Ur Hc)].
  - destruct (reg th); [|inj H; destruct (NS _ Ur Hc)]. destruct (nth_error (insts s) n); [|inj H; destruct (NS _ Ur Hc)].
    destruct (i_dead i); [discriminate|]. destruct (is_nil (i_stage i)); inj H; [destruct (NS _ Ur Hc)|destruct (NU _ Ur Hc)].
  - destruct (is_new (kind th)); cbn [negb] in H; [|inj H; destruct (NS _ Ur Hc)].
    destruct (Nat.eqb (curop th) 0); cbn [negb] in H; inj H; [destruct (NU _ Ur Hc)|destruct (NS _ Ur Hc)].
  - destruct (is_new (kind th)); cbn [negb] in H; [|inj H; destruct (NS _ Ur Hc)].
    destruct (is_none (cown s)); [|discriminate]. destruct (cached s (cbug th)); [inj H; destruct (NS _ Ur Hc)|].
    destruct (git s (cbug th)); inj H; [destruct (NU _ Ur Hc)|destruct (NS _ Ur Hc)].
  - destruct (is_none (cown s)); [|discriminate]. inj H. destruct (NU _ Ur Hc).
  - inj H. destruct (NU _ Ur Hc).
Qed.

(* while thread t is inside evictIfNeeded, another thread cannot change which instances are cached ... *)
Lemma exec_cached_owned t u s th s' th' : cown s = Some t -> u <> t -> tshape s u (code th) ->
  exec true u s th = Some (s', th') -> cached s' = cached s.
Proof. intros O N Sh H. unfold exec in H. change (negb true) with false in H. rewrite O in H. cbn [is_none] in H.
  destruct (code th) as [|x rest] eqn:C; [discriminate|]. destruct x; cbv beta iota in H; try discriminate H.
  - inj H. reflexivity.
  - destruct (reg th); inj H; reflexivity.
  - inj H. reflexivity.
  - inj H. reflexivity.
  - destruct (shape_check _ _ _ _ Sh) as (_ & _ & _ & _ & O'). congruence.
  - destruct (shape_lock _ _ _ _ Sh) as (_ & _ & _ & _ & O'). congruence.
  - destruct (shape_end _ _ _ Sh) as [_ O']. congruence.
  - destruct (is_edit (kind th)); cbn [negb] in H; [|inj H; reflexivity].
    destruct (reg th); [|inj H; reflexivity]. destruct (nth_error (insts s) n); [|inj H; reflexivity].
    destruct (i_dead i); [discriminate|]. inj H. reflexivity.
  - destruct (reg th); [|inj H; reflexivity]. destruct (nth_error (insts s) n); [|inj H; reflexivity].
    destruct (i_dead i); [discriminate|]. destruct (is_nil (i_stage i)); inj H; reflexivity.
  - destruct (is_new (kind th)); cbn [negb] in H; [|inj H; reflexivity].
    destruct (Nat.eqb (curop th) 0); cbn [negb] in H; inj H; reflexivity.
  - destruct (is_new (kind th)); cbn [negb] in H; [discriminate|inj H; reflexivity].
  - inj H. reflexivity.
Qed.

(* ... and a thread that owes an excerpt cannot deliver it (it can only fail: an SAdd outside of a new-bug call) *)
Lemma owner_ower_step t u s th s' th' b : cown s = Some t -> u <> t -> tshape s u (code th) ->
  owes (insts s) th b -> exec true u s th = Some (s', th') -> failed th' b.
Proof. intros O N Sh (Hc & Hb & _) H. unfold exec in H. change (negb true) with false in H. rewrite O in H. cbn [is_none] in H.
  destruct (code th) as [|x rest] eqn:C; [discriminate|]. destruct x; cbv beta iota in H; try discriminate H; try discriminate Hc.
  - destruct (shape_check _ _ _ _ Sh) as (_ & _ & _ & _ & O'). congruence.
  - destruct (shape_lock _ _ _ _ Sh) as (_ & _ & _ & _ & O'). congruence.
  - destruct (shape_end _ _ _ Sh) as [_ O']. congruence.
  - destruct (is_new (kind th)); cbn [negb] in H; [discriminate|]. inj H. right. cbn [code fail1 cbug]. rewrite atend_skip. auto.
Qed.

(* what one section does to the staged operations of the instances *)
Lemma exec_stage u s th s' th' : Inv s -> tshape s u (code th) -> exec true u s th = Some (s', th') ->
  forall i ins, nth_error (insts s) i = Some ins -> exists ins', nth_error (insts s') i = Some ins' /\ i_bug ins' = i_bug ins /\
    (i_stage ins' = i_stage ins \/ i_stage ins' = [] \/ owes (insts s') th' (i_bug ins)).
Proof. intros I Sh H i ins Hi.
  assert (Same : insts s' = insts s -> exists ins', nth_error (insts s') i = Some ins' /\ i_bug ins' = i_bug ins /\
    (i_stage ins' = i_stage ins \/ i_stage ins' = [] \/ owes (insts s') th' (i_bug ins))) by (intros ->; exists ins; auto).
  assert (App : forall x, insts s' = insts s ++ [x] -> exists ins', nth_error (insts s') i = Some ins' /\ i_bug ins' = i_bug ins /\
    (i_stage ins' = i_stage ins \/ i_stage ins' = [] \/ owes (insts s') th' (i_bug ins))).
  { intros x ->. exists ins. rewrite nth_error_app1 by (eapply nth_lt; eauto). auto. }
  unfold exec in H. change (negb true) with false in H.
  destruct (code th) as [|x rest] eqn:C; [discriminate|]. destruct x; cbv beta iota in H.
  - inj H. now apply Same.
  - destruct (is_none (cown s)); [|discriminate]. destruct (cached s b); inj H; now apply Same.
  - destruct (reg th); inj H; now apply Same.
  - destruct (is_none (cown s)); [|discriminate]. destruct (cached s b); [inj H; now apply Same|].
    destruct (git s b); inj H; [eapply App; reflexivity|now apply Same].
  - inj H. now apply Same.
  - inj H. now apply Same.
  - destruct (is_none (cown s)); [|discriminate]. destruct (Nat.leb _ _); inj H; now apply Same.
  - destruct (cached s b); [destruct (nth_error (insts s) n); [destruct (is_nil (i_stage i0))|]|]; inj H; now apply Same.
  - destruct (cached s b) as [j|]; [destruct (nth_error (insts s) j) as [y|] eqn:Nj|]; inj H; try (now apply Same). cbn [insts].
    destruct (Nat.eq_dec i j) as [->|N].
    + rewrite Nj in Hi. injection Hi as <-. eexists. split; [eapply nth_upd_same; eauto|]. cbn. auto.
    + exists ins. rewrite nth_upd_other by exact N. auto.
  - inj H. now apply Same.
  - destruct (is_edit (kind th)); cbn [negb] in H; [|inj H; now apply Same].
    destruct (reg th) as [j|] eqn:R; [|inj H; now apply Same]. destruct (nth_error (insts s) j) as [y|] eqn:Nj; [|inj H; now apply Same].
    destruct (i_dead y); [discriminate|]. inj H. cbn [insts].
    pose proof (shape_user _ _ _ _ Sh eq_refl) as U. cbn in U. apply andb_true_iff in U as [On _].
    destruct (Nat.eq_dec i j) as [->|N].
    + rewrite Nj in Hi. injection Hi as <-. eexists. split; [eapply nth_upd_same; eauto|]. cbn [i_bug i_stage]. split; [reflexivity|].
      right. right. split; [cbn; now apply owes_notify|]. split; [reflexivity|]. unfold regok. cbn [reg].
      eexists. split; [eapply nth_upd_same; eauto|reflexivity].
    + exists ins. rewrite nth_upd_other by exact N. auto.
  - destruct (is_none (cown s)); [|discriminate].
    destruct (cached s _); [destruct (nth_error (insts s) n)|destruct slot]; inj H; now apply Same.
  - destruct (is_none (cown s)); [|discriminate].
    destruct (cached s _); [destruct (nth_error (insts s) n)|]; inj H; now apply Same.
  - destruct (is_none (cown s)); [|discriminate]. destruct (rdbuf th); inj H; now apply Same.
  - destruct (reg th) as [j|]; [|inj H; now apply Same]. destruct (nth_error (insts s) j) as [y|] eqn:Nj; [|inj H; now apply Same].
    destruct (i_dead y); [discriminate|]. destruct (is_nil (i_stage y)); inj H; [now apply Same|]. cbn [insts].
    destruct (Nat.eq_dec i j) as [->|N].
    + rewrite Nj in Hi. injection Hi as <-. eexists. split; [eapply nth_upd_same; eauto|]. cbn. auto.
    + exists ins. rewrite nth_upd_other by exact N. auto.
  - destruct (is_new (kind th)); cbn [negb] in H; [|inj H; now apply Same].
    destruct (Nat.eqb (curop th) 0); cbn [negb] in H; inj H; now apply Same.
  - destruct (is_new (kind th)); cbn [negb] in H; [|inj H; now apply Same].
    destruct (is_none (cown s)); [|discriminate]. destruct (cached s (cbug th)); [inj H; now apply Same|].
    destruct (git s (cbug th)); inj H; [eapply App; reflexivity|now apply Same].
  - destruct (is_none (cown s)); [|discriminate]. inj H. now apply Same.
  - inj H. now apply Same.
Qed.

(* ------------------------------------------------------------------------------------------------ *)
(* The invariant of a configuration *)
Definition someone (s : shared) (ths : list thr) (b : nat) : Prop :=
  exists t th, nth_error ths t = Some th /\ (owes (insts s) th b \/ failed th b).
Definition evsafe (s : shared) (ths : list thr) : Prop :=
  forall t th b r i ins, nth_error ths t = Some th -> code th = SEvLock b :: r ->
    cached s b = Some i -> nth_error (insts s) i = Some ins -> i_stage ins = [] \/ someone s ths b.
Record XInv (c : cfg) : Prop := {
  xS : forall t th, nth_error (snd c) t = Some th -> tshape (fst c) t (code th);
  xE : evsafe (fst c) (snd c);
  xJ : forall b, fresh (fst c) b \/ someone (fst c) (snd c) b }.

Lemma nth_upd_eq {A} (l : list A) t x y : nth_error l t = Some y -> nth_error (upd l t x) t = Some x.
Proof. apply nth_upd_same. Qed.

Lemma step_xinv c u c' : Good c -> XInv c -> step true c u = Some c' -> XInv c'.
Proof. intros G X H. destruct (step_good _ _ _ G H) as [G' Ex]. destruct G as [I TT]. destruct G' as [I' _].
  unfold step in H. destruct (nth_error (snd c) u) as [thu|] eqn:Nu; [|discriminate].
  destruct (exec true u (fst c) thu) as [[s' thu']|] eqn:E; [|discriminate]. injection H as <-.
  destruct c as [s ths]. cbn [fst snd] in *. destruct X as [XS XE XJ]. cbn [fst snd] in *.
  pose proof (XS u thu Nu) as Shu. destruct (exec_shape _ _ _ _ _ Shu E) as [Shu' CR].
  pose proof (ext_iext _ _ _ _ Ex) as IX.
  assert (Hev : forall b r i ins, code thu = SEvLock b :: r -> cached s b = Some i -> nth_error (insts s) i = Some ins ->
                 i_stage ins = [] \/ owes (insts s) thu b \/ someone s ths b).
  { intros b r i ins Hc Cb Ni. destruct (XE u thu b r i ins Nu Hc Cb Ni); auto. }
  pose proof (exec_facts u s thu s' thu' (someone s ths) I Shu Hev E) as F.
  (* somebody who owed or failed still does, unless the excerpt is fresh now *)
  assert (Tr : forall b, someone s ths b -> fresh s' b \/ someone s' (upd ths u thu') b).
  { intros b (t & th & Nt & Hb). destruct (Nat.eq_dec t u) as [->|N].
    - rewrite Nu in Nt. injection Nt as <-. destruct Hb as [Hb|Hb].
      + destruct (fb _ _ _ _ _ F b Hb) as [K|K]; [now left|]. right. exists u, thu'. split; [eapply nth_upd_eq; eauto|exact K].
      + right. exists u, thu'. split; [eapply nth_upd_eq; eauto|]. right. exact (fc _ _ _ _ _ F b Hb).
    - right. exists t, th. split; [now rewrite nth_upd_other|]. destruct Hb as [Hb|Hb]; [left; eapply owes_iext; eauto|now right]. }
  constructor; cbn [fst snd].
  - intros t th Nt. destruct (Nat.eq_dec t u) as [->|N].
    + rewrite (nth_upd_eq _ _ _ _ Nu) in Nt. injection Nt as <-. exact Shu'.
    + rewrite nth_upd_other in Nt by exact N. eapply shape_other; eauto.
  - intros t th b r i ins Nt Ct Cb Ni. destruct (Nat.eq_dec t u) as [->|N].
    + rewrite (nth_upd_eq _ _ _ _ Nu) in Nt. injection Nt as <-.
      destruct (exec_evlock_head _ _ _ _ _ _ _ Shu E Ct) as (-> & i0 & ins0 & Cb0 & Ni0 & St).
      rewrite Cb0 in Cb. injection Cb as <-. rewrite Ni0 in Ni. injection Ni as <-. now left.
    + rewrite nth_upd_other in Nt by exact N. pose proof (XS t th Nt) as Sht. rewrite Ct in Sht.
      destruct (shape_lock _ _ _ _ Sht) as (_ & _ & _ & _ & O).
      assert (Nut : u <> t) by congruence.
      pose proof (exec_cached_owned t u s thu s' thu' O Nut Shu E) as Cs. rewrite Cs in Cb.
      destruct (iA _ _ _ _ _ I b i Cb) as (old & No & Bo & _ & _).
      destruct (exec_stage u s thu s' thu' I Shu E i old No) as (ins' & Ni' & Bi' & St). rewrite Ni in Ni'. injection Ni' as <-.
      assert (Tr' : someone s ths b -> someone s' (upd ths u thu') b).
      { intros (t2 & th2 & N2 & Hb). destruct (Nat.eq_dec t2 u) as [->|N2u].
        - rewrite Nu in N2. injection N2 as <-. exists u, thu'. split; [eapply nth_upd_eq; eauto|]. right. destruct Hb as [Hb|Hb].
          + exact (owner_ower_step t u s thu s' thu' b O Nut Shu Hb E).
          + exact (fc _ _ _ _ _ F b Hb).
        - exists t2, th2. split; [now rewrite nth_upd_other|]. destruct Hb as [Hb|Hb]; [left; eapply owes_iext; eauto|now right]. }
      destruct (XE t th b r i old Nt Ct Cb No) as [Se|So]; [|right; now apply Tr'].
      destruct St as [St|[St|St]]; [left; congruence|now left|]. right. exists u, thu'. split; [eapply nth_upd_eq; eauto|]. left. now rewrite <- Bo.
  - intros b. destruct (XJ b) as [Fb|Sb]; [|now apply Tr].
    destruct (fa _ _ _ _ _ F b Fb) as [K|[K|[K|K]]]; [now left| | |now apply Tr];
      right; exists u, thu'; (split; [eapply nth_upd_eq; eauto|]); [now left|now right].
Qed.

Lemma run_xinv sched : forall c, Good c -> XInv c -> XInv (run true sched c).
Proof. induction sched as [|t r IH]; intros c G X; [exact X|]. cbn. destruct (step true c t) as [c'|] eqn:E; [|exact (IH c G X)].
  destruct (step_good _ _ _ G E) as [G' _]. apply (IH c' G'). exact (step_xinv _ _ _ G X E). Qed.

(* the runs: a cache that was just opened (n stored bugs, excerpts read from the cache file), any programs *)
Lemma init_xinv n m (progs : list (list call)) : XInv (init_cold n m, map thread_of progs).
Proof. assert (U : forall t th, nth_error (map thread_of progs) t = Some th -> ucode (code th) = true).
  { intros t th H. apply nth_error_In, in_map_iff in H as (p & <- & _). apply ucode_prog. }
  constructor; cbn [fst snd].
  - intros t th H. apply ts_user. exact (U t th H).
  - intros t th b r i ins H C. apply U in H. rewrite C in H. discriminate H.
  - intros b. left. reflexivity. Qed.

(* For every schedule of any programs on the repaired cache, in every state that is reached, for every bug:
   the excerpt in the cache is the one of the entity the cache hands out, or a thread still has to run
   the entityUpdated of its change, or a call about this bug failed inside entityUpdated / add *)
Theorem excerpts_fresh n m progs sched b : let c := run true sched (init_cold n m, map thread_of progs) in
  fresh (fst c) b \/ someone (fst c) (snd c) b.
Proof. exact (xJ _ (run_xinv sched _ (init_good n m progs) (init_xinv n m progs)) b). Qed.

(* ... in particular once every thread is done *)
Theorem excerpts_fresh_when_done n m progs sched b : let c := run true sched (init_cold n m, map thread_of progs) in
  (forall th, In th (snd c) -> code th = []) ->
  excerpt (fst c) b = truth_s (fst c) b \/ exists th, In th (snd c) /\ failed th b.
Proof. intros c D. destruct (excerpts_fresh n m progs sched b) as [F|(t & th & Nt & [(Hc & _)|Hf])]; [now left| |].
  - apply nth_error_In in Nt. fold c in Nt. rewrite (D th Nt) in Hc. discriminate Hc.
  - right. exists th. split; [eapply nth_error_In; eauto|exact Hf]. Qed.

(* ------------------------------------------------------------------------------------------------ *)
(* Refuted for an entityUpdated that looks the entity up under the read lock, computes the excerpt with no lock
   held and only then takes the write lock to store it (sections SNotifyRd; SNotifySt): two edits of one bug,
   the slower thread stores the older excerpt last. Everybody is done, nobody failed, the excerpt is stale. *)
Definition code_edit_split (b : nat) : list sec :=
  [SBegin (KEdit false) b; SLookup b; SMiss b; SAppend; SNotifyRd; SNotifySt; SEnd].
Definition thread_of_code (c : list sec) : thr := mkthr c None None KRead 0 0 0 7 [].
Definition olist_eqb (a b : option (list nat)) : bool :=
  match a, b with
  | Some x, Some y => if list_eq_dec Nat.eq_dec x y then true else false
  | None, None => true
  | _, _ => false
  end.
Definition staleb (s : shared) (b : nat) : bool := negb (olist_eqb (excerpt s b) (truth_s s b)).
Definition quietb (c : cfg) : bool :=
  forallb (fun th => is_nil (code th) && forallb (fun r => negb (missedb r)) (results th) && negb (missedb (pendres th))) (snd c).

Lemma split_notify_stale : exists sched,
  let c := run true sched (init_cold 1 1000, [thread_of_code (code_edit_split 1); thread_of_code (code_edit_split 1)]) in
  quietb c && staleb (fst c) 1 = true.
Proof. exists (repeat 0 7 ++ repeat 1 7 ++ repeat 0 2). vm_compute. reflexivity. Qed.

(* the same programs with the entityUpdated of the code, same schedule (and any other, by the theorem) *)
Example same_schedule_atomic_notify :
  let c := run true (repeat 0 7 ++ repeat 1 7 ++ repeat 0 2) (init_cold 1 1000, map thread_of [[Edit 1 false]; [Edit 1 false]]) in
  quietb c && negb (staleb (fst c) 1) = true.
Proof. vm_compute. reflexivity. Qed.
