(* C03 — operation order is deterministic, causal and clock-consistent. Property theorems only. *)
From Coq Require Import List Arith NArith Lia Bool Sorting.Permutation.
Import ListNotations.
From GB Require Import Reach Sort Read ReadMore.
Local Open Scope N_scope.

(* an ancestor's operations come before its descendants' *)
Theorem C03_causal s h ops a b ca cb : wf_store s -> read s h = Some ops -> reach s h b -> anc s b a ->
  nth_error s a = Some ca -> nth_error s b = Some cb ->
  exists l, ops = concat (map p_ops l) /\ before (c_pack ca) (c_pack cb) l.
Proof. exact (Read.C03_causal s h ops a b ca cb). Qed.
Print Assumptions C03_causal.

(* concurrent commits are ordered by (edit time, pack id) *)
Theorem C03_order s h ops : read s h = Some ops ->
  exists l, ops = concat (map p_ops l) /\ sorted l /\ Permutation l (packs_of s (reachl s h)).
Proof. exact (read_order s h ops). Qed.
Print Assumptions C03_order.

(* the order is independent of the enumeration order of the packs (Go map iteration, ref listing, backend) *)
Theorem C03_deterministic l1 l2 : Permutation l1 l2 -> key_inj l1 -> isort l1 = isort l2.
Proof. exact (isort_perm_indep l1 l2). Qed.
Print Assumptions C03_deterministic.

Theorem C03_refuses_clock_not_increasing s h i c q cq : wf_store s -> reach s h i -> nth_error s i = Some c ->
  In q (c_parents c) -> nth_error s q = Some cq -> p_edit (c_pack c) <= p_edit (c_pack cq) -> read s h = None.
Proof. intros W R Hc. exact (refuse_clock_not_increasing s h i c W R Hc q cq). Qed.
Print Assumptions C03_refuses_clock_not_increasing.

Theorem C03_refuses_jump s h i c q cq : wf_store s -> reach s h i -> nth_error s i = Some c ->
  c_parents c = [q] -> nth_error s q = Some cq -> jump_limit < p_edit (c_pack c) - p_edit (c_pack cq) -> read s h = None.
Proof. intros W R Hc. exact (refuse_jump s h i c W R Hc q cq). Qed.
Print Assumptions C03_refuses_jump.

Theorem C03_refuses_merge_with_ops s h i c : wf_store s -> reach s h i -> nth_error s i = Some c ->
  (1 < length (c_parents c))%nat -> p_ops (c_pack c) <> [] -> read s h = None.
Proof. exact (refuse_merge_with_ops s h i c). Qed.
Print Assumptions C03_refuses_merge_with_ops.

Theorem C03_refuses_root_without_create s h i c : wf_store s -> reach s h i -> nth_error s i = Some c ->
  c_parents c = [] -> p_create (c_pack c) = 0 -> read s h = None.
Proof. exact (refuse_root_without_create s h i c). Qed.
Print Assumptions C03_refuses_root_without_create.

Theorem C03_refuses_two_roots s h a b : wf_store s -> reach s h a -> reach s h b -> a <> b ->
  parents s a = [] -> parents s b = [] -> read s h = None.
Proof. exact (refuse_two_roots s h a b). Qed.
Print Assumptions C03_refuses_two_roots.

(* non-vacuity: a diamond whose two branches have equal edit times is accepted and ordered by pack id *)
Example C03_diamond :
  let s := [ {| c_parents := []; c_pack := {| p_id := 9; p_author := 1; p_ops := [1]; p_edit := 2; p_create := 2 |} |};
             {| c_parents := [0%nat]; c_pack := {| p_id := 7; p_author := 1; p_ops := [2]; p_edit := 3; p_create := 0 |} |};
             {| c_parents := [0%nat]; c_pack := {| p_id := 4; p_author := 2; p_ops := [3]; p_edit := 3; p_create := 0 |} |};
             {| c_parents := [1%nat; 2%nat]; c_pack := {| p_id := 5; p_author := 1; p_ops := []; p_edit := 4; p_create := 0 |} |} ] in
  read s 3 = Some [1; 3; 2].
Proof. vm_compute. reflexivity. Qed.
