(* Facts about the text cleanup functions of Import.v (util/text): what Cleanup / CleanupOneLine return always
   passes Safe / SafeOneLine, so an imported text can only be refused for being empty. *)
From Coq Require Import List Arith NArith Bool Lia.
Import ListNotations.
From GB Require Import Import.
Local Open Scope N_scope.

Lemma forallb_drop_while f g l : forallb g l = true -> forallb g (drop_while f l) = true.
Proof. induction l as [|x t IH]; cbn; intros H; [reflexivity|].
  apply andb_true_iff in H as [Hx Ht]. destruct (f x); [now apply IH|]. cbn. now rewrite Hx, Ht. Qed.

Lemma forallb_rev (g : N -> bool) l : forallb g (rev l) = forallb g l.
Proof. destruct (forallb g l) eqn:E.
  - apply forallb_forall. intros x Hx. apply in_rev in Hx. rewrite forallb_forall in E. now apply E.
  - destruct (forallb g (rev l)) eqn:E'; [|reflexivity]. exfalso.
    assert (forallb g l = true); [|congruence]. apply forallb_forall. intros x Hx.
    rewrite forallb_forall in E'. apply E'. now apply in_rev in Hx. Qed.

Lemma trim_space_forallb g l : forallb g l = true -> forallb g (trim_space l) = true.
Proof. intros H. unfold trim_space. rewrite forallb_rev. apply forallb_drop_while. rewrite forallb_rev.
  now apply forallb_drop_while. Qed.

Lemma filter_forallb (f : N -> bool) l : forallb f (filter f l) = true.
Proof. apply forallb_forall. intros x Hx. now apply filter_In in Hx. Qed.

Lemma cleanup_safe l : safe (cleanup l) = true.
Proof. unfold safe, cleanup. apply trim_space_forallb, filter_forallb. Qed.

Lemma cleanup1_safe1 l : safe1 (cleanup1 l) = true.
Proof. unfold safe1, cleanup1. apply trim_space_forallb, filter_forallb. Qed.

Lemma safe1_safe l : safe1 l = true -> safe l = true.
Proof. unfold safe1, safe. intros H. apply forallb_forall. intros x Hx. rewrite forallb_forall in H.
  specialize (H x Hx). unfold keep_one in H. unfold keep_multi. rewrite H. apply orb_true_r. Qed.

Lemma safe1_no_control l r : safe1 l = true -> In r l -> is_control r = false.
Proof. unfold safe1. intros H Hr. rewrite forallb_forall in H. specialize (H r Hr). unfold keep_one in H.
  now apply negb_true_iff in H. Qed.

(* a one-line text has no line break, tabulation or carriage return *)
Lemma cleanup1_one_line l r : In r (cleanup1 l) -> is_tnr r = false.
Proof. intros Hr. pose proof (safe1_no_control _ r (cleanup1_safe1 l) Hr) as Hc.
  unfold is_tnr. unfold is_control in Hc. apply orb_false_iff in Hc as [Hc _]. apply N.leb_gt in Hc.
  destruct (N.eqb_spec r 9); [lia|]. destruct (N.eqb_spec r 10); [lia|]. destruct (N.eqb_spec r 13); [lia|]. reflexivity. Qed.

(* a multi-line text keeps only '\t' '\n' '\r' among the control characters *)
Lemma cleanup_controls l r : In r (cleanup l) -> is_control r = true -> is_tnr r = true.
Proof. intros Hr Hc. pose proof (cleanup_safe l) as H. unfold safe in H. rewrite forallb_forall in H.
  specialize (H r Hr). unfold keep_multi in H. rewrite Hc in H. cbn in H. now rewrite orb_false_r in H. Qed.

(* the cleaned text is a subsequence of the original: nothing is invented *)
Lemma drop_while_incl f l x : In x (drop_while f l) -> In x l.
Proof. induction l as [|y t IH]; cbn; [tauto|]. destruct (f y); [intros H; right; now apply IH|cbn; tauto]. Qed.
Lemma trim_space_incl l x : In x (trim_space l) -> In x l.
Proof. unfold trim_space. intros H. apply in_rev in H. apply drop_while_incl in H. apply in_rev in H.
  now apply drop_while_incl in H. Qed.
Lemma cleanup1_incl l x : In x (cleanup1 l) -> In x l.
Proof. unfold cleanup1. intros H. apply trim_space_incl in H. now apply filter_In in H. Qed.
