(* Model of cache/subcache.go (SubCache[EntityT, ExcerptT, CacheT]), generic in the entity kind.

   G is "an entity as read from its git ref" (bugs: head commit + ordered operation ids; identities:
   the version list).  An in-memory entity (ment) is what was read plus the staged operations.  An
   excerpt and an index document are functions of the in-memory entity they were computed from, so
   the model stores that entity in their place (sx, si); what the functions are is irrelevant here
   (K_C11 instantiates them with the real excerpt fields and index tokens).

     sx    excerpts            sc.excerpts (and the cache file, rewritten on every change)
     si    index documents     the bleve index of the namespace
     sl    loaded entities     sc.cached
     slru  LRU order           sc.lru, oldest first (only entities added by Resolve / add are in it)

   gf : nat -> option G is the git data: what reading the local ref of entity e returns. *)
From Coq Require Import List Arith NArith Lia Bool Sorting.Sorted.
Import ListNotations.
From GB Require Import KMap.

Section Sub.
Variable G : Type.

Record ment := { m_base : G; m_staged : list N }.
Definition clean (b : G) : ment := {| m_base := b; m_staged := [] |}.
Definition is_dirty (m : ment) : bool := match m_staged m with [] => false | _ => true end.   (* NeedCommit *)

Record sub := { sx : kmap ment; si : kmap ment; sl : kmap ment; slru : list nat }.
Definition sub0 : sub := {| sx := []; si := []; sl := []; slru := [] |}.

(* ---- LRU (hashicorp/golang-lru): Add moves to / inserts at the newest end, Get moves an existing key ---- *)
Definition lru_drop (e : nat) (l : list nat) := filter (fun x => negb (Nat.eqb x e)) l.
Definition lru_add (e : nat) (l : list nat) := lru_drop e l ++ [e].
Definition lru_get (e : nat) (l : list nat) := if existsb (Nat.eqb e) l then lru_add e l else l.

(* evictIfNeeded: oldest first, entities with staged operations are skipped.
   keep = false is the code as found: the newest entry (the entity being handed out) is a candidate too. *)
Fixpoint evict_go (cap : nat) (cands : list nat) (ld : kmap ment) (lru : list nat) : kmap ment * list nat :=
  match cands with
  | [] => (ld, lru)
  | id :: t =>
      if Nat.leb (length lru) cap then (ld, lru) else
      match kget id ld with
      | Some m => if is_dirty m then evict_go cap t ld lru else evict_go cap t (kdel id ld) (lru_drop id lru)
      | None => evict_go cap t ld (lru_drop id lru)
      end
  end.
Definition evict (keep : bool) (cap : nat) (c : sub) : sub :=
  let cands := if keep then removelast (slru c) else slru c in
  let r := evict_go cap cands (sl c) (slru c) in
  {| sx := sx c; si := si c; sl := fst r; slru := snd r |}.

(* entityUpdated: excerpt and index document recomputed from the loaded entity (error if it is not loaded) *)
Definition updated (e : nat) (c : sub) : sub :=
  match kget e (sl c) with
  | None => c
  | Some m => {| sx := kins e m (sx c); si := kins e m (si c); sl := sl c; slru := lru_get e (slru c) |}
  end.

(* Resolve: g is what reading the ref gives now *)
Definition resolve (keep : bool) (cap : nat) (g : option G) (e : nat) (c : sub) : sub :=
  match kget e (sl c) with
  | Some _ => {| sx := sx c; si := si c; sl := sl c; slru := lru_get e (slru c) |}
  | None =>
      match g with
      | None => c
      | Some b => evict keep cap {| sx := sx c; si := si c; sl := kins e (clean b) (sl c); slru := lru_add e (slru c) |}
      end
  end.

(* an edit through the loaded entity: the operation is staged, then entityUpdated *)
Definition stage (e : nat) (op : N) (c : sub) : sub :=
  match kget e (sl c) with
  | None => c
  | Some m => updated e {| sx := sx c; si := si c; sl := kins e {| m_base := m_base m; m_staged := m_staged m ++ [op] |} (sl c); slru := slru c |}
  end.

(* Commit of a loaded entity succeeded: the in-memory entity now is what the new ref reads back as; entityUpdated *)
Definition committed (b : G) (e : nat) (c : sub) : sub :=
  updated e {| sx := sx c; si := si c; sl := kins e (clean b) (sl c); slru := slru c |}.

(* add (new entity created through the cache and already committed): cached, LRU, evictIfNeeded, entityUpdated *)
Definition added (keep : bool) (cap : nat) (b : G) (e : nat) (c : sub) : sub :=
  updated e (evict keep cap {| sx := sx c; si := si c; sl := kins e (clean b) (sl c); slru := lru_add e (slru c) |}).

(* finishIdentity: cached (not in the LRU), entityUpdated *)
Definition added_nolru (b : G) (e : nat) (c : sub) : sub :=
  updated e {| sx := sx c; si := si c; sl := kins e (clean b) (sl c); slru := slru c |}.

(* MergeAll, one result with status new / updated: excerpt and loaded entity replaced.
   ix = false is the code as found: the index document is not refreshed. *)
Definition merged (ix : bool) (b : G) (e : nat) (c : sub) : sub :=
  {| sx := kins e (clean b) (sx c); si := if ix then kins e (clean b) (si c) else si c;
     sl := kins e (clean b) (sl c); slru := slru c |}.

(* Remove, after the entity was resolved and its refs deleted *)
Definition removed (e : nat) (c : sub) : sub :=
  {| sx := kdel e (sx c); si := kdel e (si c); sl := kdel e (sl c); slru := lru_drop e (slru c) |}.

(* a new process that found usable cache files: excerpts and index as left on disk, nothing loaded *)
Definition reloaded (c : sub) : sub := {| sx := sx c; si := si c; sl := []; slru := [] |}.

(* Build: everything is read, excerpted, indexed and kept in memory (outside the LRU) *)
Definition rebuild (g : kmap G) : kmap ment := kmapv clean g.
Definition rebuilt (g : kmap G) : sub := {| sx := rebuild g; si := rebuild g; sl := rebuild g; slru := [] |}.

Definition quiescent (c : sub) : Prop := forall e m, kget e (sl c) = Some m -> m_staged m = [].
Definition quiescentb (c : sub) : bool := forallb (fun p => negb (is_dirty (snd p))) (sl c).

(* what Resolve serves for e: the loaded entity, else a fresh read *)
Definition served (gf : nat -> option G) (c : sub) (e : nat) : option ment :=
  match kget e (sl c) with Some m => Some m | None => option_map clean (gf e) end.

(* ---------------- the invariant ---------------- *)
Definition view (gf : nat -> option G) (c : sub) (e : nat) : option ment :=
  match gf e with
  | None => None
  | Some b => Some (match kget e (sl c) with Some m => m | None => clean b end)
  end.

Record inv (gf : nat -> option G) (c : sub) : Prop := {
  inv_sx : forall e, kget e (sx c) = view gf c e;
  inv_si : forall e, kget e (si c) = view gf c e;
  inv_sl : forall e m, kget e (sl c) = Some m -> gf e = Some (m_base m);
  inv_sxs : ksorted (sx c);
  inv_sis : ksorted (si c) }.

Lemma inv_sub0 gf : (forall e, gf e = None) -> inv gf sub0.
Proof. intros H. split; cbn; try apply ksorted_nil.
  - intros e. unfold view. now rewrite H.
  - intros e. unfold view. now rewrite H.
  - intros e m E. discriminate. Qed.

Lemma inv_ext gf gf' c : (forall e, gf' e = gf e) -> inv gf c -> inv gf' c.
Proof. intros H [A B C D E]. split; auto.
  - intros e. rewrite A. unfold view. now rewrite H.
  - intros e. rewrite B. unfold view. now rewrite H.
  - intros e m Hm. rewrite H. eauto. Qed.

Lemma inv_lru gf c l : inv gf c -> inv gf {| sx := sx c; si := si c; sl := sl c; slru := l |}.
Proof. intros [A B C D E]. split; auto. Qed.

(* eviction only drops clean loaded entities *)
Lemma evict_go_spec cap : forall cands ld lru e,
  kget e (fst (evict_go cap cands ld lru)) = kget e ld \/
  (kget e (fst (evict_go cap cands ld lru)) = None /\ exists m, kget e ld = Some m /\ m_staged m = [] /\ In e cands).
Proof. induction cands as [|id t IH]; intros ld lru e; cbn [evict_go]; [now left|].
  destruct (Nat.leb (length lru) cap); [now left|].
  destruct (kget id ld) as [m|] eqn:Em.
  - destruct (is_dirty m) eqn:Dm.
    + destruct (IH ld lru e) as [H|(H & m' & H1 & H2 & H3)]; [now left|right; split; auto; exists m'; repeat split; auto; now right].
    + destruct (IH (kdel id ld) (lru_drop id lru) e) as [H|(H & m' & H1 & H2 & H3)].
      * rewrite H, kget_kdel. destruct (Nat.eqb_spec e id) as [->|]; [|now left].
        right. split; [reflexivity|]. exists m. repeat split; auto; [|now left]. unfold is_dirty in Dm. destruct (m_staged m); [reflexivity|discriminate].
      * right. split; [exact H|]. rewrite kget_kdel in H1. destruct (Nat.eqb e id); [discriminate|]. exists m'. repeat split; auto. now right.
  - destruct (IH ld (lru_drop id lru) e) as [H|(H & m' & H1 & H2 & H3)]; [now left|right; split; auto; exists m'; repeat split; auto; now right]. Qed.

Lemma inv_evict gf keep cap c : inv gf c -> inv gf (evict keep cap c).
Proof. intros [A B C D E]. unfold evict.
  set (cands := if keep then removelast (slru c) else slru c).
  assert (V : forall e, view gf {| sx := sx c; si := si c; sl := fst (evict_go cap cands (sl c) (slru c)); slru := snd (evict_go cap cands (sl c) (slru c)) |} e = view gf c e).
  { intros e. unfold view. cbn [sl]. destruct (gf e) as [b|] eqn:Ge; [|reflexivity].
    destruct (evict_go_spec cap cands (sl c) (slru c) e) as [H|(H & m & H1 & H2 & _)]; [now rewrite H|].
    rewrite H, H1. f_equal. specialize (C e m H1). rewrite Ge in C. inversion C; subst. destruct m as [mb ms]; cbn in *. now subst. }
  split; cbn [sx si sl]; auto.
  - intros e. rewrite V. apply A.
  - intros e. rewrite V. apply B.
  - intros e m Hm. destruct (evict_go_spec cap cands (sl c) (slru c) e) as [H|(H & _)]; [rewrite H in Hm; eauto|congruence]. Qed.

Lemma evict_go_keeps cap : forall cands ld lru e, ~ In e cands -> kget e (fst (evict_go cap cands ld lru)) = kget e ld.
Proof. intros cands ld lru e H. destruct (evict_go_spec cap cands ld lru e) as [E|(_ & m & _ & _ & Hin)]; [exact E|contradiction]. Qed.

Lemma lru_drop_notin e l : ~ In e (lru_drop e l).
Proof. unfold lru_drop. intros H. apply filter_In in H as [_ H]. rewrite Nat.eqb_refl in H. discriminate. Qed.

(* with keep = true the entry that was just added survives eviction *)
Lemma evict_keeps_newest cap e c l : slru c = lru_add e l -> kget e (sl (evict true cap c)) = kget e (sl c).
Proof. intros H. unfold evict. cbn [sl fst]. apply evict_go_keeps. rewrite H. unfold lru_add. rewrite removelast_last. apply lru_drop_notin. Qed.

Lemma view_other gf c c' e : kget e (sl c') = kget e (sl c) -> view gf c' e = view gf c e.
Proof. intros H. unfold view. now rewrite H. Qed.

Lemma inv_updated gf e c : inv gf c -> inv gf (updated e c).
Proof. intros I. unfold updated. destruct (kget e (sl c)) as [m|] eqn:Em; [|exact I]. destruct I as [A B C D E].
  split; cbn [sx si sl]; auto using ksorted_kins.
  - intros e'. rewrite kget_kins. destruct (Nat.eqb_spec e' e) as [->|]; [|apply A]. unfold view. cbn [sl]. rewrite (C e m Em), Em. reflexivity.
  - intros e'. rewrite kget_kins. destruct (Nat.eqb_spec e' e) as [->|]; [|apply B]. unfold view. cbn [sl]. rewrite (C e m Em), Em. reflexivity. Qed.

(* replacing / inserting the loaded entity of e by m, when the excerpt and index of e are refreshed right after *)
Lemma inv_load_clean gf e b c : inv gf c -> gf e = Some b -> kget e (sl c) = None ->
  inv gf {| sx := sx c; si := si c; sl := kins e (clean b) (sl c); slru := slru c |}.
Proof. intros [A B C D E] Ge Hn. split; cbn [sx si sl]; auto.
  - intros e'. rewrite A. unfold view. cbn [sl]. rewrite kget_kins. destruct (Nat.eqb_spec e' e) as [->|]; [|reflexivity]. now rewrite Ge, Hn.
  - intros e'. rewrite B. unfold view. cbn [sl]. rewrite kget_kins. destruct (Nat.eqb_spec e' e) as [->|]; [|reflexivity]. now rewrite Ge, Hn.
  - intros e' m. rewrite kget_kins. destruct (Nat.eqb_spec e' e) as [->|]; [|apply C]. intros H; inversion H; subst. exact Ge. Qed.

Lemma inv_resolve gf keep cap e c : inv gf c -> inv gf (resolve keep cap (gf e) e c).
Proof. intros I. unfold resolve. destruct (kget e (sl c)) eqn:El; [now apply inv_lru|].
  destruct (gf e) as [b|] eqn:Ge; [|exact I]. apply inv_evict.
  apply (inv_lru gf {| sx := sx c; si := si c; sl := kins e (clean b) (sl c); slru := slru c |}). now apply inv_load_clean. Qed.

(* a loaded entity is replaced by m (same base or a new base b' = gf' e) and entityUpdated runs *)
Lemma inv_replace_updated gf gf' e m c :
  inv gf c -> (forall e', e' <> e -> gf' e' = gf e') -> gf' e = Some (m_base m) ->
  inv gf' (updated e {| sx := sx c; si := si c; sl := kins e m (sl c); slru := slru c |}).
Proof. intros [A B C D E] Ho Ge. unfold updated. cbn [sl sx si slru]. rewrite kget_kins, Nat.eqb_refl.
  split; cbn [sx si sl]; auto using ksorted_kins.
  - intros e'. rewrite kget_kins. unfold view. cbn [sl]. rewrite kget_kins. destruct (Nat.eqb_spec e' e) as [->|Hne]; [now rewrite Ge|].
    rewrite (Ho e' Hne). apply A.
  - intros e'. rewrite kget_kins. unfold view. cbn [sl]. rewrite kget_kins. destruct (Nat.eqb_spec e' e) as [->|Hne]; [now rewrite Ge|].
    rewrite (Ho e' Hne). apply B.
  - intros e' m'. rewrite kget_kins. destruct (Nat.eqb_spec e' e) as [->|Hne]; [intros H; inversion H; subst; exact Ge|].
    rewrite (Ho e' Hne). apply C. Qed.

Lemma inv_stage gf e op c : inv gf c -> inv gf (stage e op c).
Proof. intros I. unfold stage. destruct (kget e (sl c)) as [m|] eqn:Em; [|exact I].
  apply (inv_replace_updated gf gf e {| m_base := m_base m; m_staged := m_staged m ++ [op] |} c I); [reflexivity|]. cbn. destruct I as [_ _ C _ _]. eauto. Qed.

Lemma inv_committed gf gf' b e c : inv gf c -> (forall e', e' <> e -> gf' e' = gf e') -> gf' e = Some b -> inv gf' (committed b e c).
Proof. intros I Ho Ge. unfold committed. now apply (inv_replace_updated gf gf' e (clean b) c I Ho). Qed.

Lemma inv_added_nolru gf gf' b e c : inv gf c -> (forall e', e' <> e -> gf' e' = gf e') -> gf' e = Some b -> inv gf' (added_nolru b e c).
Proof. intros I Ho Ge. unfold added_nolru. now apply (inv_replace_updated gf gf' e (clean b) c I Ho). Qed.

(* add: cached + LRU, eviction (which keeps the new entry), entityUpdated *)
Lemma inv_added gf gf' cap b e c : inv gf c -> (forall e', e' <> e -> gf' e' = gf e') -> gf' e = Some b -> inv gf' (added true cap b e c).
Proof. intros I Ho Ge. unfold added.
  set (c1 := {| sx := sx c; si := si c; sl := kins e (clean b) (sl c); slru := lru_add e (slru c) |}).
  assert (K : kget e (sl (evict true cap c1)) = Some (clean b)).
  { rewrite (evict_keeps_newest cap e c1 (slru c) eq_refl). cbn. now rewrite kget_kins, Nat.eqb_refl. }
  assert (X1 : sx (evict true cap c1) = sx c) by reflexivity.
  assert (X2 : si (evict true cap c1) = si c) by reflexivity.
  destruct I as [A B C D E].
  assert (L : forall e' m, kget e' (sl (evict true cap c1)) = Some m -> gf' e' = Some (m_base m)).
  { intros e' m Hm. unfold evict in Hm. cbn [sl] in Hm.
    destruct (evict_go_spec cap (removelast (slru c1)) (sl c1) (slru c1) e') as [H|(H & _)]; [|congruence].
    rewrite H in Hm. cbn [c1 sl] in Hm. rewrite kget_kins in Hm. destruct (Nat.eqb_spec e' e) as [->|Hne]; [inversion Hm; subst; exact Ge|].
    rewrite (Ho e' Hne). eauto. }
  assert (V : forall e', e' <> e -> view gf' (evict true cap c1) e' = view gf c e').
  { intros e' Hne. unfold view. rewrite (Ho e' Hne). destruct (gf e') as [b'|] eqn:Ge'; [|reflexivity]. f_equal.
    unfold evict. cbn [sl]. destruct (evict_go_spec cap (removelast (slru c1)) (sl c1) (slru c1) e') as [H|(H & m & H1 & H2 & _)].
    - rewrite H. cbn [c1 sl]. rewrite kget_kins. destruct (Nat.eqb_spec e' e); [congruence|reflexivity].
    - rewrite H. cbn [c1 sl] in H1. rewrite kget_kins in H1. destruct (Nat.eqb_spec e' e); [congruence|]. rewrite H1.
      specialize (C e' m H1). rewrite Ge' in C. inversion C; subst. destruct m as [mb ms]; cbn in *; now subst. }
  generalize dependent (evict true cap c1). intros c2 K X1 X2 L V.
  unfold updated. rewrite K. split; cbn [sx si sl]; rewrite ?X1, ?X2; auto using ksorted_kins.
  - intros e'. rewrite kget_kins. destruct (Nat.eqb_spec e' e) as [->|Hne].
    + unfold view. cbn [sl]. now rewrite Ge, K.
    + rewrite A. rewrite <- (V e' Hne). unfold view. reflexivity.
  - intros e'. rewrite kget_kins. destruct (Nat.eqb_spec e' e) as [->|Hne].
    + unfold view. cbn [sl]. now rewrite Ge, K.
    + rewrite B. rewrite <- (V e' Hne). unfold view. reflexivity. Qed.

Lemma inv_merged gf gf' b e c : inv gf c -> (forall e', e' <> e -> gf' e' = gf e') -> gf' e = Some b -> inv gf' (merged true b e c).
Proof. intros [A B C D E] Ho Ge. unfold merged. split; cbn [sx si sl]; auto using ksorted_kins.
  - intros e'. rewrite kget_kins. unfold view. cbn [sl]. rewrite kget_kins. destruct (Nat.eqb_spec e' e) as [->|Hne]; [now rewrite Ge|]. rewrite (Ho e' Hne). apply A.
  - intros e'. rewrite kget_kins. unfold view. cbn [sl]. rewrite kget_kins. destruct (Nat.eqb_spec e' e) as [->|Hne]; [now rewrite Ge|]. rewrite (Ho e' Hne). apply B.
  - intros e' m. rewrite kget_kins. destruct (Nat.eqb_spec e' e) as [->|Hne]; [intros H; inversion H; subst; exact Ge|]. rewrite (Ho e' Hne). apply C. Qed.

Lemma inv_removed gf gf' e c : inv gf c -> (forall e', e' <> e -> gf' e' = gf e') -> gf' e = None -> inv gf' (removed e c).
Proof. intros [A B C D E] Ho Ge. unfold removed. split; cbn [sx si sl]; auto using ksorted_kdel.
  - intros e'. rewrite kget_kdel. unfold view. cbn [sl]. rewrite kget_kdel. destruct (Nat.eqb_spec e' e) as [->|Hne]; [now rewrite Ge|]. rewrite (Ho e' Hne). apply A.
  - intros e'. rewrite kget_kdel. unfold view. cbn [sl]. rewrite kget_kdel. destruct (Nat.eqb_spec e' e) as [->|Hne]; [now rewrite Ge|]. rewrite (Ho e' Hne). apply B.
  - intros e' m. rewrite kget_kdel. destruct (Nat.eqb_spec e' e) as [->|Hne]; [discriminate|]. rewrite (Ho e' Hne). apply C. Qed.

Lemma quiescentb_spec c : quiescentb c = true -> quiescent c.
Proof. unfold quiescentb, quiescent. rewrite forallb_forall. intros H e m Hm. apply kget_In in Hm. specialize (H _ Hm). cbn in H.
  unfold is_dirty in H. destruct (m_staged m); [reflexivity|discriminate]. Qed.

Lemma inv_reloaded gf c : inv gf c -> quiescent c -> inv gf (reloaded c).
Proof. intros [A B C D E] Q. unfold reloaded. split; cbn [sx si sl]; auto.
  - intros e. rewrite A. unfold view. cbn [sl]. destruct (gf e) as [b|] eqn:Ge; [|reflexivity]. f_equal.
    destruct (kget e (sl c)) as [m|] eqn:Em; [|reflexivity]. specialize (C e m Em). specialize (Q e m Em). rewrite Ge in C. inversion C; subst. destruct m; cbn in *; now subst.
  - intros e. rewrite B. unfold view. cbn [sl]. destruct (gf e) as [b|] eqn:Ge; [|reflexivity]. f_equal.
    destruct (kget e (sl c)) as [m|] eqn:Em; [|reflexivity]. specialize (C e m Em). specialize (Q e m Em). rewrite Ge in C. inversion C; subst. destruct m; cbn in *; now subst.
  - intros e m H. discriminate. Qed.

Lemma inv_rebuilt (g : kmap G) : ksorted g -> inv (fun e => kget e g) (rebuilt g).
Proof. intros S. unfold rebuilt, rebuild. split; cbn [sx si sl]; auto using ksorted_kmapv.
  - intros e. unfold view. cbn [sl]. rewrite !kget_kmapv. destruct (kget e g); reflexivity.
  - intros e. unfold view. cbn [sl]. rewrite !kget_kmapv. destruct (kget e g); reflexivity.
  - intros e m. rewrite kget_kmapv. destruct (kget e g); cbn; [|discriminate]. intros H; inversion H; reflexivity. Qed.

(* ---------------- coherence: what the invariant means at a quiescent point ---------------- *)
Definition coherent (g : kmap G) (c : sub) : Prop :=
  sx c = rebuild g /\ si c = rebuild g /\ forall e m, kget e (sl c) = Some m -> kget e g = Some (m_base m) /\ m_staged m = [].

Theorem inv_coherent (g : kmap G) c : ksorted g -> inv (fun e => kget e g) c -> quiescent c -> coherent g c.
Proof. intros S [A B C D E] Q.
  assert (V : forall e, view (fun e => kget e g) c e = kget e (rebuild g)).
  { intros e. unfold view, rebuild. rewrite kget_kmapv. destruct (kget e g) as [b|] eqn:Ge; [|reflexivity]. cbn. f_equal.
    destruct (kget e (sl c)) as [m|] eqn:Em; [|reflexivity]. specialize (C e m Em). specialize (Q e m Em). cbn in C. rewrite Ge in C. inversion C; subst. destruct m; cbn in *; now subst. }
  split; [|split].
  - apply ksorted_ext; [exact D|apply ksorted_kmapv, S|]. intros e. now rewrite A.
  - apply ksorted_ext; [exact E|apply ksorted_kmapv, S|]. intros e. now rewrite B.
  - intros e m Em. split; [apply (C e m Em)|apply (Q e m Em)]. Qed.

(* a coherent cache serves exactly what a cache built from scratch serves *)
Theorem coherent_served (g : kmap G) c : coherent g c ->
  sx c = sx (rebuilt g) /\ si c = si (rebuilt g) /\ forall e, served (fun e => kget e g) c e = served (fun e => kget e g) (rebuilt g) e.
Proof. intros (A & B & C). split; [exact A|]. split; [exact B|]. intros e. unfold served, rebuilt, rebuild. cbn [sl]. rewrite kget_kmapv.
  destruct (kget e (sl c)) as [m|] eqn:Em.
  - destruct (C e m Em) as [H1 H2]. rewrite H1. cbn. destruct m; cbn in *; now subst.
  - destruct (kget e g); reflexivity. Qed.

End Sub.

Arguments m_base {G}. Arguments m_staged {G}. Arguments clean {G}. Arguments is_dirty {G}.
Arguments sx {G}. Arguments si {G}. Arguments sl {G}. Arguments slru {G}.
Arguments sub0 {G}. Arguments evict {G}. Arguments updated {G}. Arguments resolve {G}. Arguments stage {G}.
Arguments committed {G}. Arguments added {G}. Arguments added_nolru {G}. Arguments merged {G}. Arguments removed {G}.
Arguments reloaded {G}. Arguments rebuild {G}. Arguments rebuilt {G}. Arguments quiescent {G}. Arguments quiescentb {G}.
Arguments served {G}. Arguments view {G}. Arguments inv {G}. Arguments coherent {G}.
