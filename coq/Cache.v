(* C11 — model of cache.RepoCache layered on the session model (Sync.sstep over World.step).

   One cache per user: a bug sub-cache and an identity sub-cache (SubCache.v), on top of the user's
   replica of the session world (bugs: Sync.sworld; identities: a fast-forward-only world of version
   lists, IdMerge.merge_identity).  `rebuild` of the git data is the specification:
   coherent = the excerpts and the index equal the rebuilt ones and every loaded entity is exactly
   what its ref reads as.

   Saving: VCommit = BugCache.Commit (refused when nothing is staged), VCommitAsNeeded = BugCache.CommitAsNeeded (the same commit
   when something is staged, else only entityUpdated), VIdUpd / VIdCommitAsNeeded for the identity side.

   variant: the repaired code is `fixed`; the other settings transcribe the code as found
   (patch numbers refer to notes/candidate-fixes.patch):
     v_index_merged  = false : MergeAll does not index merged entities               (05)
     v_ident_updated = false : identity.Merge reports "nothing" although it moved the ref (03)
     v_merge_result  = false : a diverged merge hands back the pre-merge entity       (02)
     v_keep_newest   = false : evictIfNeeded may evict the entity that was just loaded / added *)
From Coq Require Import List Arith NArith Lia Bool.
Import ListNotations.
From GB Require Import Reach Sort Read Good Snoc World Sync Ext KMap SubCache SyncFrame.
From GB Require IdMerge.

Record variant := { v_index_merged : bool; v_ident_updated : bool; v_merge_result : bool; v_keep_newest : bool }.
Definition fixed : variant := {| v_index_merged := true; v_ident_updated := true; v_merge_result := true; v_keep_newest := true |}.

(* ---------------- identities: version lists, fast-forward only ---------------- *)
Definition igit := list N.
Record iworld := { i_loc : list (kmap igit); i_trk : list (kmap igit); i_rem : kmap igit }.
Definition iw0 (n : nat) : iworld := {| i_loc := repeat [] n; i_trk := repeat [] n; i_rem := [] |}.
Definition iloc (iw : iworld) (r : nat) : kmap igit := nth r (i_loc iw) [].
Definition itrk (iw : iworld) (r : nat) : kmap igit := nth r (i_trk iw) [].
Definition gfi (iw : iworld) (r u : nat) : option igit := kget u (iloc iw r).

Definition koverride {A} (base upd : kmap A) : kmap A := fold_left (fun acc p => kins (fst p) (snd p) acc) upd base.

Fixpoint prefixb (a b : list N) : bool :=
  match a, b with [], _ => true | x :: a', y :: b' => N.eqb x y && prefixb a' b' | _ :: _, [] => false end.
(* go-git refuses a push that is not a fast-forward of the remote ref *)
Definition ipush_ok (loc rem : kmap igit) : bool :=
  forallb (fun p => match kget (fst p) rem with None => true | Some rv => prefixb rv (snd p) end) loc.

Definition set_iloc (iw : iworld) (r : nat) (m : kmap igit) : iworld :=
  {| i_loc := set_nth r m (i_loc iw); i_trk := i_trk iw; i_rem := i_rem iw |}.

(* ---------------- one user's cache, the whole system ---------------- *)
Record ucache := { cb : sub bgit; ci : sub igit }.
Definition uc0 : ucache := {| cb := sub0; ci := sub0 |}.
Record cworld := { gw : sworld; iw : iworld; ucs : list ucache }.
Definition cw0 (n : nat) : cworld := {| gw := sw0 n; iw := iw0 n; ucs := repeat uc0 n |}.
Definition ucache_of (cw : cworld) (r : nat) : ucache := nth r (ucs cw) uc0.

Definition set_uc (cw : cworld) (r : nat) (u : ucache) : cworld := {| gw := gw cw; iw := iw cw; ucs := set_nth r u (ucs cw) |}.

(* ---------------- cache-level events ---------------- *)
Inductive cev :=
| VIdNew (r u : nat) (v : N)            (* Identities().New: identity u created and committed with first version v *)
| VIdUpd (r u : nat) (v : N)            (* the user identity is resolved, mutated (new version v) and committed *)
| VIdResolve (r u : nat)
| VNew (r : nat) (id au : N) (ops : list N)   (* Bugs().New: created, committed (one pack), added to the cache *)
| VResolve (r e : nat)
| VStage (r e : nat) (op : N)           (* any edit through the loaded BugCache *)
| VCommit (r e : nat) (id au : N)       (* Commit of the loaded bug: its staged operations become one pack *)
| VCommitAsNeeded (r e : nat) (id au : N)   (* CommitAsNeeded of the loaded bug (termui, bridge exporters): Commit when something is
                                               staged, otherwise nothing is written; entityUpdated runs in both cases *)
| VIdCommitAsNeeded (r u : nat)         (* the identity is resolved, then CommitAsNeeded *)
| VPush (r : nat)
| VPull (r : nat) (ims : list nat) (bms : list (nat * N * N))  (* Fetch + MergeAll; merge order as observed; ids of merge commits *)
| VRemove (r e : nat)
| VReopen (r : nat) (wipe : nat).       (* Close + new process; wipe 1: cache files deleted, 2: indexes deleted *)

Inductive cout :=
| CDone | CFail
| CPulled (is : list mstatus) (bs : list mstatus).

Definition rep_ev (ev : cev) : nat :=
  match ev with VIdNew r _ _ | VIdUpd r _ _ | VIdResolve r _ | VNew r _ _ _ | VResolve r _ | VStage r _ _ | VCommit r _ _ _
              | VCommitAsNeeded r _ _ _ | VIdCommitAsNeeded r _ | VPush r | VPull r _ _ | VRemove r _ | VReopen r _ => r end.

Section Step.
Variable V : variant.
Variable cap : nat.

Definition bresolve (cw : cworld) (r e : nat) (c : sub bgit) : sub bgit := resolve (v_keep_newest V) cap (gfb (gw cw) r e) e c.

(* one identity merge result *)
Definition imerge1 (r : nat) (acc : iworld * sub igit * list mstatus) (u : nat) : iworld * sub igit * list mstatus :=
  let '(iw, c, outs) := acc in
  match kget u (itrk iw r) with
  | None => (iw, c, outs ++ [MInvalid])
  | Some t =>
      match kget u (iloc iw r) with
      | None => (set_iloc iw r (kins u t (iloc iw r)), merged (v_index_merged V) t u c, outs ++ [MNew])
      | Some l =>
          match IdMerge.merge_identity l t with
          | IdMerge.MUpdated l' =>
              if v_ident_updated V then (set_iloc iw r (kins u l' (iloc iw r)), merged (v_index_merged V) l' u c, outs ++ [MUpdated])
              else (set_iloc iw r (kins u l' (iloc iw r)), c, outs ++ [MNothing])
          | IdMerge.MNothing => (iw, c, outs ++ [MNothing])
          | IdMerge.MInvalid => (iw, c, outs ++ [MInvalid])
          end
      end
  end.

(* one bug merge result *)
Definition bmerge1 (r : nat) (acc : option (sworld * sub bgit * list mstatus)) (m : nat * N * N) : option (sworld * sub bgit * list mstatus) :=
  match acc with
  | None => None
  | Some (sw, c, outs) =>
      let '(e, mid, mau) := m in
      match sstep sw (EMerge r e mid mau) with
      | None => None
      | Some (sw', out) =>
          match out with
          | OMerge MNew _ =>
              match gfb sw' r e with
              | Some b => Some (sw', merged (v_index_merged V) b e c, outs ++ [MNew])
              | None => None
              end
          | OMerge MUpdated _ =>
              match gfb sw' r e with
              | Some b =>
                  (* a merge commit was written iff the store grew *)
                  let b' := if v_merge_result V then b
                            else if Nat.ltb (length (st (ww sw))) (length (st (ww sw')))
                                 then match gfb sw r e with Some old => old | None => b end else b in
                  Some (sw', merged (v_index_merged V) b' e c, outs ++ [MUpdated])
              | None => None
              end
          | OMerge st _ => Some (sw', c, outs ++ [st])
          | _ => Some (sw', c, outs ++ [MInvalid])     (* no tracking ref: nothing to merge *)
          end
      end
  end.

(* Commit of the loaded bug m of entity e, which has staged operations: they become one pack on top of the bug's own last commit
   (the model covers the case where that is the ref); then entityUpdated *)
Definition commit_loaded (cw : cworld) (r e : nat) (id au : N) (m : ment bgit) : option (cworld * cout) :=
  let u := ucache_of cw r in
  match alookup e (locals (ww (gw cw)) r) with
  | Some h =>
      if negb (Nat.eqb h (fst (m_base m))) then None else
      match sstep (gw cw) (ECommit r (Some e) [Pk id au (m_staged m)]) with
      | Some (sw', ODone) =>
          match gfb sw' r e with
          | Some b => Some ({| gw := sw'; iw := iw cw; ucs := set_nth r {| cb := committed b e (cb u); ci := ci u |} (ucs cw) |}, CDone)
          | None => None
          end
      | Some (_, _) => Some (cw, CFail)
      | None => None
      end
  | None => None
  end.

Definition count_ok {G} (c : sub G) : bool := Nat.eqb (length (si c)) (length (sx c)).

Definition cstep (cw : cworld) (ev : cev) : option (cworld * cout) :=
  let r := rep_ev ev in
  if negb (Nat.ltb r (length (ucs cw))) then None else
  let u := ucache_of cw r in
  match ev with
  | VIdNew _ k v =>
      match gfi (iw cw) r k with
      | Some _ => None
      | None =>
          Some ({| gw := gw cw; iw := set_iloc (iw cw) r (kins k [v] (iloc (iw cw) r));
                   ucs := set_nth r {| cb := cb u; ci := added_nolru [v] k (ci u) |} (ucs cw) |}, CDone)
      end
  | VIdUpd _ k v =>
      let c1 := resolve (v_keep_newest V) cap (gfi (iw cw) r k) k (ci u) in
      match kget k (sl c1) with
      | None => Some (set_uc cw r {| cb := cb u; ci := c1 |}, CFail)
      | Some m =>
          let c2 := stage k v c1 in
          (* Commit writes every version that has no commit yet on top of the in-memory chain and moves the ref *)
          let l' := m_base m ++ m_staged m ++ [v] in
          Some ({| gw := gw cw; iw := set_iloc (iw cw) r (kins k l' (iloc (iw cw) r));
                   ucs := set_nth r {| cb := cb u; ci := committed l' k c2 |} (ucs cw) |}, CDone)
      end
  | VIdResolve _ k =>
      Some (set_uc cw r {| cb := cb u; ci := resolve (v_keep_newest V) cap (gfi (iw cw) r k) k (ci u) |}, CDone)
  | VNew _ id au ops =>
      match sstep (gw cw) (ECommit r None [Pk id au ops]) with
      | Some (sw', ODone) =>
          let e := length (st (ww (gw cw))) in
          match gfb sw' r e with
          | Some b =>
              let cb' := added (v_keep_newest V) cap b e (cb u) in
              (* when the new entity was evicted on the spot, entityUpdated fails ("entity missing from cache"): New reports an error *)
              Some ({| gw := sw'; iw := iw cw; ucs := set_nth r {| cb := cb'; ci := ci u |} (ucs cw) |},
                    match kget e (sl cb') with Some _ => CDone | None => CFail end)
          | None => None
          end
      | Some (_, _) => Some (cw, CFail)
      | None => None
      end
  | VResolve _ e => Some (set_uc cw r {| cb := bresolve cw r e (cb u); ci := ci u |}, CDone)
  | VStage _ e op => Some (set_uc cw r {| cb := stage e op (cb u); ci := ci u |}, CDone)
  | VCommit _ e id au =>
      match kget e (sl (cb u)) with
      | None => Some (cw, CFail)
      | Some m =>
          (* Entity.Commit refuses an entity with no pending operation *)
          if negb (is_dirty m) then Some (cw, CFail) else commit_loaded cw r e id au m
      end
  | VCommitAsNeeded _ e id au =>
      match kget e (sl (cb u)) with
      | None => Some (cw, CFail)                        (* entityUpdated: "entity missing from cache" *)
      | Some m =>
          if is_dirty m then commit_loaded cw r e id au m
          else Some (set_uc cw r {| cb := updated e (cb u); ci := ci u |}, CDone)   (* nothing written; entityUpdated all the same *)
      end
  | VIdCommitAsNeeded _ k =>
      let c1 := resolve (v_keep_newest V) cap (gfi (iw cw) r k) k (ci u) in
      match kget k (sl c1) with
      | None => Some (set_uc cw r {| cb := cb u; ci := c1 |}, CFail)
      | Some m =>
          if is_dirty m then
            let l' := m_base m ++ m_staged m in
            Some ({| gw := gw cw; iw := set_iloc (iw cw) r (kins k l' (iloc (iw cw) r));
                     ucs := set_nth r {| cb := cb u; ci := committed l' k c1 |} (ucs cw) |}, CDone)
          else Some (set_uc cw r {| cb := cb u; ci := updated k c1 |}, CDone)
      end
  | VPush _ =>
      if ipush_ok (iloc (iw cw) r) (i_rem (iw cw)) then
        match sstep (gw cw) (EPush r) with
        | Some (sw', ODone) =>
            Some ({| gw := sw';
                     iw := {| i_loc := i_loc (iw cw); i_trk := set_nth r (koverride (itrk (iw cw) r) (iloc (iw cw) r)) (i_trk (iw cw));
                              i_rem := koverride (i_rem (iw cw)) (iloc (iw cw) r) |};
                     ucs := ucs cw |}, CDone)
        | Some (_, _) => Some (cw, CFail)
        | None => None
        end
      else Some (cw, CFail)
  | VPull _ ims bms =>
      match sstep (gw cw) (EFetch r) with
      | Some (sw1, _) =>
          let iw1 := {| i_loc := i_loc (iw cw); i_trk := set_nth r (koverride (itrk (iw cw) r) (i_rem (iw cw))) (i_trk (iw cw)); i_rem := i_rem (iw cw) |} in
          let '(iw2, ci2, iouts) := fold_left (imerge1 r) ims (iw1, ci u, []) in
          match fold_left (bmerge1 r) bms (Some (sw1, cb u, [])) with
          | Some (sw2, cb2, bouts) =>
              Some ({| gw := sw2; iw := iw2; ucs := set_nth r {| cb := cb2; ci := ci2 |} (ucs cw) |}, CPulled iouts bouts)
          | None => None
          end
      | None => None
      end
  | VRemove _ e =>
      match kget e (sx (cb u)) with
      | None => Some (cw, CFail)                       (* ResolvePrefix finds no excerpt *)
      | Some _ =>
          let c1 := bresolve cw r e (cb u) in
          match sstep (gw cw) (ERemove r e) with
          | Some (sw', _) => Some ({| gw := sw'; iw := iw cw; ucs := set_nth r {| cb := removed e c1; ci := ci u |} (ucs cw) |}, CDone)
          | None => None
          end
      end
  | VReopen _ wipe =>
      (* operations that were never committed die with the process: outside the property *)
      if negb (quiescentb (cb u) && quiescentb (ci u)) then None else
      let drop (G : Type) (c : sub G) : sub G := if Nat.eqb wipe 2 then {| sx := sx c; si := []; sl := sl c; slru := slru c |} else c in
      let b1 := drop bgit (cb u) in let i1 := drop igit (ci u) in
      if negb (Nat.eqb wipe 1) && count_ok b1 && count_ok i1
      then Some (set_uc cw r {| cb := reloaded b1; ci := reloaded i1 |}, CDone)
      else Some (set_uc cw r {| cb := rebuilt (kmapv (bgit_of (ww (gw cw))) (locals (ww (gw cw)) r)); ci := rebuilt (iloc (iw cw) r) |}, CDone)
  end.

Fixpoint crun (cw : cworld) (evs : list cev) : option cworld :=
  match evs with [] => Some cw | ev :: t => match cstep cw ev with Some (cw', _) => crun cw' t | None => None end end.

End Step.

(* ---------------- the specification: a cache rebuilt from the git data ---------------- *)
Definition bug_git (cw : cworld) (r : nat) : kmap bgit := kmapv (bgit_of (ww (gw cw))) (locals (ww (gw cw)) r).
Definition id_git (cw : cworld) (r : nat) : kmap igit := iloc (iw cw) r.

Definition coherent (cw : cworld) (r : nat) : Prop :=
  SubCache.coherent (bug_git cw r) (cb (ucache_of cw r)) /\ SubCache.coherent (id_git cw r) (ci (ucache_of cw r)).
Definition quiescent (cw : cworld) (r : nat) : Prop :=
  SubCache.quiescent (cb (ucache_of cw r)) /\ SubCache.quiescent (ci (ucache_of cw r)).

Lemma kget_bug_git cw r e : kget e (bug_git cw r) = gfb (gw cw) r e.
Proof. unfold bug_git, gfb. now rewrite kget_kmapv. Qed.

Lemma ksorted_bug_git cw r : ksorted (bug_git cw r).
Proof. apply ksorted_kmapv, ksorted_asort. Qed.

(* ---------------- invariant of the reachable states (repaired code) ---------------- *)
Record CI (cw : cworld) : Prop := {
  ci_wi : WI (gw cw);
  ci_bug : forall r, r < length (ucs cw) -> inv (gfb (gw cw) r) (cb (ucache_of cw r));
  ci_id : forall r, r < length (ucs cw) -> inv (gfi (iw cw) r) (ci (ucache_of cw r));
  ci_isorted : forall r, ksorted (iloc (iw cw) r);
  ci_len : length (i_loc (iw cw)) = length (ucs cw) }.

Lemma nth_repeat' {A} (x : A) n r : nth r (repeat x n) x = x.
Proof. revert r. induction n as [|n IH]; intros r; cbn; [now destruct r|]. destruct r; auto. Qed.

Lemma iloc_iw0 n r : iloc (iw0 n) r = [].
Proof. unfold iloc, iw0. cbn. apply nth_repeat'. Qed.

Lemma CI_cw0 n : CI (cw0 n).
Proof. split; cbn [gw iw ucs cw0].
  - apply WI_sw0.
  - intros r _. unfold ucache_of. cbn. rewrite nth_repeat'. cbn. apply inv_sub0. intros e. unfold gfb. cbn.
    unfold locals, rep_of. cbn. destruct (nth_error (repeat _ n) r) as [rp|] eqn:E; [apply nth_error_In, repeat_spec in E; subst|]; reflexivity.
  - intros r _. unfold ucache_of. cbn. rewrite nth_repeat'. cbn. apply inv_sub0. intros e. unfold gfi. now rewrite iloc_iw0.
  - intros r. rewrite iloc_iw0. apply ksorted_nil.
  - cbn. now rewrite !repeat_length. Qed.

Lemma ucache_of_set_same cw r u ucs' : r < length (ucs cw) -> ucs' = set_nth r u (ucs cw) -> nth r ucs' uc0 = u.
Proof. intros H ->. destruct (nth_error (ucs cw) r) as [x|] eqn:E; [|apply nth_error_None in E; lia].
  apply nth_error_nth. apply (nth_error_set_nth_same r u _ x E). Qed.
Lemma ucache_of_set_other cw r r' u ucs' : r < length (ucs cw) -> ucs' = set_nth r u (ucs cw) -> r' <> r -> nth r' ucs' uc0 = nth r' (ucs cw) uc0.
Proof. intros H -> Hne. destruct (Nat.lt_ge_cases r' (length (ucs cw))) as [L|L].
  - destruct (nth_error (ucs cw) r') as [x|] eqn:E; [|apply nth_error_None in E; lia].
    rewrite (nth_error_nth _ _ _ E). apply nth_error_nth. rewrite nth_error_set_nth_other; auto.
  - rewrite !nth_overflow; auto. rewrite length_set_nth; auto. Qed.

Lemma iloc_set_same iw r m : r < length (i_loc iw) -> iloc (set_iloc iw r m) r = m.
Proof. intros H. unfold iloc, set_iloc. cbn. destruct (nth_error (i_loc iw) r) as [x|] eqn:E; [|apply nth_error_None in E; lia].
  apply nth_error_nth. apply (nth_error_set_nth_same r m _ x E). Qed.
Lemma iloc_set_other iw r r' m : r < length (i_loc iw) -> r' <> r -> iloc (set_iloc iw r m) r' = iloc iw r'.
Proof. intros H Hne. unfold iloc, set_iloc. cbn. destruct (Nat.lt_ge_cases r' (length (i_loc iw))) as [L|L].
  - destruct (nth_error (i_loc iw) r') as [x|] eqn:E; [|apply nth_error_None in E; lia].
    rewrite (nth_error_nth _ _ _ E). apply nth_error_nth. rewrite nth_error_set_nth_other; auto.
  - rewrite !nth_overflow; auto. rewrite length_set_nth; auto. Qed.

(* a step of user r: the world moves, r's cache moves, nobody else's refs move *)
Lemma CI_update cw r sw' iw' u' :
  CI cw -> r < length (ucs cw) ->
  WI sw' ->
  inv (gfb sw' r) (cb u') -> inv (gfi iw' r) (ci u') ->
  (forall r' e, r' <> r -> gfb sw' r' e = gfb (gw cw) r' e) ->
  (forall r', r' <> r -> iloc iw' r' = iloc (iw cw) r') ->
  ksorted (iloc iw' r) -> length (i_loc iw') = length (i_loc (iw cw)) ->
  CI {| gw := sw'; iw := iw'; ucs := set_nth r u' (ucs cw) |}.
Proof. intros [A B C D E] Lr W' Ib Ii Fb Fi Sr Ln. split; cbn [gw iw ucs].
  - exact W'.
  - intros r' Hr'. rewrite length_set_nth in Hr' by exact Lr. unfold ucache_of. cbn [ucs]. destruct (Nat.eq_dec r' r) as [->|Hne].
    + now rewrite (ucache_of_set_same cw r u' _ Lr eq_refl).
    + rewrite (ucache_of_set_other cw r r' u' _ Lr eq_refl Hne). apply (inv_ext _ (gfb (gw cw) r')); [intros e; now apply Fb|]. now apply B.
  - intros r' Hr'. rewrite length_set_nth in Hr' by exact Lr. unfold ucache_of. cbn [ucs]. destruct (Nat.eq_dec r' r) as [->|Hne].
    + now rewrite (ucache_of_set_same cw r u' _ Lr eq_refl).
    + rewrite (ucache_of_set_other cw r r' u' _ Lr eq_refl Hne). apply (inv_ext _ (gfi (iw cw) r')); [intros e; unfold gfi; now rewrite Fi|]. now apply C.
  - intros r'. destruct (Nat.eq_dec r' r) as [->|Hne]; [exact Sr|]. rewrite Fi by exact Hne. apply D.
  - rewrite Ln, length_set_nth by exact Lr. exact E. Qed.

Lemma set_uc_eq cw r u : set_uc cw r u = {| gw := gw cw; iw := iw cw; ucs := set_nth r u (ucs cw) |}.
Proof. reflexivity. Qed.

(* only the cache of r changes *)
Lemma CI_cache_only cw r u' : CI cw -> r < length (ucs cw) ->
  inv (gfb (gw cw) r) (cb u') -> inv (gfi (iw cw) r) (ci u') -> CI (set_uc cw r u').
Proof. intros I Lr Ib Ii. rewrite set_uc_eq. apply CI_update; auto; try apply I. Qed.

Lemma ksorted_koverride {A} (base upd : kmap A) : ksorted base -> ksorted (koverride base upd).
Proof. unfold koverride. revert base. induction upd as [|p t IH]; intros base S; cbn; [exact S|]. apply IH. now apply ksorted_kins. Qed.

(* identity merges keep the invariant of the identity sub-cache *)
Lemma imerge1_inv r : forall u iw c outs iw' c' outs',
  r < length (i_loc iw) -> ksorted (iloc iw r) -> inv (gfi iw r) c ->
  imerge1 fixed r (iw, c, outs) u = (iw', c', outs') ->
  length (i_loc iw') = length (i_loc iw) /\ ksorted (iloc iw' r) /\ inv (gfi iw' r) c' /\ (forall r', r' <> r -> iloc iw' r' = iloc iw r') /\ i_trk iw' = i_trk iw /\ i_rem iw' = i_rem iw.
Proof. intros u iw c outs iw' c' outs' Lr S I H. unfold imerge1 in H. cbn [v_index_merged v_ident_updated fixed] in H.
  assert (SET : forall l', length (i_loc (set_iloc iw r (kins u l' (iloc iw r)))) = length (i_loc iw) /\ ksorted (iloc (set_iloc iw r (kins u l' (iloc iw r))) r) /\
                           inv (gfi (set_iloc iw r (kins u l' (iloc iw r))) r) (merged true l' u c) /\
                           (forall r', r' <> r -> iloc (set_iloc iw r (kins u l' (iloc iw r))) r' = iloc iw r') /\
                           i_trk (set_iloc iw r (kins u l' (iloc iw r))) = i_trk iw /\ i_rem (set_iloc iw r (kins u l' (iloc iw r))) = i_rem iw).
  { intros l'. split; [cbn; now apply length_set_nth|]. split; [rewrite iloc_set_same by exact Lr; now apply ksorted_kins|].
    split; [|split; [intros r' Hne; now apply iloc_set_other|split; reflexivity]].
    apply (inv_merged igit (gfi iw r)); [exact I| |]; unfold gfi; rewrite iloc_set_same by exact Lr; intros; rewrite kget_kins.
    - destruct (Nat.eqb_spec e' u); [congruence|reflexivity].
    - now rewrite Nat.eqb_refl. }
  assert (SAME : length (i_loc iw) = length (i_loc iw) /\ ksorted (iloc iw r) /\ inv (gfi iw r) c /\ (forall r', r' <> r -> iloc iw r' = iloc iw r') /\ i_trk iw = i_trk iw /\ i_rem iw = i_rem iw)
    by (split; [reflexivity|split; [exact S|split; [exact I|split; [reflexivity|split; reflexivity]]]]).
  destruct (kget u (itrk iw r)) as [t|]; [|inversion H; subst; exact SAME].
  destruct (kget u (iloc iw r)) as [l|].
  - destruct (IdMerge.merge_identity l t) as [|l'|]; inversion H; subst; [exact SAME|apply SET|exact SAME].
  - inversion H; subst. apply SET. Qed.

Lemma imerge_fold_inv r : forall ims iw c outs iw' c' outs',
  r < length (i_loc iw) -> ksorted (iloc iw r) -> inv (gfi iw r) c ->
  fold_left (imerge1 fixed r) ims (iw, c, outs) = (iw', c', outs') ->
  length (i_loc iw') = length (i_loc iw) /\ ksorted (iloc iw' r) /\ inv (gfi iw' r) c' /\ (forall r', r' <> r -> iloc iw' r' = iloc iw r').
Proof. induction ims as [|u t IH]; intros iw c outs iw' c' outs' Lr S I H; cbn [fold_left] in H.
  - inversion H; subst. split; [reflexivity|split; [exact S|split; [exact I|reflexivity]]].
  - destruct (imerge1 fixed r (iw, c, outs) u) as [[iw1 c1] o1] eqn:E1.
    destruct (imerge1_inv r u iw c outs iw1 c1 o1 Lr S I E1) as (L1 & S1 & I1 & F1 & _ & _).
    destruct (IH iw1 c1 o1 iw' c' outs' ltac:(lia) S1 I1 H) as (L2 & S2 & I2 & F2).
    split; [lia|split; [exact S2|split; [exact I2|]]]. intros r' Hne. rewrite F2, F1; auto. Qed.

(* bug merges *)
Lemma bmerge1_inv r m sw c outs sw' c' outs' :
  WI sw -> inv (gfb sw r) c ->
  bmerge1 fixed r (Some (sw, c, outs)) m = Some (sw', c', outs') ->
  WI sw' /\ inv (gfb sw' r) c' /\ (forall r' e, r' <> r -> gfb sw' r' e = gfb sw r' e).
Proof. intros W Iv H. destruct m as [[e mid] mau]. cbn [bmerge1] in H.
  destruct (sstep sw (EMerge r e mid mau)) as [[sw1 out]|] eqn:S; [|discriminate].
  destruct (sstep_frame sw (EMerge r e mid mau) sw1 out W I S) as (W1 & Fo & Fe & Sp). cbn [erep ev_ent] in *.
  assert (KEEP : gfb sw1 r e = gfb sw r e -> WI sw1 /\ inv (gfb sw1 r) c /\ (forall r' e0, r' <> r -> gfb sw1 r' e0 = gfb sw r' e0)).
  { intros E. split; [exact W1|]. split; [|exact Fo]. apply (inv_ext _ (gfb sw r)); [|exact Iv]. intros e0. destruct (Nat.eq_dec e0 e) as [->|Hne]; auto. }
  assert (UPD : forall b, gfb sw1 r e = Some b -> WI sw1 /\ inv (gfb sw1 r) (merged true b e c) /\ (forall r' e0, r' <> r -> gfb sw1 r' e0 = gfb sw r' e0)).
  { intros b E. split; [exact W1|]. split; [|exact Fo]. apply (inv_merged bgit (gfb sw r)); auto. }
  destruct out as [| |ops|st ent]; try (inversion H; subst; now apply KEEP).
  destruct st; cbn [v_index_merged v_merge_result fixed] in H.
  - destruct (gfb sw1 r e) as [b|] eqn:G; [|discriminate]. inversion H; subst. now apply UPD.
  - inversion H; subst. now apply KEEP.
  - destruct (gfb sw1 r e) as [b|] eqn:G; [|discriminate]. inversion H; subst. now apply UPD.
  - inversion H; subst. now apply KEEP. Qed.

Lemma bmerge_fold_inv r : forall bms sw c outs sw' c' outs',
  WI sw -> inv (gfb sw r) c ->
  fold_left (bmerge1 fixed r) bms (Some (sw, c, outs)) = Some (sw', c', outs') ->
  WI sw' /\ inv (gfb sw' r) c' /\ (forall r' e, r' <> r -> gfb sw' r' e = gfb sw r' e).
Proof. induction bms as [|m t IH]; intros sw c outs sw' c' outs' W I H; cbn [fold_left] in H.
  - inversion H; subst. split; [exact W|split; [exact I|reflexivity]].
  - destruct (bmerge1 fixed r (Some (sw, c, outs)) m) as [[[sw1 c1] o1]|] eqn:E1.
    + destruct (bmerge1_inv r m sw c outs sw1 c1 o1 W I E1) as (W1 & I1 & F1).
      destruct (IH sw1 c1 o1 sw' c' outs' W1 I1 H) as (W2 & I2 & F2). split; [exact W2|split; [exact I2|]]. intros r' e Hne. rewrite F2, F1; auto.
    + exfalso. clear -H. induction t as [|x t IHt]; cbn in H; [discriminate|]. apply IHt. exact H. Qed.

Lemma ucache_of_lt cw r : ucache_of cw r = nth r (ucs cw) uc0.
Proof. reflexivity. Qed.

(* ---------------- every step of the repaired code keeps the invariant ---------------- *)
Lemma set_nth_nth_id {A} r (l : list A) d : r < length l -> set_nth r (nth r l d) l = l.
Proof. revert r. induction l as [|x t IH]; intros r H; cbn in H; [lia|]. destruct r as [|r]; [reflexivity|].
  unfold set_nth in *. cbn. f_equal. apply IH. lia. Qed.

(* the commit of a loaded bug with staged operations *)
Lemma commit_loaded_CI cw r e id au m cw' out : CI cw -> r < length (ucs cw) ->
  commit_loaded cw r e id au m = Some (cw', out) -> CI cw'.
Proof. intros Ic Lr H. pose proof (ci_wi cw Ic) as W. pose proof (ci_bug cw Ic _ Lr) as Ib. pose proof (ci_id cw Ic _ Lr) as Ii.
  unfold commit_loaded in H.
  destruct (alookup e (locals (ww (gw cw)) r)) as [h|]; [|discriminate].
  destruct (negb (Nat.eqb h (fst (m_base m)))); [discriminate|].
  destruct (sstep (gw cw) (ECommit r (Some e) [Pk id au (m_staged m)])) as [[sw' o]|] eqn:Hs; [|discriminate].
  destruct (sstep_frame (gw cw) (ECommit r (Some e) [Pk id au (m_staged m)]) sw' o W I Hs) as (W' & Fo & Fe & _). cbn [erep ev_ent] in *.
  destruct o; try (inversion H; subst; exact Ic).
  destruct (gfb sw' r e) as [b|] eqn:G; [|discriminate]. inversion H; subst; clear H.
  apply CI_update; auto; try apply Ic. cbn [cb ci]. apply (inv_committed bgit (gfb (gw cw) r)); auto. Qed.

Theorem cstep_CI cap cw ev cw' out : CI cw -> cstep fixed cap cw ev = Some (cw', out) -> CI cw'.
Proof.
  intros Ic H. unfold cstep in H.
  destruct (Nat.ltb_spec (rep_ev ev) (length (ucs cw))) as [Lr|]; cbn [negb] in H; [|discriminate].
  pose proof (ci_wi cw Ic) as W. pose proof (ci_bug cw Ic _ Lr) as Ib. pose proof (ci_id cw Ic _ Lr) as Ii.
  pose proof (ci_isorted cw Ic) as Is. pose proof (ci_len cw Ic) as Ln.
  assert (Li : rep_ev ev < length (i_loc (iw cw))) by lia.
  destruct ev as [r k v|r k v|r k|r id au ops|r e|r e op|r e id au|r e id au|r k|r|r ims bms|r e|r wipe]; cbn [rep_ev] in *; cbn [v_keep_newest fixed] in H.
  - (* new identity *)
    destruct (gfi (iw cw) r k) eqn:G; [discriminate|]. inversion H; subst; clear H.
    apply CI_update; auto.
    + apply (inv_added_nolru igit (gfi (iw cw) r)); auto; unfold gfi; rewrite iloc_set_same by exact Li; intros; rewrite kget_kins.
      * destruct (Nat.eqb_spec e' k); [congruence|reflexivity].
      * now rewrite Nat.eqb_refl.
    + intros r' Hne. now apply iloc_set_other.
    + rewrite iloc_set_same by exact Li. now apply ksorted_kins.
    + cbn. now apply length_set_nth.
  - (* identity update *)
    set (c1 := resolve true cap (gfi (iw cw) r k) k (ci (ucache_of cw r))) in *.
    assert (I1 : inv (gfi (iw cw) r) c1) by (apply inv_resolve; exact Ii).
    destruct (kget k (sl c1)) as [m|] eqn:Em.
    + inversion H; subst; clear H. apply CI_update; auto.
      * apply (inv_committed igit (gfi (iw cw) r)); [now apply inv_stage| |]; unfold gfi; rewrite iloc_set_same by exact Li; intros; rewrite kget_kins.
        -- destruct (Nat.eqb_spec e' k); [congruence|reflexivity].
        -- now rewrite Nat.eqb_refl.
      * intros r' Hne. now apply iloc_set_other.
      * rewrite iloc_set_same by exact Li. now apply ksorted_kins.
      * cbn. now apply length_set_nth.
    + inversion H; subst; clear H. now apply CI_cache_only.
  - inversion H; subst; clear H. apply CI_cache_only; auto. cbn [ci]. now apply inv_resolve.
  - (* new bug *)
    destruct (sstep (gw cw) (ECommit r None [Pk id au ops])) as [[sw' o]|] eqn:Hs; [|discriminate].
    destruct (sstep_frame (gw cw) (ECommit r None [Pk id au ops]) sw' o W I Hs) as (W' & Fo & Fe & _). cbn [erep ev_ent] in *.
    destruct o; try (inversion H; subst; exact Ic).
    destruct (gfb sw' r (length (st (ww (gw cw))))) as [b|] eqn:G; [|discriminate]. inversion H; subst; clear H.
    apply CI_update; auto; try apply Ic. cbn [cb ci]. apply (inv_added bgit (gfb (gw cw) r)); auto.
  - inversion H; subst; clear H. apply CI_cache_only; auto. cbn [cb]. unfold bresolve. cbn [v_keep_newest fixed]. now apply inv_resolve.
  - inversion H; subst; clear H. apply CI_cache_only; auto. cbn [cb]. now apply inv_stage.
  - (* commit *)
    destruct (kget e (sl (cb (ucache_of cw r)))) as [m|] eqn:Em; [|inversion H; subst; exact Ic].
    destruct (negb (is_dirty m)); [inversion H; subst; exact Ic|].
    exact (commit_loaded_CI cw r e id au m cw' out Ic Lr H).
  - (* commit as needed *)
    destruct (kget e (sl (cb (ucache_of cw r)))) as [m|] eqn:Em; [|inversion H; subst; exact Ic].
    destruct (is_dirty m); [exact (commit_loaded_CI cw r e id au m cw' out Ic Lr H)|].
    inversion H; subst; clear H. apply CI_cache_only; auto. cbn [cb]. now apply inv_updated.
  - (* identity: commit as needed *)
    set (c1 := resolve true cap (gfi (iw cw) r k) k (ci (ucache_of cw r))) in *.
    assert (I1 : inv (gfi (iw cw) r) c1) by (apply inv_resolve; exact Ii).
    destruct (kget k (sl c1)) as [m|] eqn:Em; [|inversion H; subst; clear H; now apply CI_cache_only].
    destruct (is_dirty m).
    + inversion H; subst; clear H. apply CI_update; auto.
      * apply (inv_committed igit (gfi (iw cw) r)); [exact I1| |]; unfold gfi; rewrite iloc_set_same by exact Li; intros; rewrite kget_kins.
        -- destruct (Nat.eqb_spec e' k); [congruence|reflexivity].
        -- now rewrite Nat.eqb_refl.
      * intros r' Hne. now apply iloc_set_other.
      * rewrite iloc_set_same by exact Li. now apply ksorted_kins.
      * cbn. now apply length_set_nth.
    + inversion H; subst; clear H. apply CI_cache_only; auto. cbn [ci]. now apply inv_updated.
  - (* push *)
    destruct (ipush_ok _ _); [|inversion H; subst; exact Ic].
    destruct (sstep (gw cw) (EPush r)) as [[sw' o]|] eqn:Hs; [|discriminate].
    destruct (sstep_frame (gw cw) (EPush r) sw' o W I Hs) as (W' & Fo & Fe & Sw). cbn [erep ev_ent] in *.
    destruct o; try (inversion H; subst; exact Ic). inversion H; subst; clear H.
    assert (E : ucs cw = set_nth r (ucache_of cw r) (ucs cw)) by (symmetry; now apply set_nth_nth_id).
    rewrite E. apply CI_update; auto.
    + apply (inv_ext _ (gfb (gw cw) r)); [|exact Ib]. intros e0. now apply gfb_same_ww.
    + exact (Is r).
  - (* pull *)
    destruct (sstep (gw cw) (EFetch r)) as [[sw1 o1]|] eqn:Hs; [|discriminate].
    destruct (sstep_frame (gw cw) (EFetch r) sw1 o1 W I Hs) as (W1 & _ & _ & Sw). cbn [erep ev_ent] in *.
    set (iw1 := {| i_loc := i_loc (iw cw); i_trk := set_nth r (koverride (itrk (iw cw) r) (i_rem (iw cw))) (i_trk (iw cw)); i_rem := i_rem (iw cw) |}) in *.
    destruct (fold_left (imerge1 fixed r) ims (iw1, ci (ucache_of cw r), [])) as [[iw2 ci2] iouts] eqn:FI.
    destruct (fold_left (bmerge1 fixed r) bms (Some (sw1, cb (ucache_of cw r), []))) as [[[sw2 cb2] bouts]|] eqn:FB; [|discriminate].
    inversion H; subst; clear H.
    assert (Ii1 : inv (gfi iw1 r) (ci (ucache_of cw r))) by exact Ii.
    destruct (imerge_fold_inv r ims iw1 _ _ iw2 ci2 iouts Li (Is r) Ii1 FI) as (L2 & S2 & I2 & F2).
    assert (Ib1 : inv (gfb sw1 r) (cb (ucache_of cw r))).
    { apply (inv_ext _ (gfb (gw cw) r)); [|exact Ib]. intros e0. now apply gfb_same_ww. }
    destruct (bmerge_fold_inv r bms sw1 _ _ sw2 cb2 bouts W1 Ib1 FB) as (W2 & Ib2 & Fb2).
    apply CI_update; auto.
    intros r' e0 Hne. rewrite (Fb2 r' e0 Hne). now apply gfb_same_ww.
  - (* remove *)
    destruct (kget e (sx (cb (ucache_of cw r)))); [|inversion H; subst; exact Ic].
    destruct (sstep (gw cw) (ERemove r e)) as [[sw' o]|] eqn:Hs; [|discriminate].
    destruct (sstep_frame (gw cw) (ERemove r e) sw' o W I Hs) as (W' & Fo & Fe & Sr). cbn [erep ev_ent] in *.
    inversion H; subst; clear H. apply CI_update; auto; try apply Ic. cbn [cb ci].
    apply (inv_removed bgit (gfb (gw cw) r)); auto. unfold bresolve. cbn [v_keep_newest fixed]. now apply inv_resolve.
  - (* reopen *)
    destruct (quiescentb (cb (ucache_of cw r)) && quiescentb (ci (ucache_of cw r))) eqn:Q; cbn [negb] in H; [|discriminate].
    apply andb_true_iff in Q as [Qb Qi]. apply quiescentb_spec in Qb, Qi.
    assert (DROP : forall (G : Type) gf (c : sub G), inv gf c -> SubCache.quiescent c ->
              count_ok (if Nat.eqb wipe 2 then {| sx := sx c; si := []; sl := sl c; slru := slru c |} else c) = true ->
              inv gf (reloaded (if Nat.eqb wipe 2 then {| sx := sx c; si := []; sl := sl c; slru := slru c |} else c))).
    { intros G gf c Iv Qc Hc. destruct (Nat.eqb wipe 2); [|now apply inv_reloaded].
      unfold count_ok in Hc. cbn [si sx] in Hc. apply Nat.eqb_eq in Hc. cbn [length] in Hc. symmetry in Hc. apply length_zero_iff_nil in Hc.
      apply inv_reloaded; [|exact Qc]. destruct Iv as [A B C D E]. split; cbn [sx si sl]; auto; [|apply ksorted_nil].
      intros e. unfold view. cbn [sl]. fold (view gf c e). rewrite <- A, Hc. reflexivity. }
    match type of H with (if ?c then _ else _) = _ => destruct c eqn:Hc end; inversion H; subst; clear H; apply CI_cache_only; auto; cbn [cb ci].
    + rewrite !andb_true_iff in Hc. destruct Hc as [[_ H1] H2]. now apply DROP.
    + rewrite !andb_true_iff in Hc. destruct Hc as [[_ H1] H2]. now apply DROP.
    + apply (inv_ext _ (fun e => kget e (bug_git cw r))); [intros e; now rewrite kget_bug_git|]. apply inv_rebuilt, ksorted_bug_git.
    + apply (inv_rebuilt igit (iloc (iw cw) r)). apply Is.
Qed.
Print Assumptions cstep_CI.

Lemma crun_CI cap : forall evs cw cw', CI cw -> crun fixed cap cw evs = Some cw' -> CI cw'.
Proof. induction evs as [|ev t IH]; intros cw cw' I H; cbn [crun] in H; [now inversion H; subst|].
  destruct (cstep fixed cap cw ev) as [[cw1 o]|] eqn:E; [|discriminate]. eapply IH; [|exact H]. eapply cstep_CI; eauto. Qed.

(* ---------------- C11 ---------------- *)

(* every reachable quiescent state of the repaired code is coherent *)
Theorem C11_coherent n cap evs cw : crun fixed cap (cw0 n) evs = Some cw ->
  forall r, r < length (ucs cw) -> quiescent cw r -> coherent cw r.
Proof. intros H r Lr [Qb Qi]. pose proof (crun_CI cap evs _ _ (CI_cw0 n) H) as I. split.
  - apply inv_coherent; [apply ksorted_bug_git| |exact Qb].
    apply (inv_ext _ (gfb (gw cw) r)); [intros e; apply kget_bug_git|]. now apply (ci_bug cw I).
  - apply inv_coherent; [apply (ci_isorted cw I)| |exact Qi]. now apply (ci_id cw I). Qed.
Print Assumptions C11_coherent.

(* what a cache serves: the excerpts, the index documents and what Resolve hands out, per entity kind.
   Listings, known labels, query results, search hits and metadata lookups are functions of the first two
   (K_C11.answers makes them explicit); resolved state is the third. *)
Definition bug_served (cw : cworld) (r : nat) (c : sub bgit) (e : nat) := served (gfb (gw cw) r) c e.
Definition id_served (cw : cworld) (r : nat) (c : sub igit) (k : nat) := served (gfi (iw cw) r) c k.

Theorem C11_views_equal cw r : coherent cw r ->
  let u := ucache_of cw r in let rb := rebuilt (bug_git cw r) in let ri := rebuilt (id_git cw r) in
  sx (cb u) = sx rb /\ si (cb u) = si rb /\ (forall e, bug_served cw r (cb u) e = bug_served cw r rb e) /\
  sx (ci u) = sx ri /\ si (ci u) = si ri /\ (forall k, id_served cw r (ci u) k = id_served cw r ri k).
Proof. intros [Hb Hi] u rb ri. destruct (coherent_served bgit _ _ Hb) as (A & B & C). destruct (coherent_served igit _ _ Hi) as (D & E & F).
  split; [exact A|]. split; [exact B|]. split; [|split; [exact D|split; [exact E|exact F]]].
  intros e. unfold bug_served. specialize (C e). unfold served in *. rewrite kget_bug_git in C. exact C. Qed.
Print Assumptions C11_views_equal.

Corollary C11_any_view cw r (X : Type) (F : kmap (ment bgit) -> kmap (ment bgit) -> kmap (ment igit) -> kmap (ment igit) -> X) : coherent cw r ->
  let u := ucache_of cw r in
  F (sx (cb u)) (si (cb u)) (sx (ci u)) (si (ci u)) =
  F (rebuild (bug_git cw r)) (rebuild (bug_git cw r)) (rebuild (id_git cw r)) (rebuild (id_git cw r)).
Proof. intros H u. destruct (C11_views_equal cw r H) as (A & B & _ & D & E & _). cbn in A, B, D, E. unfold u. now rewrite A, B, D, E. Qed.

(* after a pull (as after anything else) every bug and identity the replica has, new or updated, is listed,
   searchable and resolvable with exactly its merged state, without a rebuild *)
Theorem C11_pull_visible n cap evs r ims bms cw : crun fixed cap (cw0 n) (evs ++ [VPull r ims bms]) = Some cw ->
  r < length (ucs cw) -> quiescent cw r ->
  (forall e b, gfb (gw cw) r e = Some b ->
     kget e (sx (cb (ucache_of cw r))) = Some (clean b) /\ kget e (si (cb (ucache_of cw r))) = Some (clean b) /\
     bug_served cw r (cb (ucache_of cw r)) e = Some (clean b)) /\
  (forall k l, gfi (iw cw) r k = Some l ->
     kget k (sx (ci (ucache_of cw r))) = Some (clean l) /\ id_served cw r (ci (ucache_of cw r)) k = Some (clean l)).
Proof. intros H Lr Q. pose proof (C11_coherent n cap _ cw H r Lr Q) as C. destruct (C11_views_equal cw r C) as (A & B & S & D & E & T). split.
  - intros e b G. rewrite A, B, S. unfold bug_served, served, rebuilt, rebuild. cbn [sx si sl]. rewrite !kget_kmapv, kget_bug_git, G. cbn. auto.
  - intros k l G. rewrite D, T. unfold id_served, served, rebuilt, rebuild. cbn [sx si sl]. rewrite !kget_kmapv. unfold id_git. unfold gfi in G. rewrite G. cbn. auto. Qed.
Print Assumptions C11_pull_visible.

(* a loaded bug is always the one its ref points to, with exactly the operations read from it:
   the next commit made through the cache has the merged head as parent *)
Theorem C11_edit_after_merge_builds_on_merge n cap evs cw : crun fixed cap (cw0 n) evs = Some cw ->
  forall r, r < length (ucs cw) -> forall e m, kget e (sl (cb (ucache_of cw r))) = Some m ->
  gfb (gw cw) r e = Some (m_base m) /\ alookup e (locals (ww (gw cw)) r) = Some (fst (m_base m)).
Proof. intros H r Lr e m Em. pose proof (crun_CI cap evs _ _ (CI_cw0 n) H) as I.
  pose proof (inv_sl _ _ _ (ci_bug cw I r Lr) e m Em) as G. split; [exact G|].
  unfold gfb in G. destruct (alookup e (locals (ww (gw cw)) r)) as [h|]; [|discriminate]. cbn in G. inversion G. reflexivity. Qed.
Print Assumptions C11_edit_after_merge_builds_on_merge.

(* the commit itself: the staged operations become one pack whose only parent is the head the ref pointed to, and the ref
   moves there.  Together with the theorem above (that head is the one the loaded bug was read from, i.e. after a pull the merged
   head, whatever was staged when the pull arrived), every edit made through the cache is a child of the merged history. *)
Lemma sstep_commit_child sw r e id au ops sw' : WI sw -> sstep sw (ECommit r (Some e) [Pk id au ops]) = Some (sw', ODone) ->
  exists h, alookup e (locals (ww sw) r) = Some h /\ alookup e (locals (ww sw') r) = Some (length (st (ww sw))) /\ parents (st (ww sw')) (length (st (ww sw))) = [h].
Proof. intros W Hs. pose proof (wi_ww sw W) as WWw. cbn [sstep] in Hs.
  destruct (alookup e (locals (ww sw) r)) as [h|] eqn:El; [|discriminate].
  destruct (negb (valid (st (ww sw)) h)); [discriminate|].
  destruct (step (ww sw) (AWitness r h)) as [w1|] eqn:S1; [|discriminate]. cbn [commit_packs] in Hs.
  destruct (step w1 (AEdit r h id au ops)) as [w2|] eqn:S2; [|discriminate]. inversion Hs; subst. cbn [ww with_ww].
  exists h. split; [reflexivity|].
  pose proof (WI_step sw (AWitness r h) _ W I S1) as W1. pose proof (wi_ww _ W1) as WW1. cbn [ww with_ww] in WW1.
  rewrite locals_lh in El.
  assert (El1 : lh w1 r e = Some h) by (rewrite (step_lh_witness _ _ _ _ r e WWw S1); exact El).
  destruct (step_same_store _ _ _ WWw S1 I) as [Est _]. split.
  - rewrite locals_lh, (step_lh_edit w1 r h id au ops w2 e e WW1 S2 El1), Nat.eqb_refl. now rewrite Est.
  - cbn [step] in S2. destruct (nth_error (reps w1) r); [|discriminate]. destruct (negb _); [discriminate|]. inversion S2; subst. cbn [st].
    rewrite Est. unfold parents. rewrite nth_error_app2, Nat.sub_diag by lia. reflexivity. Qed.

Lemma commit_loaded_child cw r e id au m cw' : WI (gw cw) -> commit_loaded cw r e id au m = Some (cw', CDone) ->
  exists h, fst (m_base m) = h /\ alookup e (locals (ww (gw cw)) r) = Some h /\ alookup e (locals (ww (gw cw')) r) = Some (length (st (ww (gw cw)))) /\ parents (st (ww (gw cw'))) (length (st (ww (gw cw)))) = [h].
Proof. intros W Hs. unfold commit_loaded in Hs.
  destruct (alookup e (locals (ww (gw cw)) r)) as [h|] eqn:El; [|discriminate].
  destruct (Nat.eqb_spec h (fst (m_base m))) as [Eh|]; cbn [negb] in Hs; [|discriminate].
  destruct (sstep (gw cw) (ECommit r (Some e) [Pk id au (m_staged m)])) as [[sw' o]|] eqn:Ss; [|discriminate].
  destruct o; try discriminate. destruct (gfb sw' r e) as [b|]; [|discriminate]. inversion Hs; subst cw'; clear Hs. cbn [gw].
  destruct (sstep_commit_child _ _ _ _ _ _ _ W Ss) as (h' & A & B & C). rewrite El in A. inversion A; subst h'.
  exists h. auto. Qed.

Theorem C11_commit_is_child_of_loaded_head n cap evs cw r e id au cw' : crun fixed cap (cw0 n) evs = Some cw ->
  cstep fixed cap cw (VCommit r e id au) = Some (cw', CDone) ->
  exists h m, kget e (sl (cb (ucache_of cw r))) = Some m /\ fst (m_base m) = h /\ alookup e (locals (ww (gw cw)) r) = Some h /\ alookup e (locals (ww (gw cw')) r) = Some (length (st (ww (gw cw)))) /\ parents (st (ww (gw cw'))) (length (st (ww (gw cw)))) = [h].
Proof. intros H Hs. pose proof (crun_CI cap evs _ _ (CI_cw0 n) H) as Ic. pose proof (ci_wi cw Ic) as W.
  unfold cstep in Hs. cbn [rep_ev] in Hs. destruct (negb (Nat.ltb r (length (ucs cw)))); [discriminate|].
  destruct (kget e (sl (cb (ucache_of cw r)))) as [m|] eqn:Em; [|discriminate].
  destruct (negb (is_dirty m)); [discriminate|].
  destruct (commit_loaded_child _ _ _ _ _ _ _ W Hs) as (h & A & B & C & D). exists h, m. auto. Qed.
Print Assumptions C11_commit_is_child_of_loaded_head.

(* CommitAsNeeded (what the terminal UI and the bridge exporters save with): with staged operations it is Commit; with nothing staged
   it succeeds, writes nothing to git and changes nothing of what the cache serves: the excerpt and the index document recomputed by
   entityUpdated are the ones already there (only the LRU order moves) *)
Lemma kins_same {A} e (v : A) m : ksorted m -> kget e m = Some v -> kins e v m = m.
Proof. intros S H. apply ksorted_ext; [now apply ksorted_kins|exact S|]. intros e'. rewrite kget_kins. destruct (Nat.eqb_spec e' e) as [->|]; congruence. Qed.

Lemma ucache_of_set_uc_same cw r u : r < length (ucs cw) -> ucache_of (set_uc cw r u) r = u.
Proof. intros H. unfold ucache_of, set_uc. cbn [ucs]. now apply (ucache_of_set_same cw r u _ H eq_refl). Qed.

Theorem C11_commit_as_needed n cap evs cw r e id au m : crun fixed cap (cw0 n) evs = Some cw -> r < length (ucs cw) ->
  kget e (sl (cb (ucache_of cw r))) = Some m ->
  (is_dirty m = true -> cstep fixed cap cw (VCommitAsNeeded r e id au) = cstep fixed cap cw (VCommit r e id au)) /\
  (is_dirty m = false -> exists cw', cstep fixed cap cw (VCommitAsNeeded r e id au) = Some (cw', CDone) /\ gw cw' = gw cw /\ iw cw' = iw cw /\
     sx (cb (ucache_of cw' r)) = sx (cb (ucache_of cw r)) /\ si (cb (ucache_of cw' r)) = si (cb (ucache_of cw r)) /\
     sl (cb (ucache_of cw' r)) = sl (cb (ucache_of cw r)) /\ ci (ucache_of cw' r) = ci (ucache_of cw r) /\
     forall r', r' <> r -> ucache_of cw' r' = ucache_of cw r').
Proof. intros H Lr Em. pose proof (crun_CI cap evs _ _ (CI_cw0 n) H) as Ic. pose proof (ci_bug cw Ic r Lr) as Ib.
  unfold cstep. cbn [rep_ev]. destruct (Nat.ltb_spec r (length (ucs cw))) as [_|]; [|lia]. cbn [negb]. rewrite Em. split; intros D; rewrite D; cbn [negb]; [reflexivity|].
  eexists. split; [reflexivity|]. split; [reflexivity|]. split; [reflexivity|].
  rewrite ucache_of_set_uc_same by exact Lr. cbn [cb ci]. unfold updated. rewrite Em. cbn [sx si sl].
  destruct Ib as [A B C S1 S2]. pose proof (C e m Em) as Ge.
  assert (V : view (gfb (gw cw) r) (cb (ucache_of cw r)) e = Some m) by (unfold view; now rewrite Ge, Em).
  split; [apply kins_same; [exact S1|now rewrite A]|]. split; [apply kins_same; [exact S2|now rewrite B]|]. split; [reflexivity|]. split; [reflexivity|].
  intros r' Hne. unfold ucache_of, set_uc. cbn [ucs]. now apply (ucache_of_set_other cw r r' _ _ Lr eq_refl). Qed.
Print Assumptions C11_commit_as_needed.


(* ---------------- the code as found: concrete sessions ending in a quiescent, incoherent state ---------------- *)
Definition quiescentb_at (cw : cworld) (r : nat) : bool := quiescentb (cb (ucache_of cw r)) && quiescentb (ci (ucache_of cw r)).
Lemma quiescentb_at_spec cw r : quiescentb_at cw r = true -> quiescent cw r.
Proof. unfold quiescentb_at. intros H. apply andb_true_iff in H as [A B]. split; now apply quiescentb_spec. Qed.

Definition refuted (V : variant) (cap : nat) : Prop :=
  exists evs cw r, crun V cap (cw0 2) evs = Some cw /\ r < length (ucs cw) /\ quiescent cw r /\ ~ coherent cw r.

(* user 0 creates a bug and pushes; user 1 pulls it: the new bug has no index document *)
Definition witness_index : list cev :=
  [VIdNew 0 0 1%N; VNew 0 10%N 1%N [100%N]; VPush 0; VIdNew 1 1 2%N; VPull 1 [0] [(0, 0%N, 0%N)]].
Theorem index_on_merge_refuted :
  refuted {| v_index_merged := false; v_ident_updated := true; v_merge_result := true; v_keep_newest := true |} 2.
Proof. exists witness_index. eexists. exists 1. split; [vm_compute; reflexivity|]. split; [cbn; lia|]. split; [apply quiescentb_at_spec; vm_compute; reflexivity|].
  intros [(_ & Hi & _) _]. vm_compute in Hi. discriminate. Qed.

(* user 0 renames himself after user 1 got his identity: user 1's next pull moves the ref but not the cache *)
Definition witness_identity : list cev :=
  [VIdNew 0 0 1%N; VPush 0; VIdNew 1 1 2%N; VPull 1 [0] []; VIdUpd 0 0 3%N; VPush 0; VPull 1 [0] []].
Theorem identity_merge_refuted :
  refuted {| v_index_merged := true; v_ident_updated := false; v_merge_result := true; v_keep_newest := true |} 2.
Proof. exists witness_identity. eexists. exists 1. split; [vm_compute; reflexivity|]. split; [cbn; lia|]. split; [apply quiescentb_at_spec; vm_compute; reflexivity|].
  intros [_ (Hx & _)]. vm_compute in Hx. discriminate. Qed.

(* both users edit the same bug; the pull that writes the merge commit leaves the pre-merge entity loaded *)
Definition witness_merge : list cev :=
  [VIdNew 0 0 1%N; VNew 0 10%N 1%N [100%N]; VPush 0; VIdNew 1 1 2%N; VPull 1 [0] [(0, 0%N, 0%N)];
   VResolve 0 0; VStage 0 0 101%N; VCommit 0 0 11%N 1%N; VPush 0;
   VResolve 1 0; VStage 1 0 201%N; VCommit 1 0 12%N 2%N; VPull 1 [0] [(0, 13%N, 2%N)]].
Theorem merge_result_refuted :
  refuted {| v_index_merged := true; v_ident_updated := true; v_merge_result := false; v_keep_newest := true |} 2.
Proof. exists witness_merge. eexists. exists 1. split; [vm_compute; reflexivity|]. split; [cbn; lia|]. split; [apply quiescentb_at_spec; vm_compute; reflexivity|].
  intros [(Hx & _) _]. vm_compute in Hx. discriminate. Qed.

(* capacity 1, the only loaded bug has a staged operation: the bug created next is evicted before its excerpt is written *)
Definition witness_evict : list cev :=
  [VIdNew 0 0 1%N; VNew 0 10%N 1%N [100%N]; VResolve 0 0; VStage 0 0 101%N; VNew 0 11%N 1%N [102%N]; VCommit 0 0 12%N 1%N].
Theorem evict_newest_refuted :
  refuted {| v_index_merged := true; v_ident_updated := true; v_merge_result := true; v_keep_newest := false |} 1.
Proof. exists witness_evict. eexists. exists 0. split; [vm_compute; reflexivity|]. split; [cbn; lia|]. split; [apply quiescentb_at_spec; vm_compute; reflexivity|].
  intros [(Hx & _) _]. vm_compute in Hx. discriminate. Qed.

(* non-vacuity: the same four sessions run to the end under the repaired code (and are then coherent by C11_coherent);
   in the third one the edit made after the merge is a child of the merge commit and the bug reads with both users' operations *)
Example witnesses_run_fixed :
  (exists cw, crun fixed 2 (cw0 2) witness_index = Some cw) /\ (exists cw, crun fixed 2 (cw0 2) witness_identity = Some cw) /\
  (exists cw, crun fixed 1 (cw0 2) witness_evict = Some cw) /\
  (exists cw, crun fixed 2 (cw0 2) (witness_merge ++ [VResolve 1 0; VStage 1 0 202%N; VCommit 1 0 14%N 2%N]) = Some cw /\
              quiescentb_at cw 1 = true /\
              gfb (gw cw) 1 0 = Some (4, [100%N; 101%N; 201%N; 202%N]) /\ parents (st (ww (gw cw))) 4 = [3] /\ parents (st (ww (gw cw))) 3 = [2; 1]).
Proof. repeat split; try (eexists; vm_compute; reflexivity). eexists. split; [vm_compute; reflexivity|]. repeat split; vm_compute; reflexivity. Qed.

(* a pull that updates a bug loaded with an uncommitted operation (201): under the repaired code the merged entity replaces the
   loaded one (the operation staged before the pull is dropped, as in cache/subcache.go MergeAll), the state is quiescent and
   coherent at once, and the next edit made through the cache is a child of the merged head *)
Definition witness_pull_over_staged : list cev :=
  [VIdNew 0 0 1%N; VNew 0 10%N 1%N [100%N]; VPush 0; VIdNew 1 1 2%N; VPull 1 [0] [(0, 0%N, 0%N)];
   VResolve 1 0; VStage 1 0 201%N;
   VResolve 0 0; VStage 0 0 101%N; VCommit 0 0 11%N 1%N; VPush 0;
   VPull 1 [0] [(0, 0%N, 0%N)]].
Example pull_over_staged_runs_fixed :
  (exists cw, crun fixed 2 (cw0 2) witness_pull_over_staged = Some cw /\ quiescentb_at cw 1 = true /\
              kget 0 (sl (cb (ucache_of cw 1))) = Some (clean (1, [100%N; 101%N]))) /\
  (exists cw, crun fixed 2 (cw0 2) (witness_pull_over_staged ++ [VResolve 1 0; VStage 1 0 202%N; VCommit 1 0 12%N 2%N]) = Some cw /\
              gfb (gw cw) 1 0 = Some (2, [100%N; 101%N; 202%N]) /\ parents (st (ww (gw cw))) 2 = [1]).
Proof. split; (eexists; split; [vm_compute; reflexivity|]; repeat split; vm_compute; reflexivity). Qed.

(* saving with CommitAsNeeded: two bugs, the older one is edited and saved with CommitAsNeeded (one commit, child of its head), then
   CommitAsNeeded again with nothing staged on the bug and on the identity: success, nothing written, same excerpts *)
Definition witness_commit_as_needed : list cev :=
  [VIdNew 0 0 1%N; VNew 0 10%N 1%N [100%N]; VNew 0 11%N 1%N [102%N]; VResolve 0 0; VStage 0 0 101%N; VCommitAsNeeded 0 0 12%N 1%N].
Example commit_as_needed_runs_fixed :
  (exists cw, crun fixed 2 (cw0 2) witness_commit_as_needed = Some cw /\ quiescentb_at cw 0 = true /\
              gfb (gw cw) 0 0 = Some (2, [100%N; 101%N]) /\ parents (st (ww (gw cw))) 2 = [0] /\
              kget 0 (sx (cb (ucache_of cw 0))) = Some (clean (2, [100%N; 101%N])) /\
              exists cw', cstep fixed 2 cw (VCommitAsNeeded 0 0 0%N 0%N) = Some (cw', CDone) /\ gw cw' = gw cw /\
                          sx (cb (ucache_of cw' 0)) = sx (cb (ucache_of cw 0)) /\
                          exists cw'', cstep fixed 2 cw' (VIdCommitAsNeeded 0 0) = Some (cw'', CDone) /\ iw cw'' = iw cw /\
                                       sx (ci (ucache_of cw'' 0)) = sx (ci (ucache_of cw 0))).
Proof. eexists. split; [vm_compute; reflexivity|]. repeat split; try (vm_compute; reflexivity).
  eexists. split; [vm_compute; reflexivity|]. repeat split; try (vm_compute; reflexivity).
  eexists. split; [vm_compute; reflexivity|]. split; vm_compute; reflexivity. Qed.

Local Open Scope N_scope.

(* ---------------- Identity.Commit and the reference (audit C11-A4) ---------------- *)
(* An in-memory identity knows the committed versions `known` and has the uncommitted versions `news`; the reference holds the chain `ref`
   (a version commit determines the chain below it).  Commit writes `news` on top of `known` and moves the reference there.
   guard = true is the repaired code: refused unless the reference points to one of the versions the object knows (ref is a prefix of known);
   guard = false is the code as found. *)
Definition id_commit (guard : bool) (ref known news : list N) : option (list N) :=
  if guard && negb (prefixb ref known) then None else Some (known ++ news).

Lemma prefixb_spec : forall a b, prefixb a b = true -> exists s, b = a ++ s.
Proof. induction a as [|x a IH]; intros b H; [exists b; reflexivity|].
  destruct b as [|y b]; [discriminate|]. cbn in H. apply andb_true_iff in H as [E P]. apply N.eqb_eq in E. subst y.
  destruct (IH b P) as [s ->]. exists s. reflexivity. Qed.

Theorem id_commit_keeps_versions ref known news l : id_commit true ref known news = Some l -> exists s, l = ref ++ s.
Proof. unfold id_commit. cbn. destruct (prefixb ref known) eqn:P; cbn; [|discriminate]. intros E. inversion E.
  destruct (prefixb_spec _ _ P) as [s ->]. exists (s ++ news). now rewrite app_assoc. Qed.

Theorem id_commit_unguarded_refuted : exists ref known news l, id_commit false ref known news = Some l /\ ~ exists s, l = ref ++ s.
Proof. exists [1; 3], [1], [2], [1; 2]. split; [reflexivity|]. intros [s H]. cbn in H. inversion H. Qed.

(* ---------------- RepoCache.Pull and the merge results (audit C11-A3) ---------------- *)
(* the results Pull reads from MergeAll (the sub-caches register a merged entity only while their results are read);
   drain = false is the code as found: it returns at the first refused entity *)
Definition st_invalid (s : mstatus) : bool := match s with MInvalid => true | _ => false end.
Fixpoint pull_read (drain : bool) (rs : list mstatus) : list mstatus :=
  match rs with [] => [] | s :: t => s :: (if negb drain && st_invalid s then [] else pull_read drain t) end.
Theorem pull_reads_every_result rs : pull_read true rs = rs.
Proof. induction rs as [|s t IH]; cbn; [reflexivity|]. now rewrite IH. Qed.
Theorem pull_early_return_refuted : exists rs, In MNew rs /\ ~ In MNew (pull_read false rs).
Proof. exists [MInvalid; MNew]. split; [cbn; auto|]. cbn. intros [H|[]]. discriminate. Qed.

(* user 1's identity gets a version on both sides (user 0 renames it locally, user 1 renames it and publishes it together with a new bug):
   the pull of user 0 reports the identity as refused and the bug as new, and the bug is listed, indexed and resolvable at once *)
Definition witness_refused_pull : list cev :=
  [VIdNew 0 0 1%N; VIdNew 1 1 2%N; VPush 1; VPull 0 [1%nat] []; VIdUpd 0 1 5%N; VIdUpd 1 1 4%N; VNew 1 10%N 2%N [100%N]; VPush 1].
Example refused_pull_runs_fixed :
  exists cw, crun fixed 2 (cw0 2) witness_refused_pull = Some cw /\
  exists cw', cstep fixed 2 cw (VPull 0 [1%nat] [(0%nat, 0%N, 0%N)]) = Some (cw', CPulled [MInvalid] [MNew]) /\
              quiescentb_at cw' 0 = true /\
              gfi (iw cw') 0 1 = Some [2%N; 5%N] /\
              kget 0 (sx (cb (ucache_of cw' 0))) = Some (clean (0%nat, [100%N])) /\
              kget 0 (si (cb (ucache_of cw' 0))) = Some (clean (0%nat, [100%N])) /\
              bug_served cw' 0 (cb (ucache_of cw' 0)) 0 = Some (clean (0%nat, [100%N])).
Proof. eexists. split; [vm_compute; reflexivity|]. eexists. split; [vm_compute; reflexivity|]. repeat split; vm_compute; reflexivity. Qed.

