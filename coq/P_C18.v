(* C18 — concurrent use of one cache loses no acknowledged edit. Property theorems only.
   Two machines: Conc.v (reader/writer locks of the cache calls, deadlock) and CacheConc.v (data, sections of
   the code as steps). What no model shows: the Go memory model, sync internals, go-git's thread safety. *)
From Coq Require Import List Arith Bool.
Import ListNotations.
From GB Require Import Conc CacheConc CacheExcerpt CachePersist CacheLru CacheClock.

(* For every schedule of any number of threads running any cache calls on the repaired cache, from any good
   state: every acknowledged operation occurs exactly once in the final stored history of its bug *)
Theorem C18_no_lost_ack c0 sched : Good c0 -> let c := run true sched c0 in
  forall th r, In th (snd c) -> In r (results th) -> ackedb r = true ->
  count_occ Nat.eq_dec (stored (fst c) (r_bug r)) (r_op r) = 1.
Proof. exact (no_lost_ack c0 sched). Qed.
Print Assumptions C18_no_lost_ack.

(* ... the history of a bug only ever grows at its end (it stays one chain, nothing is rewritten) *)
Theorem C18_history_append_only c0 sched : Good c0 -> forall b ch, git (fst c0) b = Some ch ->
  exists e, git (fst (run true sched c0)) b = Some (ch ++ e).
Proof. exact (history_append_only c0 sched). Qed.
Print Assumptions C18_history_append_only.

(* ... and contains each operation at most once, and only operations that were issued *)
Theorem C18_stored_once_issued c0 sched : Good c0 -> let c := run true sched c0 in
  forall b, NoDup (stored (fst c) b) /\ forall o, In o (stored (fst c) b) -> o < nextop (fst c).
Proof. exact (stored_once_and_issued c0 sched). Qed.
Print Assumptions C18_stored_once_issued.

(* the form evaluated by K_C18.C18_allowed on the implementation's outcome *)
Theorem C18_allowed_acks c0 sched : Good c0 -> let c := run true sched c0 in
  acks_stored_once (flat_map results (snd c)) (stored (fst c)) = true.
Proof. exact (allowed_acks c0 sched). Qed.
Print Assumptions C18_allowed_acks.

Theorem C18_error_classes fixed n m progs sched : let c := run fixed sched (init_cold n m, map thread_of progs) in
  classes_ok (flat_map results (snd c)) = true.
Proof. exact (allowed_classes fixed n m progs sched). Qed.
Print Assumptions C18_error_classes.

(* the hypothesis is satisfiable: any number of stored bugs, a freshly opened cache, any programs *)
Theorem C18_initial_state_good n m progs : Good (init_cold n m, map thread_of progs).
Proof. exact (init_good n m progs). Qed.
Print Assumptions C18_initial_state_good.

(* "the cache agrees with a rebuild", the excerpts (what Query, ResolveExcerpt and the bug lists show): for every
   schedule of any programs on a cache that was just opened, in every state that is reached and for every bug,
   the excerpt is the one of the entity the cache hands out (staged operations included), or some thread still has
   to run the entityUpdated of its change, or a call about that bug failed inside entityUpdated / add *)
Theorem C18_excerpts_fresh n m progs sched b : let c := run true sched (init_cold n m, map thread_of progs) in
  excerpt (fst c) b = truth_s (fst c) b \/
  exists t th, nth_error (snd c) t = Some th /\ (owes (insts (fst c)) th b \/ failed th b).
Proof. exact (excerpts_fresh n m progs sched b). Qed.
Print Assumptions C18_excerpts_fresh.

(* ... once the threads are done: a stale excerpt belongs to a bug about which a call returned 'entity missing from
   cache' (class 2: the entity was evicted under the caller) or add refused it (class 4); K_C18.C18_allowed *)
Theorem C18_excerpts_fresh_when_done n m progs sched b : let c := run true sched (init_cold n m, map thread_of progs) in
  (forall th, In th (snd c) -> code th = []) ->
  excerpt (fst c) b = truth_s (fst c) b \/ exists th, In th (snd c) /\ failed th b.
Proof. exact (excerpts_fresh_when_done n m progs sched b). Qed.
Print Assumptions C18_excerpts_fresh_when_done.

(* "the cache agrees with a rebuild", the cache files (what the next process loads instead of reading git): for any
   number of goroutines, any sequences of successful notifications (entityUpdated: change the excerpt under the write
   lock, then write(): serialise AND write the file under the read lock) and every schedule, in every state that is
   reached the file holds the excerpts of the cache, or some goroutine is between its change and its write *)
Theorem C18_saved_cache_fresh m progs sched : let c := prun sched (pinit m progs) in
  (forall b, pdisk c b = pmem c b) \/ exists th, In th (pths c) /\ powes th.
Proof. exact (saved_fresh m progs sched). Qed.
Print Assumptions C18_saved_cache_fresh.

(* ... once the goroutines are done (or all wait between two calls): the file is the cache; K_C18.C18_allowed *)
Theorem C18_saved_cache_fresh_when_done m progs sched : let c := prun sched (pinit m progs) in
  (forall th, In th (pths c) -> pcode th = []) -> forall b, pdisk c b = pmem c b.
Proof. exact (saved_fresh_when_done m progs sched). Qed.
Print Assumptions C18_saved_cache_fresh_when_done.

(* "each bug's stored history is a valid chain": every commit carries the time of the lamport clock <namespace>-edit, and
   a history reads back only if every commit is later than its parent. For any number of goroutines, any sequences of
   GetOrCreateClock (lookup, creation and registration of a missing clock under ONE hold of the lock of the clock table)
   and Increment, every schedule: an Increment that comes later hands out a later time; K_C18 checks it on every stored
   history (the commits of one bug are made one after the other, under the entity lock) *)
Theorem C18_edit_times_increasing progs sched : (forall p, In p progs -> Forall code_sec p) ->
  let tr := trace (fst (crun sched (cinit progs))) in
  forall i j a b, i < j -> nth_error tr i = Some a -> nth_error tr j = Some b -> a < b.
Proof. exact (times_increasing progs sched). Qed.
Print Assumptions C18_edit_times_increasing.

(* "no call deadlocks" on a bounded cache. An evicted entity is locked for ever, so a goroutine must never be handed,
   or left with, a handle the cache is about to evict while fewer entities are in use than it may hold. Resolve makes
   the entity the most recently used one; whatever is resolved (loaded, evicting others) or notified afterwards, as
   long as these are fewer than maxLoaded distinct other entities and nothing is staged when an entity is loaded, the
   entity is still loaded: the handle stays usable. (K_C18: runs of kind c_evict = 3 must not hang.) *)
Theorem C18_recent_handle_survives c st l b ops D :
  (forall x, st x = false) -> NoDup l ->
  (forall o, In o ops -> bug_of o <> b -> In (bug_of o) D) -> length D < c ->
  In b (lrun true st c (lstep true st c l (LResolve b)) ops).
Proof. exact (recent_handle_survives c st l b ops D). Qed.
Print Assumptions C18_recent_handle_survives.

(* Deadlock freedom, general form: threads that take reader/writer locks in strictly increasing rank (hence never
   re-enter one) and finish holding none can always make progress, for any number of threads *)
Theorem C18_deadlock_free (ts : list rthread) :
  (forall t, In t ts -> wo_rw (hl t) (rprog t)) -> existsb unfinishedb ts = true ->
  exists t, In t ts /\ enabledb ts t = true.
Proof. exact (C18_deadlock_free_rw ts). Qed.
Print Assumptions C18_deadlock_free.

(* instance: any threads running any sequences of the (repaired, non-evicting) cache calls on any bugs: no schedule is stuck *)
Theorem C18_cache_calls_deadlock_free (progs : list (list lcall)) (sched : list nat) :
  stuckb (rrun sched (map (fun p => mkrt [] (concat (map skel p))) progs)) = false.
Proof. exact (C18_cache_calls_never_stuck progs sched). Qed.
Print Assumptions C18_cache_calls_deadlock_free.

(* lock-protected sections exclude each other (what lets CacheConc take a section as one step) *)
Theorem C18_mutual_exclusion (ts : list rthread) (sched : list nat) :
  (forall t, In t ts -> hl t = []) -> consistent (rrun sched ts).
Proof. exact (C18_mutex ts sched). Qed.
Print Assumptions C18_mutual_exclusion.

(* --- refuted on the pinned code --- *)

(* RepoCacheBug.Query(nil) takes the read lock it already holds: stuck as soon as a writer is announced in between *)
Theorem C18_reentrant_rlock_refuted : exists sched,
  stuckb (rrun sched [mkrt [] sk_query_nil_pinned; mkrt [] (sk_notify 0)]) = true.
Proof. exact reentrant_rlock_stuck. Qed.
Print Assumptions C18_reentrant_rlock_refuted.

(* a full-text Query that resolves its hits through ResolveExcerpt (read lock taken again while held): same deadlock *)
Theorem C18_search_resolving_hits_refuted : exists sched,
  stuckb (rrun sched [mkrt [] sk_query_search_resolving; mkrt [] (sk_append 0)]) = true.
Proof. exact search_resolving_stuck. Qed.
Print Assumptions C18_search_resolving_hits_refuted.

(* an entityUpdated that computes the excerpt before it takes the write lock: two edits of one bug, everybody done,
   nobody failed, and the excerpt of the bug is not the one of its entity *)
Theorem C18_excerpts_fresh_refuted_split_notify : exists sched,
  let c := run true sched (init_cold 1 1000, [thread_of_code (code_edit_split 1); thread_of_code (code_edit_split 1)]) in
  quietb c && staleb (fst c) 1 = true.
Proof. exact split_notify_stale. Qed.
Print Assumptions C18_excerpts_fresh_refuted_split_notify.

(* a write() that gives the read lock back once the excerpts are serialised, before the file is written: two
   notifications about two different bugs, everybody done, and the file does not have the second change *)
Theorem C18_saved_cache_fresh_refuted_unlocked_write : exists sched,
  let c := prun sched (fun _ => 0, fun _ => 0,
                       [mkpthr (notify_unlocked (1, 7)) (fun _ => 0) false; mkpthr (notify_unlocked (2, 9)) (fun _ => 0) false]) in
  pdoneb c && pstaleb c 2 = true.
Proof. exact unlocked_write_stale. Qed.
Print Assumptions C18_saved_cache_fresh_refuted_unlocked_write.

(* a GetOrCreateClock that creates a missing clock after it gave the lock of the table back: two goroutines use the clock
   for the first time at once, each registers an instance of its own, the later registration restarts the clock: everybody
   done, and a later Increment handed out an earlier (or the same) time *)
Theorem C18_edit_times_refuted_unlocked_create : exists sched,
  let c := crun sched (cinit [get_unlocked ++ [CInc]; get_unlocked ++ [CInc] ++ get_unlocked ++ [CInc] ++ get_unlocked ++ [CInc]]) in
  forallb (fun th => match ccode th with [] => true | _ => false end) (snd c) && negb (increasingb (trace (fst c))) = true.
Proof. exact times_increasing_refuted_unlocked_create. Qed.
Print Assumptions C18_edit_times_refuted_unlocked_create.

(* a Resolve that hands out a loaded entity without marking it as recently used: the handle just taken is the one the
   next load evicts, with one other entity resolved in between and room for three *)
Theorem C18_recent_handle_refuted_no_refresh : exists c l b ops D,
  NoDup l /\ (forall o, In o ops -> bug_of o <> b -> In (bug_of o) D) /\ length D < c /\
  ~ In b (lrun false (fun _ => false) c (lstep false (fun _ => false) c l (LResolve b)) ops).
Proof. exact stale_position_handle_evicted. Qed.
Print Assumptions C18_recent_handle_refuted_no_refresh.

(* by design: the lock of an evicted instance is never released; the holder of such a handle waits for ever *)
Theorem C18_evicted_handle_refuted : exists sched,
  stuckb (rrun sched [mkrt [] (sk_evict 0); mkrt [] (sk_resolve_hit ++ sk_append 0)]) = true.
Proof. exact evicted_handle_stuck. Qed.
Print Assumptions C18_evicted_handle_refuted.

Theorem C18_evicted_handle_blocks_data : exists progs sched,
  blockedb true (run true sched (init_cold 2 1, map thread_of progs)) = true.
Proof. exact evicted_handle_blocks. Qed.
Print Assumptions C18_evicted_handle_blocks_data.

(* pinned Resolve (read outside the lock, install unconditionally): two goroutines that resolve a bug that is
   not loaded get two instances; an acknowledged operation is missing from the stored history *)
Theorem C18_no_lost_ack_refuted_pinned : exists progs sched,
  lostb (run false sched (init_cold 1 1000, map thread_of progs)) = true.
Proof. exact double_load_loses_ack. Qed.
Print Assumptions C18_no_lost_ack_refuted_pinned.

Example C18_same_schedule_repaired :
  lostb (run true ([0;0;0; 1;1;1; 0;0;0; 1;1;1] ++ repeat 0 10 ++ repeat 1 10) (init_cold 1 1000, map thread_of [[Edit 1 true]; [Edit 1 true]])) = false.
Proof. exact double_load_repaired. Qed.
