(* C14 — removing an entity removes all of it, only it, and is repeatable.

   Executable model of what git-bug keeps about its entities in one repository and of the code that
   deletes them:
     refs      refs/<ns>/<id> and refs/remotes/<remote>/<ns>/<id> (bugs, identities) and foreign refs,
     cache     excerpts (cache/<ns> files, in-memory maps) and bleve index documents,
     conf      the [git-bug] section of .git/config (identity option, other options, subsections) and foreign keys,
     files     what lies under .git/git-bug (by class).
   Actions transcribe entity/dag/entity_actions.go Remove/RemoveAll, entities/identity/identity_actions.go
   Remove/RemoveAll, cache/subcache.go Remove/RemoveAll (+ Load/Build), cache/repo_cache_common.go RemoveAll,
   commands/bug/bug_rm.go, commands/wipe.go, repository/gogit_config.go RemoveAll, and MergeAll without fetch.
   The transcriptions named *_v0 are the code before the first two repairs of this property, those named *_v1 the code
   before the four repairs that followed an audit of the tree (kept to state the defects). *)
From Coq Require Import List Arith NArith Bool Lia Sorting.Permutation.
Import ListNotations.

(* ------------------------------------------------------------------ names *)

Definition id := list N.                       (* an entity id or an id prefix: its text, as code points *)
Inductive kind := KBug | KIdent | KOther.      (* KOther: a ref that is not git-bug's *)
Inductive loc := Local | Track (r : N).        (* Track r: under refs/remotes/<r>/ *)
Record rname := mkrn { rk : kind; rl : loc; rid : id }.   (* for KOther, rid is the full ref name *)
Definition ent := (kind * id)%type.

Fixpoint id_eqb (a b : id) : bool :=
  match a, b with [], [] => true | x :: a', y :: b' => N.eqb x y && id_eqb a' b' | _, _ => false end.
Definition kind_eqb (a b : kind) : bool :=
  match a, b with KBug, KBug | KIdent, KIdent | KOther, KOther => true | _, _ => false end.
Definition loc_eqb (a b : loc) : bool :=
  match a, b with Local, Local => true | Track r, Track r' => N.eqb r r' | _, _ => false end.
Definition rname_eqb (a b : rname) : bool := kind_eqb (rk a) (rk b) && loc_eqb (rl a) (rl b) && id_eqb (rid a) (rid b).
Definition ent_eqb (a b : ent) : bool := kind_eqb (fst a) (fst b) && id_eqb (snd a) (snd b).

Lemma id_eqb_spec a b : reflect (a = b) (id_eqb a b).
Proof. revert b; induction a as [|x a IH]; destruct b as [|y b]; cbn; try (constructor; congruence).
  destruct (N.eqb_spec x y); cbn; [|constructor; congruence].
  destruct (IH b); constructor; congruence. Qed.
Lemma kind_eqb_spec a b : reflect (a = b) (kind_eqb a b).
Proof. destruct a, b; cbn; constructor; congruence. Qed.
Lemma loc_eqb_spec a b : reflect (a = b) (loc_eqb a b).
Proof. destruct a, b; cbn; try (constructor; congruence). destruct (N.eqb_spec r r0); constructor; congruence. Qed.
Lemma rname_eqb_spec a b : reflect (a = b) (rname_eqb a b).
Proof. destruct a as [k l i], b as [k' l' i']; unfold rname_eqb; cbn.
  destruct (kind_eqb_spec k k'); cbn; [|constructor; congruence].
  destruct (loc_eqb_spec l l'); cbn; [|constructor; congruence].
  destruct (id_eqb_spec i i'); constructor; congruence. Qed.
Lemma ent_eqb_spec a b : reflect (a = b) (ent_eqb a b).
Proof. destruct a as [k i], b as [k' i']; unfold ent_eqb; cbn.
  destruct (kind_eqb_spec k k'); cbn; [|constructor; congruence].
  destruct (id_eqb_spec i i'); constructor; congruence. Qed.

Lemma id_eqb_refl a : id_eqb a a = true.     Proof. destruct (id_eqb_spec a a); congruence. Qed.
Lemma kind_eqb_refl a : kind_eqb a a = true. Proof. destruct a; reflexivity. Qed.
Lemma loc_eqb_refl a : loc_eqb a a = true.   Proof. destruct (loc_eqb_spec a a); congruence. Qed.
Lemma rname_eqb_refl a : rname_eqb a a = true. Proof. destruct (rname_eqb_spec a a); congruence. Qed.
Lemma ent_eqb_refl a : ent_eqb a a = true.   Proof. destruct (ent_eqb_spec a a); congruence. Qed.

Definition memN (x : N) (l : list N) : bool := existsb (N.eqb x) l.
Lemma memN_In x l : memN x l = true <-> In x l.
Proof. unfold memN. rewrite existsb_exists. split.
  - intros [y [Hy E]]. apply N.eqb_eq in E. subst; assumption.
  - intros H. exists x. split; [assumption|apply N.eqb_refl]. Qed.
Definition mem_ent (e : ent) (l : list ent) : bool := existsb (ent_eqb e) l.
Lemma mem_ent_In e l : mem_ent e l = true <-> In e l.
Proof. unfold mem_ent. rewrite existsb_exists. split.
  - intros [y [Hy E]]. destruct (ent_eqb_spec e y); [subst; assumption|discriminate].
  - intros H. exists e. split; [assumption|apply ent_eqb_refl]. Qed.

(* strings.HasPrefix(id, p) *)
Fixpoint prefixb (p i : id) : bool :=
  match p, i with [], _ => true | x :: p', y :: i' => N.eqb x y && prefixb p' i' | _ :: _, [] => false end.

(* entity.Id.Validate: 64 characters, each of a-z or 0-9 *)
Definition id_char (c : N) : bool := (N.leb 97 c && N.leb c 122) || (N.leb 48 c && N.leb c 57).
Definition valid_id (i : id) : bool := Nat.eqb (length i) 64 && forallb id_char i.

(* What is git-bug's among the refs: everything under refs/<ns>/ (its own namespace, whatever the name), and under
   refs/remotes/<remote>/<ns>/ what is named by a valid id. The rest of refs/remotes/<remote>/<ns>/ is where git keeps
   the remote-tracking branches of the user's branches called <ns>/<something>. *)
Definition is_gbref (n : rname) : bool :=
  match rk n with
  | KOther => false
  | _ => match rl n with Local => true | Track _ => valid_id (rid n) end
  end.

(* ------------------------------------------------------------------ state *)

(* the [git-bug] section: option "identity" (its value is the user's identity id), other options (names),
   subsections as (subsection name, option name); name 0 stands for the text "identity". Foreign keys are tokens. *)
Record cfg := mkcfg { c_user : option id; c_opts : list N; c_subs : list (N * N); c_other : list N }.

Record st := mkst {
  remotes : list N;              (* configured remotes (names) *)
  refs : list (rname * N);       (* ref name -> commit *)
  exc : list (ent * N);          (* excerpts (content as a token) *)
  idx : list ent;                (* index documents *)
  conf : cfg;
  files : list N                 (* classes of files under .git/git-bug *)
}.

Definition with_refs (s : st) l := mkst (remotes s) l (exc s) (idx s) (conf s) (files s).
Definition with_cache (s : st) e i := mkst (remotes s) (refs s) e i (conf s) (files s).
Definition with_conf (s : st) c := mkst (remotes s) (refs s) (exc s) (idx s) c (files s).
Definition with_files (s : st) f := mkst (remotes s) (refs s) (exc s) (idx s) (conf s) f.

Inductive outcome := OOk | ENotFound | EMultiple | EOther.

(* file classes *)
Definition F_cache_b : N := 1. Definition F_cache_i : N := 2.
Definition F_idx_b : N := 3.   Definition F_idx_i : N := 4.
Definition F_clocks : N := 5.
Definition add_file (f : N) (l : list N) : list N := if memN f l then l else f :: l.
Definition add_files (fs l : list N) : list N := fold_right add_file l fs.

(* ------------------------------------------------------------------ refs: entity level *)

Definition remove_ref (m : rname) (l : list (rname * N)) := filter (fun p => negb (rname_eqb (fst p) m)) l.
Definition has_ref (m : rname) (l : list (rname * N)) : bool := existsb (fun p => rname_eqb (fst p) m) l.

(* dag.Remove: "refs/<ns>/<id>" then "refs/remotes/<remote>/<ns>/<id>" for each configured remote *)
Definition ent_targets (rs : list N) (k : kind) (i : id) : list rname :=
  mkrn k Local i :: map (fun r => mkrn k (Track r) i) rs.
Definition ent_remove_refs (rs : list N) (k : kind) (i : id) (l : list (rname * N)) :=
  fold_left (fun acc n => remove_ref n acc) (ent_targets rs k i) l.

(* Both validate the id first ("invalid id": nothing is touched). bug.Remove then never fails; identity.Remove reports
   NotFound when it finds none of the refs (a valid id has the full length, so its prefix listing
   "refs/identities/<id>*" is an exact match). *)
Definition ent_remove (k : kind) (i : id) (s : st) : st * outcome :=
  if negb (valid_id i) then (s, EOther) else
  match k with
  | KOther => (s, EOther)
  | KBug => (with_refs s (ent_remove_refs (remotes s) k i (refs s)), OOk)
  | KIdent => if existsb (fun n => has_ref n (refs s)) (ent_targets (remotes s) k i)
              then (with_refs s (ent_remove_refs (remotes s) k i (refs s)), OOk)
              else (s, ENotFound)
  end.

(* ListLocalIds *)
Definition local_ids (k : kind) (l : list (rname * N)) : list id :=
  map (fun p => rid (fst p)) (filter (fun p => kind_eqb (rk (fst p)) k && loc_eqb (rl (fst p)) Local) l).
(* before the repair: Remove for every local id *)
Definition ent_remove_all_v0 (rs : list N) (k : kind) (l : list (rname * N)) :=
  fold_left (fun acc i => ent_remove_refs rs k i acc) (local_ids k l) l.
(* the first repair added: every ref under refs/remotes/<remote>/<ns>/ for each configured remote *)
Definition drop_tracking_v1 (r : N) (k : kind) (l : list (rname * N)) :=
  filter (fun p => negb (kind_eqb (rk (fst p)) k && loc_eqb (rl (fst p)) (Track r))) l.
(* RemoveAll as it is now: every ref listed under refs/<ns>/ is removed itself (no detour through Remove(id), which
   refuses names that are not ids); then, for each configured remote, every refs/remotes/<remote>/<ns>/<id> whose last
   element is a valid id *)
Definition drop_local (k : kind) (l : list (rname * N)) :=
  filter (fun p => negb (kind_eqb (rk (fst p)) k && loc_eqb (rl (fst p)) Local)) l.
Definition drop_tracking (r : N) (k : kind) (l : list (rname * N)) :=
  filter (fun p => negb (kind_eqb (rk (fst p)) k && loc_eqb (rl (fst p)) (Track r) && valid_id (rid (fst p)))) l.
Definition ent_remove_all (rs : list N) (k : kind) (l : list (rname * N)) :=
  fold_left (fun acc r => drop_tracking r k acc) rs (drop_local k l).

(* ------------------------------------------------------------------ cache level *)

Definition exc_ids (k : kind) (e : list (ent * N)) : list id :=
  map (fun p => snd (fst p)) (filter (fun p => kind_eqb (fst (fst p)) k) e).

Inductive presult := PNone | PFound (i : id) | PMany.
(* SubCache.resolveMatcher over the excerpt ids *)
Definition resolve_prefix (p : id) (ids : list id) : presult :=
  match filter (prefixb p) ids with [] => PNone | [i] => PFound i | _ => PMany end.

Definition drop_ent (e : ent) (s : st) : st :=
  with_cache s (filter (fun p => negb (ent_eqb (fst p) e)) (exc s)) (filter (fun x => negb (ent_eqb x e)) (idx s)).
Definition has_local (k : kind) (i : id) (s : st) : bool := has_ref (mkrn k Local i) (refs s).

(* SubCache.Remove(prefix): ResolvePrefix (the entity must be readable: its local ref exists), actions.Remove,
   delete cached/excerpt/lru, index.Remove, write *)
Definition cache_remove (k : kind) (p : id) (s : st) : st * outcome :=
  match resolve_prefix p (exc_ids k (exc s)) with
  | PNone => (s, ENotFound)
  | PMany => (s, EMultiple)
  | PFound i =>
      if has_local k i s then
        match ent_remove k i s with
        | (s1, OOk) => (drop_ent (k, i) s1, OOk)
        | (s1, o) => (s1, o)
        end
      else (s, ENotFound)
  end.

(* RepoCache.RemoveAll: both sub-caches: actions.RemoveAll, maps emptied, index.Clear, write *)
Definition cache_remove_all_with (ra : list N -> kind -> list (rname * N) -> list (rname * N)) (s : st) : st :=
  with_cache (with_refs s (ra (remotes s) KBug (ra (remotes s) KIdent (refs s)))) [] [].
Definition cache_remove_all := cache_remove_all_with ent_remove_all.
Definition cache_remove_all_v0 := cache_remove_all_with ent_remove_all_v0.

Section Oracles.
(* excerpt content of the entity of kind k, id i whose local ref points to commit h (computed by the implementation
   from the operations; its correctness is another property's business) *)
Variable xo : kind -> id -> N -> N.

Definition is_entity_kind (k : kind) : bool := match k with KOther => false | _ => true end.
Definition local_entities (l : list (rname * N)) :=
  filter (fun p => is_entity_kind (rk (fst p)) && loc_eqb (rl (fst p)) Local) l.
Definition cache_files : list N := [F_cache_b; F_cache_i; F_idx_b; F_idx_i].

(* SubCache.Build for both sub-caches: excerpts and documents of exactly the local entities *)
Definition rebuild (s : st) : st :=
  let le := local_entities (refs s) in
  mkst (remotes s) (refs s)
       (map (fun p => ((rk (fst p), rid (fst p)), xo (rk (fst p)) (rid (fst p)) (snd p))) le)
       (map (fun p => (rk (fst p), rid (fst p))) le)
       (conf s) (add_files cache_files (files s)).

Definition count_kind (k : kind) (l : list ent) : nat := length (filter (fun e => kind_eqb (fst e) k) l).
(* SubCache.Load succeeds: cache file present and "count mismatch between bleve and excerpts" does not fire *)
Definition loadable (s : st) : bool :=
  memN F_cache_b (files s) && memN F_cache_i (files s) &&
  Nat.eqb (count_kind KBug (idx s)) (count_kind KBug (map fst (exc s))) &&
  Nat.eqb (count_kind KIdent (idx s)) (count_kind KIdent (map fst (exc s))).
(* NewRepoCache: load, else build; a successful load opens (creates if missing) both indexes *)
Definition load (s : st) : st :=
  if loadable s then with_files s (add_files [F_idx_b; F_idx_i] (files s)) else rebuild s.

(* ------------------------------------------------------------------ configuration (gogit_config.go) *)

Definition tok_identity : N := 0.
Definition cfg_section_exists (c : cfg) : bool :=
  match c_user c with Some _ => true | None => false end || negb (Nat.eqb (length (c_opts c)) 0) || negb (Nat.eqb (length (c_subs c)) 0).
(* RemoveAll("git-bug.identity"): needs the section; removes a subsection and/or an option of that name, else "invalid key prefix" *)
Definition cfg_remove_identity (c : cfg) : option cfg :=
  if negb (cfg_section_exists c) then None else
  let has_sub := existsb (fun p => N.eqb (fst p) tok_identity) (c_subs c) in
  let has_opt := match c_user c with Some _ => true | None => false end in
  if has_sub || has_opt
  then Some (mkcfg None (c_opts c) (filter (fun p => negb (N.eqb (fst p) tok_identity)) (c_subs c)) (c_other c))
  else None.
(* RemoveAll("git-bug"): removes the section if there is one, else "invalid key prefix".
   (go-git does not write a section without options: it no longer exists when the file is read again) *)
Definition cfg_remove_section (c : cfg) : option cfg :=
  if cfg_section_exists c then Some (mkcfg None [] [] (c_other c)) else None.
(* repaired ClearUserIdentity: nothing to clear when ReadString reports ErrNoConfigEntry *)
Definition cfg_clear_user (c : cfg) : option cfg :=
  match c_user c with None => Some c | Some _ => cfg_remove_identity c end.

(* ------------------------------------------------------------------ command level *)

Definition user_ok (s : st) : bool :=
  match c_user (conf s) with Some u => has_local KIdent u s | None => false end.

(* git-bug bug rm <prefix>: LoadBackendEnsureUser, Bugs().Remove, close *)
Definition cli_rm (p : id) (s : st) : st * outcome :=
  let s1 := load s in
  match c_user (conf s1) with
  | None => (s1, EOther)
  | Some u => if has_local KIdent u s1 then cache_remove KBug p s1
              else (with_conf s1 (mkcfg None (c_opts (conf s1)) (c_subs (conf s1)) (c_other (conf s1))), EOther)
                   (* identity.GetUserIdentity clears a dangling git-bug.identity *)
  end.

(* git-bug wipe, repaired: RemoveAll; ClearUserIdentity; RemoveAll("git-bug") only if ReadAll("git-bug") is not empty;
   close; LocalStorage.RemoveAll(".") *)
Definition cli_wipe (s : st) : st * outcome :=
  let s2 := cache_remove_all (load s) in
  match cfg_clear_user (conf s2) with
  | None => (s2, EOther)
  | Some c1 =>
      if cfg_section_exists c1 then
        match cfg_remove_section c1 with
        | Some c2 => (with_files (with_conf s2 c2) [], OOk)
        | None => (with_conf s2 c1, EOther)
        end
      else (with_files (with_conf s2 c1) [], OOk)
  end.
(* before the repairs *)
Definition cli_wipe_v0 (s : st) : st * outcome :=
  let s2 := cache_remove_all_v0 (load s) in
  match cfg_remove_identity (conf s2) with
  | None => (s2, EOther)
  | Some c1 =>
      match cfg_remove_section c1 with
      | Some c2 => (with_files (with_conf s2 c2) [], OOk)
      | None => (with_conf s2 c1, EOther)
      end
  end.

(* ------------------------------------------------------------------ MergeAll without fetch *)

Definition lookup_ref (n : rname) (l : list (rname * N)) : option N :=
  option_map snd (find (fun p => rname_eqb (fst p) n) l).
Definition lookup_exc (e : ent) (l : list (ent * N)) : option N :=
  option_map snd (find (fun p => ent_eqb (fst p) e) l).
Definition set_ref (n : rname) (h : N) (l : list (rname * N)) := (n, h) :: remove_ref n l.
Definition set_exc (e : ent) (x : N) (l : list (ent * N)) := (e, x) :: filter (fun p => negb (ent_eqb (fst p) e)) l.
Definition add_idx (e : ent) (l : list ent) := if mem_ent e l then l else e :: l.

(* ids with a remote-tracking ref under remote r *)
Definition tracked (r : N) (k : kind) (l : list (rname * N)) : list id :=
  map (fun p => rid (fst p)) (filter (fun p => kind_eqb (rk (fst p)) k && loc_eqb (rl (fst p)) (Track r)) l).

(* What a merge does to one entity that has a tracking ref (new / fast-forward / merge commit / nothing / invalid)
   is decided elsewhere (C01, C02, C09, C11); here its result is an oracle: the state [post] says what the local ref,
   the excerpt and the index document of that entity are afterwards. The model fixes WHICH entities can be touched. *)
Definition adopt_ref (post : st) (k : kind) (i : id) (s : st) : st :=
  match lookup_ref (mkrn k Local i) (refs post) with
  | Some h => with_refs s (set_ref (mkrn k Local i) h (refs s))
  | None => s
  end.
Definition adopt_cache (post : st) (k : kind) (i : id) (s : st) : st :=
  let e := match lookup_exc (k, i) (exc post) with Some x => set_exc (k, i) x (exc s) | None => exc s end in
  let d := if mem_ent (k, i) (idx post) then add_idx (k, i) (idx s) else idx s in
  with_cache s e d.

(* identities first, then bugs *)
Definition merge_targets (r : N) (s : st) : list ent :=
  map (fun i => (KIdent, i)) (tracked r KIdent (refs s)) ++ map (fun i => (KBug, i)) (tracked r KBug (refs s)).
(* identity.MergeAll + bug.MergeAll on the repository *)
Definition ent_merge (post : st) (r : N) (s : st) : st :=
  fold_left (fun acc e => adopt_ref post (fst e) (snd e) acc) (merge_targets r s) s.
(* RepoCache.MergeAll: each sub-cache first needs the user identity *)
Definition cache_merge (post : st) (r : N) (s : st) : st :=
  if user_ok s then
    fold_left (fun acc e => adopt_cache post (fst e) (snd e) (adopt_ref post (fst e) (snd e) acc)) (merge_targets r s) s
  else s.

(* ------------------------------------------------------------------ actions *)

Inductive action :=
| AEntRemove (k : kind) (i : id)        (* bug.Remove / identity.Remove *)
| AEntRemoveAll (k : kind)              (* bug.RemoveAll / identity.RemoveAll *)
| ACacheRemove (k : kind) (p : id)      (* RepoCache.Bugs().Remove / Identities().Remove *)
| ACacheRemoveAll                       (* RepoCache.RemoveAll *)
| ACliRm (p : id)                       (* git-bug bug rm *)
| ACliWipe                              (* git-bug wipe *)
| ARebuild                              (* cache files deleted, cache opened *)
| AReopen                               (* close, NewRepoCache *)
| ACacheMerge (r : N)                   (* RepoCache.MergeAll(r), no fetch *)
| AEntMerge (r : N)                     (* identity.MergeAll + bug.MergeAll, no fetch *)
| AStaleCommit (k : kind) (i : id).     (* an edit + Commit through a BugCache / IdentityCache of (k, i) that was resolved
                                           before (k, i) was removed through the same cache *)

Definition step (post : st) (a : action) (s : st) : st * outcome :=
  match a with
  | AEntRemove k i => ent_remove k i s
  | AEntRemoveAll k => match k with
                       | KOther => (s, EOther)
                       | _ => (with_refs s (ent_remove_all (remotes s) k (refs s)), OOk)
                       end
  | ACacheRemove k p => cache_remove k p s
  | ACacheRemoveAll => (cache_remove_all s, OOk)
  | ACliRm p => cli_rm p s
  | ACliWipe => cli_wipe s
  | ARebuild => (rebuild s, OOk)
  | AReopen => (load s, OOk)
  | ACacheMerge r => (cache_merge post r s, OOk)
  | AEntMerge r => (ent_merge post r s, OOk)
  | AStaleCommit _ _ => (s, EOther)     (* the instance is marked as removed: ErrEntityRemoved before anything is written *)
  end.

Fixpoint run (l : list (st * action)) (s : st) : st :=
  match l with [] => s | (post, a) :: t => run t (fst (step post a s)) end.

(* ================================================================== lemmas *)

(* ---- every ref-removing function is a filter ---- *)
Lemma filter_true {A} (l : list A) : filter (fun _ => true) l = l.
Proof. induction l as [|x l IH]; cbn; [reflexivity|f_equal; exact IH]. Qed.
Lemma filter_filter {A} (f g : A -> bool) l : filter f (filter g l) = filter (fun x => g x && f x) l.
Proof. induction l as [|x l IH]; cbn; [reflexivity|]. destruct (g x); cbn; [destruct (f x)|]; rewrite IH; reflexivity. Qed.
Lemma filter_filter_same {A} (f : A -> bool) l : filter f (filter f l) = filter f l.
Proof. rewrite filter_filter. apply filter_ext. intros a. destruct (f a); reflexivity. Qed.
Lemma filter_comm {A} (f g : A -> bool) l : filter f (filter g l) = filter g (filter f l).
Proof. rewrite !filter_filter. apply filter_ext. intros a. apply andb_comm. Qed.
Lemma filter_nil_all {A} (f : A -> bool) l : (forall x, In x l -> f x = false) -> filter f l = [].
Proof. induction l as [|x l IH]; intros H; cbn; [reflexivity|]. rewrite (H x) by (left; reflexivity).
  apply IH. intros y Hy. apply H. right; assumption. Qed.
Lemma forallb_true {A} (l : list A) : forallb (fun _ => true) l = true.
Proof. induction l; cbn; auto. Qed.

Lemma fold_filter_eq {T A} (g : T -> A -> bool) ts : forall l,
  fold_left (fun acc t => filter (g t) acc) ts l = filter (fun x => forallb (fun t => g t x) ts) l.
Proof. induction ts as [|t ts IH]; intros l; cbn [fold_left forallb].
  - symmetry. apply filter_true.
  - rewrite IH, filter_filter. reflexivity. Qed.
Lemma fold_left_ext {A B} (f g : A -> B -> A) : (forall a b, f a b = g a b) -> forall l a, fold_left f l a = fold_left g l a.
Proof. intros H l. induction l as [|x l IH]; intros a; cbn; [reflexivity|]. rewrite H. apply IH. Qed.

Definition configuredb (rs : list N) (l : loc) : bool := match l with Local => true | Track r => memN r rs end.
Definition is_target (rs : list N) (k : kind) (i : id) (n : rname) : bool :=
  kind_eqb (rk n) k && id_eqb (rid n) i && configuredb rs (rl n).

Lemma target_existsb rs k i n : existsb (rname_eqb n) (ent_targets rs k i) = is_target rs k i n.
Proof. apply eq_true_iff_eq. rewrite existsb_exists. split.
  - intros [t [Ht E]]. destruct (rname_eqb_spec n t); [subst t|discriminate]. unfold ent_targets in Ht.
    destruct Ht as [<-|Ht].
    + unfold is_target; cbn. rewrite kind_eqb_refl, id_eqb_refl. reflexivity.
    + apply in_map_iff in Ht. destruct Ht as [r [<- Hr]]. unfold is_target; cbn. rewrite kind_eqb_refl, id_eqb_refl. cbn.
      apply memN_In. exact Hr.
  - unfold is_target. intros H. apply andb_true_iff in H. destruct H as [H C]. apply andb_true_iff in H. destruct H as [K I].
    destruct (kind_eqb_spec (rk n) k); [|discriminate]. destruct (id_eqb_spec (rid n) i); [|discriminate].
    exists n. split; [|apply rname_eqb_refl]. destruct n as [k' l' i']; cbn in *; subst.
    destruct l' as [|r]; [left; reflexivity|right; apply in_map_iff; exists r; split; [reflexivity|apply memN_In; exact C]]. Qed.

Lemma ent_remove_refs_filter rs k i l :
  ent_remove_refs rs k i l = filter (fun p => negb (is_target rs k i (fst p))) l.
Proof. unfold ent_remove_refs, remove_ref.
  etransitivity; [apply (fold_filter_eq (fun (m : rname) (p : rname * N) => negb (rname_eqb (fst p) m)))|].
  apply filter_ext. intros p. rewrite <- target_existsb.
  induction (ent_targets rs k i) as [|t ts IH]; cbn; [reflexivity|]. rewrite IH, negb_orb. reflexivity. Qed.

Lemma ent_remove_all_v0_filter rs k l :
  ent_remove_all_v0 rs k l =
  filter (fun p => negb (kind_eqb (rk (fst p)) k && configuredb rs (rl (fst p)) && existsb (id_eqb (rid (fst p))) (local_ids k l))) l.
Proof. unfold ent_remove_all_v0.
  rewrite (fold_left_ext _ (fun acc i => filter (fun p => negb (is_target rs k i (fst p))) acc))
    by (intros; apply ent_remove_refs_filter).
  etransitivity; [apply (fold_filter_eq (fun (i : id) (p : rname * N) => negb (is_target rs k i (fst p))))|].
  apply filter_ext. intros [n h]. cbn [fst]. induction (local_ids k l) as [|a ids IH]; cbn.
  - rewrite andb_false_r. reflexivity.
  - rewrite IH. unfold is_target. destruct (kind_eqb (rk n) k), (id_eqb (rid n) a), (configuredb rs (rl n)); cbn; reflexivity. Qed.

(* where RemoveAll sweeps: the whole local namespace; under a configured remote, the names that are valid ids *)
Definition swept (rs : list N) (n : rname) : bool :=
  match rl n with Local => true | Track r => memN r rs && valid_id (rid n) end.
Definition keep (rs : list N) (k : kind) (p : rname * N) : bool := negb (kind_eqb (rk (fst p)) k && swept rs (fst p)).

Lemma In_local_ids k l i : In i (local_ids k l) <-> exists h, In (mkrn k Local i, h) l.
Proof. unfold local_ids. rewrite in_map_iff. split.
  - intros [[n h] [E H]]. apply filter_In in H. destruct H as [H B]. cbn in *.
    apply andb_true_iff in B. destruct B as [B1 B2].
    destruct (kind_eqb_spec (rk n) k); [|discriminate]. destruct (loc_eqb_spec (rl n) Local); [|discriminate].
    destruct n as [k' l' i']; cbn in *; subst. exists h; assumption.
  - intros [h H]. exists (mkrn k Local i, h). split; [reflexivity|]. apply filter_In. split; [assumption|].
    cbn. rewrite kind_eqb_refl. reflexivity. Qed.

Lemma not_mem_forallb r rs : forallb (fun r' => negb (N.eqb r r')) rs = negb (memN r rs).
Proof. unfold memN. induction rs as [|x rs IH]; cbn; [reflexivity|]. rewrite IH, negb_orb. reflexivity. Qed.

Lemma not_mem_forallb_and r rs b : forallb (fun r' => negb (N.eqb r r' && b)) rs = negb (memN r rs && b).
Proof. unfold memN. induction rs as [|x rs IH]; cbn; [reflexivity|]. rewrite IH.
  destruct (N.eqb r x), (existsb (N.eqb r) rs), b; reflexivity. Qed.

(* RemoveAll keeps exactly the refs that are not of this kind, or lie under a remote that is not configured, or are
   remote-tracking refs whose name is not a valid id *)
Lemma ent_remove_all_filter rs k l : ent_remove_all rs k l = filter (keep rs k) l.
Proof. unfold ent_remove_all, drop_tracking, drop_local.
  etransitivity; [apply (fold_filter_eq (fun (r : N) (p : rname * N) =>
                           negb (kind_eqb (rk (fst p)) k && loc_eqb (rl (fst p)) (Track r) && valid_id (rid (fst p)))))|].
  rewrite filter_filter. apply filter_ext. intros [n h]. unfold keep, swept. cbn [fst].
  destruct (kind_eqb (rk n) k); cbn.
  - destruct (rl n) as [|r0]; cbn; [reflexivity|]. apply not_mem_forallb_and.
  - apply forallb_true. Qed.

Lemma In_ent_remove_refs rs k i l n h :
  In (n, h) (ent_remove_refs rs k i l) <-> In (n, h) l /\ is_target rs k i n = false.
Proof. rewrite ent_remove_refs_filter, filter_In. cbn. rewrite negb_true_iff. reflexivity. Qed.
Lemma In_ent_remove_all rs k l n h :
  In (n, h) (ent_remove_all rs k l) <-> In (n, h) l /\ keep rs k (n, h) = true.
Proof. rewrite ent_remove_all_filter, filter_In. reflexivity. Qed.
Lemma In_ent_remove_all_v0 rs k l n h : In (n, h) (ent_remove_all_v0 rs k l) -> In (n, h) l.
Proof. rewrite ent_remove_all_v0_filter, filter_In. tauto. Qed.

(* ---- the statements ---- *)

Definition no_ref (k : kind) (i : id) (s : st) : Prop := forall n h, In (n, h) (refs s) -> ~ (rk n = k /\ rid n = i).
Definition not_cached (k : kind) (i : id) (s : st) : Prop := ~ In (k, i) (map fst (exc s)) /\ ~ In (k, i) (idx s).
Definition gone (k : kind) (i : id) (s : st) : Prop := no_ref k i s /\ not_cached k i s.

Definition refs_others_same (k : kind) (i : id) (s s' : st) : Prop :=
  forall n h, ~ (rk n = k /\ rid n = i) -> (In (n, h) (refs s') <-> In (n, h) (refs s)).
Definition cache_others_same (k : kind) (i : id) (s s' : st) : Prop :=
  (forall e x, e <> (k, i) -> (In (e, x) (exc s') <-> In (e, x) (exc s))) /\
  (forall e, e <> (k, i) -> (In e (idx s') <-> In e (idx s))).
Definition rest_same (s s' : st) : Prop := conf s' = conf s /\ files s' = files s /\ remotes s' = remotes s.

(* remote-tracking refs exist only for configured remotes (git remote remove deletes them) *)
Definition wf (s : st) : Prop := forall n h r, In (n, h) (refs s) -> rl n = Track r -> In r (remotes s).

Lemma wf_configuredb s n h : wf s -> In (n, h) (refs s) -> configuredb (remotes s) (rl n) = true.
Proof. intros W H. destruct (rl n) as [|r] eqn:E; cbn; [reflexivity|]. apply memN_In. eapply W; eauto. Qed.

(* -- entity-level removal -- *)
Lemma ent_remove_ok_refs k i s s' : ent_remove k i s = (s', OOk) ->
  s' = with_refs s (ent_remove_refs (remotes s) k i (refs s)) /\ k <> KOther.
Proof. unfold ent_remove. destruct (valid_id i); cbn [negb]; [|discriminate]. destruct k; [| |discriminate].
  - intros E; inversion E; split; [reflexivity|discriminate].
  - destruct (existsb _ _); intros E; inversion E; split; [reflexivity|discriminate]. Qed.
Lemma ent_remove_err k i s s' o : ent_remove k i s = (s', o) -> o <> OOk -> s' = s.
Proof. unfold ent_remove. destruct (valid_id i); cbn [negb]; [|intros E; inversion E; congruence]. destruct k.
  - intros E; inversion E; congruence.
  - destruct (existsb _ _); intros E; inversion E; congruence.
  - intros E; inversion E; congruence. Qed.
(* what is not a complete id is refused and nothing is touched (dag.Remove and identity.Remove validate the id) *)
Lemma ent_remove_invalid k i s : valid_id i = false -> ent_remove k i s = (s, EOther).
Proof. intros V. unfold ent_remove. rewrite V. reflexivity. Qed.

Lemma removed_refs_exact k i s : wf s ->
  no_ref k i (with_refs s (ent_remove_refs (remotes s) k i (refs s))) /\
  refs_others_same k i s (with_refs s (ent_remove_refs (remotes s) k i (refs s))).
Proof. intros W. split.
  - intros n h H [K E]. cbn [refs with_refs] in H. apply In_ent_remove_refs in H. destruct H as [H A].
    unfold is_target in A. rewrite (wf_configuredb s n h W H) in A. subst. rewrite kind_eqb_refl, id_eqb_refl in A. discriminate.
  - intros n h A. cbn [refs with_refs]. rewrite In_ent_remove_refs. split; [tauto|]. intros H. split; [exact H|].
    unfold is_target. destruct (kind_eqb_spec (rk n) k); [|reflexivity]. destruct (id_eqb_spec (rid n) i); [|reflexivity]. tauto. Qed.

Lemma ent_remove_exact k i s s' : wf s -> ent_remove k i s = (s', OOk) ->
  no_ref k i s' /\ refs_others_same k i s s' /\ exc s' = exc s /\ idx s' = idx s /\ rest_same s s'.
Proof. intros W E. apply ent_remove_ok_refs in E. destruct E as [-> _].
  destruct (removed_refs_exact k i s W) as [A B]. split; [exact A|]. split; [exact B|].
  split; [reflexivity|]. split; [reflexivity|]. split; [reflexivity|split; reflexivity]. Qed.

(* -- cache-level removal -- *)
Lemma resolve_found p ids i : resolve_prefix p ids = PFound i -> filter (prefixb p) ids = [i].
Proof. unfold resolve_prefix. destruct (filter (prefixb p) ids) as [|a [|b t]]; intros E; inversion E; reflexivity. Qed.

Lemma drop_ent_not_cached k i s : not_cached k i (drop_ent (k, i) s).
Proof. unfold not_cached, drop_ent; cbn. split.
  - rewrite in_map_iff. intros [[e x] [E H]]. apply filter_In in H. destruct H as [_ B]. cbn in *. subst e.
    rewrite ent_eqb_refl in B. discriminate.
  - intros H. apply filter_In in H. destruct H as [_ B]. rewrite ent_eqb_refl in B. discriminate. Qed.
Lemma drop_ent_others k i s : cache_others_same k i s (drop_ent (k, i) s).
Proof. unfold cache_others_same, drop_ent; cbn. split.
  - intros e x A. rewrite filter_In. cbn. destruct (ent_eqb_spec e (k, i)); cbn; intuition congruence.
  - intros e A. rewrite filter_In. destruct (ent_eqb_spec e (k, i)); cbn; intuition congruence. Qed.

Lemma cache_remove_cases k p s s' o : cache_remove k p s = (s', o) ->
  (o <> OOk /\ s' = s) \/
  (o = OOk /\ exists i, resolve_prefix p (exc_ids k (exc s)) = PFound i /\ has_local k i s = true /\ k <> KOther /\
              s' = drop_ent (k, i) (with_refs s (ent_remove_refs (remotes s) k i (refs s)))).
Proof. unfold cache_remove. destruct (resolve_prefix p (exc_ids k (exc s))) as [|i|] eqn:R.
  - intros E; inversion E; left; split; congruence.
  - destruct (has_local k i s) eqn:L.
    + destruct (ent_remove k i s) as [s1 o1] eqn:E1. destruct o1.
      * apply ent_remove_ok_refs in E1. destruct E1 as [-> K]. intros E; inversion E. right. split; [reflexivity|].
        exists i. auto.
      * intros E; inversion E; subst. left. split; [discriminate|]. eapply ent_remove_err; eauto; discriminate.
      * intros E; inversion E; subst. left. split; [discriminate|]. eapply ent_remove_err; eauto; discriminate.
      * intros E; inversion E; subst. left. split; [discriminate|]. eapply ent_remove_err; eauto; discriminate.
    + intros E; inversion E; left; split; congruence.
  - intros E; inversion E; left; split; congruence. Qed.

Lemma cache_remove_exact k p s s' : wf s -> cache_remove k p s = (s', OOk) ->
  exists i, resolve_prefix p (exc_ids k (exc s)) = PFound i /\
            gone k i s' /\ refs_others_same k i s s' /\ cache_others_same k i s s' /\ rest_same s s'.
Proof. intros W E. apply cache_remove_cases in E. destruct E as [[A _]|[_ [i [R [L [K ->]]]]]]; [congruence|].
  exists i. split; [assumption|]. destruct (removed_refs_exact k i s W) as [A B].
  split; [split; [exact A|apply drop_ent_not_cached]|].
  split; [exact B|]. split; [exact (drop_ent_others k i (with_refs s (ent_remove_refs (remotes s) k i (refs s))))|].
  split; [reflexivity|split; reflexivity]. Qed.

(* -- load / reopen -- *)
Lemma add_file_id f l : memN f l = true -> add_file f l = l.
Proof. unfold add_file. intros ->. reflexivity. Qed.

Definition opened (s : st) : bool := forallb (fun f => memN f (files s)) cache_files.

Lemma add_files_opened fs l : (forall f, In f fs -> memN f l = true) -> add_files fs l = l.
Proof. unfold add_files. induction fs as [|f fs IH]; intros H; cbn [fold_right]; [reflexivity|].
  rewrite IH by (intros; apply H; right; assumption).
  apply add_file_id. apply H. left; reflexivity. Qed.

Lemma load_id s : loadable s = true -> opened s = true -> load s = s.
Proof. unfold load, opened. intros -> O. rewrite forallb_forall in O.
  rewrite add_files_opened; [destruct s; reflexivity|]. intros f Hf. apply O. cbn in *. intuition. Qed.

Lemma load_frame s : refs (load s) = refs s /\ conf (load s) = conf s /\ remotes (load s) = remotes s.
Proof. unfold load. destruct (loadable s); cbn; auto. Qed.

(* -- gone is kept by every action (nothing in the model brings an entity back: that takes a fetch or a creation) -- *)
Lemma no_ref_sub k i s l : no_ref k i s -> (forall n h, In (n, h) l -> In (n, h) (refs s)) -> no_ref k i (with_refs s l).
Proof. intros G H n h Hn. cbn in Hn. eapply G; eauto. Qed.

Lemma not_cached_drop k i e s : not_cached k i s -> not_cached k i (drop_ent e s).
Proof. unfold not_cached, drop_ent; cbn. intros [A B]. split.
  - rewrite in_map_iff. intros [[e' x] [E H]]. apply filter_In in H. destruct H as [H _]. apply A.
    rewrite in_map_iff. exists (e', x). auto.
  - intros H. apply filter_In in H. destruct H as [H _]. auto. Qed.

Lemma gone_ent_remove k i k' i' s s' o : gone k i s -> ent_remove k' i' s = (s', o) -> gone k i s'.
Proof. intros [G C] E. destruct o; try (apply ent_remove_err in E; [subst; split; assumption|discriminate]).
  apply ent_remove_ok_refs in E. destruct E as [-> _]. split; [|exact C]. apply no_ref_sub; [exact G|].
  intros n h H. apply In_ent_remove_refs in H. tauto. Qed.

Lemma gone_cache_remove k i k' p s s' o : gone k i s -> cache_remove k' p s = (s', o) -> gone k i s'.
Proof. intros [G C] E. apply cache_remove_cases in E. destruct E as [[_ ->]|[_ [j [_ [_ [_ ->]]]]]]; [split; assumption|].
  split.
  - intros n h H. cbn in H. apply In_ent_remove_refs in H. destruct H as [H _]. eapply G; eauto.
  - apply not_cached_drop. exact C. Qed.

Lemma gone_cache_remove_all_with ra k i s :
  (forall rs k' l n h, In (n, h) (ra rs k' l) -> In (n, h) l) ->
  gone k i s -> gone k i (cache_remove_all_with ra s).
Proof. intros Hra [G C]. split.
  - intros n h H. cbn in H. apply Hra in H. apply Hra in H. eapply G; eauto.
  - split; cbn; auto. Qed.

Lemma ra_sub rs k l n h : In (n, h) (ent_remove_all rs k l) -> In (n, h) l.
Proof. intros H. apply In_ent_remove_all in H. tauto. Qed.

Lemma gone_rebuild k i s : gone k i s -> gone k i (rebuild s).
Proof. intros [G C]. split; [exact G|]. unfold not_cached, rebuild; cbn. rewrite map_map. cbn. split.
  - rewrite in_map_iff. intros [[n h] [E H]]. apply filter_In in H. destruct H as [H _]. cbn in E. inversion E.
    eapply G; eauto.
  - rewrite in_map_iff. intros [[n h] [E H]]. apply filter_In in H. destruct H as [H _]. cbn in E. inversion E.
    eapply G; eauto. Qed.

Lemma gone_load k i s : gone k i s -> gone k i (load s).
Proof. intros H. unfold load. destruct (loadable s); [exact H|apply gone_rebuild; exact H]. Qed.

Lemma In_tracked r k l i : In i (tracked r k l) <-> exists h, In (mkrn k (Track r) i, h) l.
Proof. unfold tracked. rewrite in_map_iff. split.
  - intros [[n h] [E H]]. apply filter_In in H. destruct H as [H B]. cbn in *.
    apply andb_true_iff in B. destruct B as [B1 B2].
    destruct (kind_eqb_spec (rk n) k); [|discriminate]. destruct (loc_eqb_spec (rl n) (Track r)); [|discriminate].
    destruct n as [k' l' i']; cbn in *; subst. exists h; assumption.
  - intros [h H]. exists (mkrn k (Track r) i, h). split; [reflexivity|]. apply filter_In. split; [assumption|].
    cbn. rewrite kind_eqb_refl, N.eqb_refl. reflexivity. Qed.

Lemma merge_targets_tracked r s e : In e (merge_targets r s) -> exists h, In (mkrn (fst e) (Track r) (snd e), h) (refs s).
Proof. unfold merge_targets. rewrite in_app_iff, !in_map_iff. intros [[i [<- H]]|[i [<- H]]]; cbn; apply In_tracked; exact H. Qed.

Lemma gone_adopt_ref post k i k' i' s : (k', i') <> (k, i) -> gone k i s -> gone k i (adopt_ref post k' i' s).
Proof. intros D [G C]. unfold adopt_ref. destruct (lookup_ref _ _) as [h0|]; [|split; assumption]. split; [|exact C].
  intros n h H. cbn in H. destruct H as [E|H].
  - inversion E; subst; cbn. intros [K I]. apply D. congruence.
  - unfold remove_ref in H. apply filter_In in H. destruct H as [H _]. eapply G; eauto. Qed.

Lemma gone_adopt_cache post k i k' i' s : (k', i') <> (k, i) -> gone k i s -> gone k i (adopt_cache post k' i' s).
Proof. intros D [G [C1 C2]]. split; [exact G|]. unfold not_cached, adopt_cache; cbn. split.
  - destruct (lookup_exc _ _) as [x0|]; [|exact C1]. cbn. intros [E|H]; [congruence|].
    apply in_map_iff in H. destruct H as [[e x] [E H]]. apply filter_In in H. destruct H as [H _]. apply C1.
    apply in_map_iff. exists (e, x). auto.
  - destruct (mem_ent _ _); [|exact C2]. unfold add_idx. destruct (mem_ent (k', i') (idx s)); [exact C2|].
    cbn. intros [E|H]; [congruence|auto]. Qed.

Lemma gone_fold {A} (f : st -> A -> st) k i (l : list A) :
  (forall s x, In x l -> gone k i s -> gone k i (f s x)) -> forall s, gone k i s -> gone k i (fold_left f l s).
Proof. induction l as [|x l IH]; intros H s G; cbn; [exact G|]. apply IH.
  - intros s' y Hy. apply H. right; assumption.
  - apply H; [left; reflexivity|exact G]. Qed.

Lemma targets_differ k i r s e : gone k i s -> In e (merge_targets r s) -> (fst e, snd e) <> (k, i).
Proof. intros [G _] H E. apply merge_targets_tracked in H. destruct H as [h H]. apply (G _ _ H). cbn.
  inversion E; auto. Qed.

Lemma gone_ent_merge post k i r s : gone k i s -> gone k i (ent_merge post r s).
Proof. intros G. unfold ent_merge. apply gone_fold; [|exact G]. intros s' e He G'.
  apply gone_adopt_ref; [|exact G']. exact (targets_differ k i r s e G He). Qed.

Lemma gone_cache_merge post k i r s : gone k i s -> gone k i (cache_merge post r s).
Proof. intros G. unfold cache_merge. destruct (user_ok s); [|exact G]. apply gone_fold; [|exact G]. intros s' e He G'.
  assert (D : (fst e, snd e) <> (k, i)) by exact (targets_differ k i r s e G He).
  apply gone_adopt_cache; [exact D|]. apply gone_adopt_ref; assumption. Qed.

Lemma gone_step post a k i s : gone k i s -> gone k i (fst (step post a s)).
Proof. intros G. destruct a; cbn [step].
  - destruct (ent_remove k0 i0 s) as [s' o] eqn:E. cbn. eapply gone_ent_remove; eauto.
  - destruct k0; cbn; try exact G; (split; [|apply G]); (apply no_ref_sub; [apply G|]); intros n h H; apply ra_sub in H; exact H.
  - destruct (cache_remove k0 p s) as [s' o] eqn:E. cbn. eapply gone_cache_remove; eauto.
  - cbn. apply gone_cache_remove_all_with; [apply ra_sub|exact G].
  - unfold cli_rm. pose proof (gone_load k i s G) as GL. destruct (c_user (conf (load s))); [|exact GL].
    destruct (has_local KIdent i0 (load s)); [|exact GL].
    destruct (cache_remove KBug p (load s)) as [s' o] eqn:E. cbn. eapply gone_cache_remove; eauto.
  - unfold cli_wipe. pose proof (gone_cache_remove_all_with ent_remove_all k i (load s) ra_sub (gone_load k i s G)) as G2.
    fold cache_remove_all in G2.
    destruct (cfg_clear_user _); [|exact G2]. destruct (cfg_section_exists c); [destruct (cfg_remove_section c)|]; exact G2.
  - cbn. apply gone_rebuild; exact G.
  - cbn. apply gone_load; exact G.
  - cbn. apply gone_cache_merge; exact G.
  - cbn. apply gone_ent_merge; exact G.
  - exact G. Qed.

Lemma gone_run l : forall k i s, gone k i s -> gone k i (run l s).
Proof. induction l as [|[post a] l IH]; intros k i s G; cbn [run]; [exact G|]. apply IH. apply gone_step. exact G. Qed.

(* wf is kept too: no action adds a tracking ref or drops a remote *)
Lemma wf_sub s l : wf s -> (forall n h, In (n, h) l -> In (n, h) (refs s)) -> wf (with_refs s l).
Proof. intros W H n h r Hn L. cbn in *. eapply W; eauto. Qed.

Lemma wf_adopt_ref post k i s : wf s -> wf (adopt_ref post k i s).
Proof. intros W. unfold adopt_ref. destruct (lookup_ref _ _) as [h0|]; [|exact W]. intros n h r H L. cbn in *.
  destruct H as [E|H]; [inversion E; subst; discriminate|]. unfold remove_ref in H. apply filter_In in H.
  destruct H as [H _]. eapply W; eauto. Qed.

Lemma wf_fold {A} (f : st -> A -> st) (l : list A) :
  (forall s x, wf s -> wf (f s x)) -> forall s, wf s -> wf (fold_left f l s).
Proof. induction l as [|x l IH]; intros H s W; cbn; [exact W|]. apply IH; auto. Qed.

Lemma wf_ent_remove k i s s' o : wf s -> ent_remove k i s = (s', o) -> wf s'.
Proof. intros W E. destruct o; try (apply ent_remove_err in E; [subst; exact W|discriminate]).
  apply ent_remove_ok_refs in E. destruct E as [-> _]. apply wf_sub; [exact W|].
  intros n h H. apply In_ent_remove_refs in H. tauto. Qed.

Lemma wf_cache_remove k p s s' o : wf s -> cache_remove k p s = (s', o) -> wf s'.
Proof. intros W E. apply cache_remove_cases in E. destruct E as [[_ ->]|[_ [j [_ [_ [_ ->]]]]]]; [exact W|].
  intros n h r H L. cbn in H. apply In_ent_remove_refs in H. destruct H as [H _]. eapply W; eauto. Qed.

Lemma wf_cache_remove_all s : wf s -> wf (cache_remove_all s).
Proof. intros W n h r H L. cbn in H. apply ra_sub in H. apply ra_sub in H. eapply W; eauto. Qed.

Lemma wf_load s : wf s -> wf (load s).
Proof. intros W. unfold load. destruct (loadable s); exact W. Qed.

Lemma wf_step post a s : wf s -> wf (fst (step post a s)).
Proof. intros W. destruct a; cbn [step].
  - destruct (ent_remove k i s) as [s' o] eqn:E. cbn. eapply wf_ent_remove; eauto.
  - destruct k; cbn; try exact W; (apply wf_sub; [exact W|intros n h H; apply ra_sub in H; exact H]).
  - destruct (cache_remove k p s) as [s' o] eqn:E. cbn. eapply wf_cache_remove; eauto.
  - cbn. apply wf_cache_remove_all; exact W.
  - unfold cli_rm. pose proof (wf_load s W) as WL. destruct (c_user (conf (load s))); [|exact WL].
    destruct (has_local KIdent i (load s)); [|exact WL].
    destruct (cache_remove KBug p (load s)) as [s' o] eqn:E. cbn. eapply wf_cache_remove; eauto.
  - unfold cli_wipe. pose proof (wf_cache_remove_all (load s) (wf_load s W)) as W2.
    destruct (cfg_clear_user _); [|exact W2]. destruct (cfg_section_exists c); [destruct (cfg_remove_section c)|]; exact W2.
  - exact W.
  - cbn. apply wf_load; exact W.
  - cbn. unfold cache_merge. destruct (user_ok s); [|exact W]. apply wf_fold; [|exact W]. intros s' e W'.
    unfold adopt_cache. apply (wf_adopt_ref post (fst e) (snd e) s' W').
  - cbn. unfold ent_merge. apply wf_fold; [|exact W]. intros s' e W'. apply wf_adopt_ref; exact W'.
  - exact W. Qed.

(* -- the single-entity removals through the cache and the command line, and what they resolve to -- *)
Definition removes (a : action) (s : st) (k : kind) (i : id) : Prop :=
  match a with
  | ACacheRemove k' p => k' = k /\ resolve_prefix p (exc_ids k (exc s)) = PFound i
  | ACliRm p => k = KBug /\ loadable s = true /\ opened s = true /\ user_ok s = true /\
                resolve_prefix p (exc_ids KBug (exc s)) = PFound i
  | _ => False
  end.

Lemma cli_rm_loaded p s : loadable s = true -> opened s = true -> user_ok s = true -> cli_rm p s = cache_remove KBug p s.
Proof. intros L O U. unfold cli_rm. rewrite (load_id s L O). unfold user_ok in U.
  destruct (c_user (conf s)); [|discriminate]. rewrite U. reflexivity. Qed.

Lemma remove_exact post a s k i : wf s -> removes a s k i ->
  (snd (step post a s) = OOk ->
     gone k i (fst (step post a s)) /\ refs_others_same k i s (fst (step post a s)) /\
     cache_others_same k i s (fst (step post a s)) /\ rest_same s (fst (step post a s))) /\
  (snd (step post a s) <> OOk -> fst (step post a s) = s).
Proof. intros W R. destruct a; cbn in R; try contradiction.
  - destruct R as [-> R]. cbn [step]. destruct (cache_remove k p s) as [s' o] eqn:E. cbn. split.
    + intros ->. destruct (cache_remove_exact k p s s' W E) as [j [R' H]]. rewrite R in R'. inversion R'; subst j. exact H.
    + intros N. apply cache_remove_cases in E. destruct E as [[_ ->]|[-> _]]; congruence.
  - destruct R as [-> [L [O [U R]]]]. cbn [step]. rewrite (cli_rm_loaded p s L O U).
    destruct (cache_remove KBug p s) as [s' o] eqn:E. cbn. split.
    + intros ->. destruct (cache_remove_exact KBug p s s' W E) as [j [R' H]]. rewrite R in R'. inversion R'; subst j. exact H.
    + intros N. apply cache_remove_cases in E. destruct E as [[_ ->]|[-> _]]; congruence. Qed.

(* the entity API: all refs of the entity, nothing else (the cache is not its business) *)
Lemma remove_exact_entity post k i s : wf s ->
  (snd (step post (AEntRemove k i) s) = OOk ->
     no_ref k i (fst (step post (AEntRemove k i) s)) /\ refs_others_same k i s (fst (step post (AEntRemove k i) s)) /\
     exc (fst (step post (AEntRemove k i) s)) = exc s /\ idx (fst (step post (AEntRemove k i) s)) = idx s /\
     rest_same s (fst (step post (AEntRemove k i) s))) /\
  (snd (step post (AEntRemove k i) s) <> OOk -> fst (step post (AEntRemove k i) s) = s).
Proof. intros W. cbn [step]. destruct (ent_remove k i s) as [s' o] eqn:E. cbn. split.
  - intros ->. apply ent_remove_exact; assumption.
  - intros N. eapply ent_remove_err; eauto. Qed.

(* -- idempotence -- *)
Lemma ent_remove_refs_idem rs k i l : ent_remove_refs rs k i (ent_remove_refs rs k i l) = ent_remove_refs rs k i l.
Proof. rewrite !ent_remove_refs_filter. apply filter_filter_same. Qed.

Lemma has_ref_In m l : has_ref m l = true <-> exists h, In (m, h) l.
Proof. unfold has_ref. rewrite existsb_exists. split.
  - intros [[n h] [H E]]. cbn in E. destruct (rname_eqb_spec n m); [subst; eauto|discriminate].
  - intros [h H]. exists (m, h). split; [assumption|apply rname_eqb_refl]. Qed.

Lemma no_target_after rs k i l : existsb (fun n => has_ref n (ent_remove_refs rs k i l)) (ent_targets rs k i) = false.
Proof. apply not_true_is_false. intros H. apply existsb_exists in H. destruct H as [n [Hn H]].
  apply has_ref_In in H. destruct H as [h H]. apply In_ent_remove_refs in H. destruct H as [_ A].
  rewrite <- target_existsb in A. apply not_true_iff_false in A. apply A. apply existsb_exists.
  exists n. split; [exact Hn|apply rname_eqb_refl]. Qed.

Lemma ent_remove_idem k i s : fst (ent_remove k i (fst (ent_remove k i s))) = fst (ent_remove k i s).
Proof. unfold ent_remove. destruct (valid_id i); cbn [negb]; [|reflexivity]. destruct k.
  - cbn [fst refs remotes with_refs]. rewrite ent_remove_refs_idem. reflexivity.
  - destruct (existsb _ (ent_targets (remotes s) KIdent i)) eqn:E; cbn [fst refs remotes with_refs].
    + rewrite no_target_after. reflexivity.
    + rewrite E. reflexivity.
  - reflexivity. Qed.

Lemma exc_ids_drop k i e :
  exc_ids k (filter (fun p => negb (ent_eqb (fst p) (k, i))) e) = filter (fun j => negb (id_eqb j i)) (exc_ids k e).
Proof. unfold exc_ids. induction e as [|[[k' j] x] e IH]; [reflexivity|].
  assert (Hh : negb (ent_eqb (k', j) (k, i)) = negb (kind_eqb k' k && id_eqb j i)) by reflexivity.
  simpl filter at 2. simpl fst. rewrite Hh.
  destruct (kind_eqb k' k) eqn:K; destruct (id_eqb j i) eqn:J; simpl; rewrite ?K; simpl; rewrite ?J; simpl; rewrite ?IH; reflexivity. Qed.

Lemma cache_remove_idem k p s : fst (cache_remove k p (fst (cache_remove k p s))) = fst (cache_remove k p s).
Proof. destruct (cache_remove k p s) as [s' o] eqn:E. cbn. pose proof E as E0. apply cache_remove_cases in E0.
  destruct E0 as [[_ ->]|[_ [i [R [_ [_ ->]]]]]].
  - rewrite E. reflexivity.
  - unfold cache_remove at 1. cbn [exc drop_ent with_cache with_refs].
    rewrite exc_ids_drop. apply resolve_found in R. unfold resolve_prefix.
    rewrite filter_comm, R. cbn. rewrite id_eqb_refl. reflexivity. Qed.

Lemma ent_remove_all_idem rs k l : ent_remove_all rs k (ent_remove_all rs k l) = ent_remove_all rs k l.
Proof. rewrite !ent_remove_all_filter. apply filter_filter_same. Qed.

Lemma filter2_idem {A} (f g : A -> bool) l : filter f (filter g (filter f (filter g l))) = filter f (filter g l).
Proof. rewrite (filter_comm f g l), filter_filter_same, (filter_comm f g (filter f l)), filter_filter_same. reflexivity. Qed.

Lemma cache_remove_all_idem s : cache_remove_all (cache_remove_all s) = cache_remove_all s.
Proof. unfold cache_remove_all, cache_remove_all_with. cbn [remotes refs exc idx conf files with_cache with_refs].
  rewrite !ent_remove_all_filter, filter2_idem. reflexivity. Qed.

(* closed form of the repaired wipe *)
Definition wiped (s : st) : st :=
  mkst (remotes s) (filter (keep (remotes s) KBug) (filter (keep (remotes s) KIdent) (refs s))) [] []
       (mkcfg None [] [] (c_other (conf s))) [].

Lemma cli_wipe_closed s : cli_wipe s = (wiped s, OOk).
Proof. unfold cli_wipe, cache_remove_all, cache_remove_all_with, wiped.
  destruct (load_frame s) as [Hr [Hc Hm]]. cbn. rewrite Hr, Hc, Hm, !ent_remove_all_filter.
  destruct (conf s) as [u o sb ot]. unfold cfg_clear_user, cfg_remove_identity, cfg_section_exists, cfg_remove_section; cbn.
  assert (Fin : forall L c, with_files (with_conf (with_cache (with_refs (load s) L) [] []) c) [] = mkst (remotes s) L [] [] c [])
    by (intros; unfold with_files, with_conf, with_cache, with_refs; cbn [remotes refs exc idx conf files]; rewrite Hm; reflexivity).
  destruct u as [u|]; cbn.
  - rewrite orb_true_r. cbn. destruct o as [|o1 o]; cbn; [|rewrite Fin; reflexivity].
    destruct (filter _ sb) eqn:F; cbn; rewrite Fin; reflexivity.
  - destruct o as [|o1 o]; cbn; [|rewrite Fin; reflexivity]. destruct sb as [|s1 sb]; cbn; rewrite Fin; reflexivity. Qed.

Lemma wiped_idem s : wiped (wiped s) = wiped s.
Proof. unfold wiped; cbn [remotes refs exc idx conf files c_other]. rewrite filter2_idem. reflexivity. Qed.

(* a cache in which index and excerpts agree, opened by a process whose user identity exists *)
Definition settled (s : st) : Prop :=
  loadable s = true /\ opened s = true /\ user_ok s = true /\ Permutation (idx s) (map fst (exc s)).

Lemma Permutation_filter {A} (f : A -> bool) l l' : Permutation l l' -> Permutation (filter f l) (filter f l').
Proof. induction 1; cbn.
  - constructor.
  - destruct (f x); [constructor|]; assumption.
  - destruct (f x), (f y); try constructor; apply Permutation_refl.
  - eapply Permutation_trans; eauto. Qed.

Lemma map_fst_filter {A B} (f : A -> bool) (l : list (A * B)) : map fst (filter (fun p => f (fst p)) l) = filter f (map fst l).
Proof. induction l as [|[a b] l IH]; cbn; [reflexivity|]. destruct (f a); cbn; rewrite IH; reflexivity. Qed.

Lemma has_ref_other_kind rs k i m l : rk m <> k -> has_ref m (ent_remove_refs rs k i l) = has_ref m l.
Proof. intros D. apply eq_true_iff_eq. rewrite !has_ref_In. split.
  - intros [h H]. apply In_ent_remove_refs in H. exists h; tauto.
  - intros [h H]. exists h. apply In_ent_remove_refs. split; [exact H|]. unfold is_target.
    destruct (kind_eqb_spec (rk m) k); [contradiction|reflexivity]. Qed.

Lemma settled_after_rm i s : settled s ->
  settled (drop_ent (KBug, i) (with_refs s (ent_remove_refs (remotes s) KBug i (refs s)))).
Proof. intros [L [O [U P]]]. unfold settled.
  assert (P' : Permutation (idx (drop_ent (KBug, i) (with_refs s (ent_remove_refs (remotes s) KBug i (refs s)))))
                           (map fst (exc (drop_ent (KBug, i) (with_refs s (ent_remove_refs (remotes s) KBug i (refs s))))))).
  { cbn. rewrite (map_fst_filter (fun e => negb (ent_eqb e (KBug, i)))). apply Permutation_filter. exact P. }
  repeat split.
  - unfold loadable in *. cbn [files drop_ent with_cache with_refs].
    apply andb_true_iff in L. destruct L as [L _]. apply andb_true_iff in L. destruct L as [L _]. rewrite L. cbn [andb].
    unfold count_kind. rewrite !(Permutation_length (Permutation_filter _ _ _ P')), !Nat.eqb_refl. reflexivity.
  - exact O.
  - unfold user_ok in *. cbn [conf drop_ent with_cache with_refs]. destruct (c_user (conf s)); [|discriminate].
    unfold has_local in *. cbn [refs with_refs drop_ent with_cache]. rewrite has_ref_other_kind; [exact U|discriminate].
  - exact P'. Qed.

Lemma cli_rm_idem p s : settled s -> fst (cli_rm p (fst (cli_rm p s))) = fst (cli_rm p s).
Proof. intros S. destruct S as [L [O [U P]]]. rewrite (cli_rm_loaded p s L O U).
  destruct (cache_remove KBug p s) as [s' o] eqn:E. cbn [fst]. pose proof E as E0. apply cache_remove_cases in E0.
  destruct E0 as [[_ ->]|[_ [i [_ [_ [_ ->]]]]]].
  - rewrite (cli_rm_loaded p s L O U), E. reflexivity.
  - destruct (settled_after_rm i s (conj L (conj O (conj U P)))) as [L' [O' [U' _]]].
    rewrite (cli_rm_loaded p _ L' O' U').
    pose proof (cache_remove_idem KBug p s) as I. rewrite E in I. cbn [fst] in I. exact I. Qed.

Definition repeatable (a : action) (s : st) : Prop :=
  match a with
  | AEntRemove _ _ | AEntRemoveAll _ | ACacheRemove _ _ | ACacheRemoveAll | ACliWipe => True
  | ACliRm _ => settled s
  | _ => False
  end.

Lemma idempotent post post' a s : repeatable a s ->
  fst (step post' a (fst (step post a s))) = fst (step post a s).
Proof. intros R. destruct a; cbn in R; try contradiction; cbn [step].
  - apply ent_remove_idem.
  - destruct k; cbn [fst refs remotes with_refs]; try reflexivity; rewrite ent_remove_all_idem; reflexivity.
  - apply cache_remove_idem.
  - cbn. apply cache_remove_all_idem.
  - apply cli_rm_idem; exact R.
  - rewrite !cli_wipe_closed. cbn. apply wiped_idem. Qed.

(* -- wipe / RemoveAll leave nothing behind -- *)
Lemma keep_both_other s n h : wf s -> In (n, h) (refs s) ->
  keep (remotes s) KBug (n, h) = true -> keep (remotes s) KIdent (n, h) = true -> is_gbref n = false.
Proof. intros W H A B. unfold keep, swept, is_gbref in *. cbn [fst] in *. pose proof (wf_configuredb s n h W H) as C.
  destruct (rk n); [| |reflexivity]; (destruct (rl n) as [|r]; cbn in *; [discriminate|]; rewrite C in *; cbn in *;
    destruct (valid_id (rid n)); [discriminate|reflexivity]). Qed.

(* what is not git-bug's is kept, whatever the remotes *)
Lemma keep_foreign rs k n h : k <> KOther -> is_gbref n = false -> keep rs k (n, h) = true.
Proof. unfold keep, swept, is_gbref. cbn [fst]. intros K. destruct (rk n), k; cbn; intros G; try reflexivity; try congruence;
  (revert G; destruct (rl n); intros G; [discriminate|]); rewrite G, andb_false_r; reflexivity. Qed.

Lemma all_removed_refs s n h : wf s ->
  In (n, h) (filter (keep (remotes s) KBug) (filter (keep (remotes s) KIdent) (refs s))) <-> In (n, h) (refs s) /\ is_gbref n = false.
Proof. intros W. rewrite !filter_In. split.
  - intros [[H B] A]. split; [exact H|]. eapply keep_both_other; eauto.
  - intros [H K]. split; [split; [exact H|]|]; (apply keep_foreign; [discriminate|exact K]). Qed.

(* nothing of git-bug is left among the refs, everything else is; the cache is empty *)
Definition clean (s s' : st) : Prop :=
  (forall n h, In (n, h) (refs s') <-> In (n, h) (refs s) /\ is_gbref n = false) /\
  exc s' = [] /\ idx s' = [] /\ remotes s' = remotes s.

Lemma wipe_clean post s : wf s ->
  snd (step post ACliWipe s) = OOk /\ clean s (fst (step post ACliWipe s)) /\
  conf (fst (step post ACliWipe s)) = mkcfg None [] [] (c_other (conf s)) /\ files (fst (step post ACliWipe s)) = [].
Proof. intros W. cbn [step]. rewrite cli_wipe_closed. cbn [fst snd]. split; [reflexivity|]. split; [|split; reflexivity].
  split; [|repeat split]. intros n h. apply all_removed_refs. exact W. Qed.

Lemma removeall_clean post s : wf s ->
  clean s (fst (step post ACacheRemoveAll s)) /\ conf (fst (step post ACacheRemoveAll s)) = conf s /\
  files (fst (step post ACacheRemoveAll s)) = files s.
Proof. intros W. cbn [step fst]. unfold cache_remove_all, cache_remove_all_with. cbn [refs exc idx conf files remotes with_cache with_refs].
  split; [|split; reflexivity]. split; [|repeat split].
  intros n h. rewrite !ent_remove_all_filter. apply all_removed_refs. exact W. Qed.

(* -- RemoveAll and wipe spare what is not git-bug's: foreign refs, and under refs/remotes/<remote>/<ns>/ the names that
      are not ids (remote-tracking branches of the user's branches <ns>/<something>) -- *)
Definition removes_everything (a : action) : Prop :=
  match a with AEntRemoveAll KBug | AEntRemoveAll KIdent | ACacheRemoveAll | ACliWipe => True | _ => False end.

Lemma removeall_spares_foreign post a s n h : removes_everything a ->
  In (n, h) (refs s) -> is_gbref n = false -> In (n, h) (refs (fst (step post a s))).
Proof. intros R H G.
  assert (K : forall rs k, k <> KOther -> keep rs k (n, h) = true) by (intros; apply keep_foreign; assumption).
  destruct a; cbn in R; try contradiction.
  - destruct k; try contradiction; cbn; apply In_ent_remove_all; (split; [exact H|apply K; discriminate]).
  - cbn. apply In_ent_remove_all. split; [apply In_ent_remove_all; split; [exact H|]|]; apply K; discriminate.
  - cbn [step]. rewrite cli_wipe_closed. cbn. rewrite !filter_In. split; [split; [exact H|]|]; apply K; discriminate. Qed.

Lemma user_branch_foreign n r : rl n = Track r -> valid_id (rid n) = false -> is_gbref n = false.
Proof. unfold is_gbref. intros -> ->. destruct (rk n); reflexivity. Qed.

(* -- the code before the repairs -- *)
(* with nothing but (at most) the identity in the [git-bug] section, wipe always stopped with an error and left the storage *)
Lemma wipe_v0_aborts s : c_opts (conf s) = [] -> c_subs (conf s) = [] ->
  snd (cli_wipe_v0 s) = EOther /\ files (fst (cli_wipe_v0 s)) = files (load s).
Proof. intros Ho Hs. unfold cli_wipe_v0, cache_remove_all_v0, cache_remove_all_with.
  destruct (load_frame s) as [Hr [Hc Hm]]. cbn. rewrite Hc.
  destruct (conf s) as [u o sb ot]. cbn in Ho, Hs. subst o sb.
  unfold cfg_remove_identity, cfg_section_exists, cfg_remove_section; cbn. destruct u; cbn; split; reflexivity. Qed.

End Oracles.

(* a bug that was fetched from remote 1 and never merged survives the old RemoveAll *)
Definition s_fetched : st :=
  mkst [1%N] [(mkrn KBug (Track 1%N) [97%N], 7%N); (mkrn KBug Local [98%N], 8%N)] [((KBug, [98%N]), 1%N)] [(KBug, [98%N])]
       (mkcfg None [] [] []) [1%N; 2%N; 3%N; 4%N; 5%N].
Lemma s_fetched_wf : wf s_fetched.
Proof. intros n h r H L. cbn in H. destruct H as [E|[E|[]]]; inversion E; subst; cbn in L; inversion L. left; reflexivity. Qed.
Lemma removeall_v0_leaves : In (mkrn KBug (Track 1%N) [97%N], 7%N) (refs (cache_remove_all_v0 s_fetched)).
Proof. vm_compute. left; reflexivity. Qed.

Lemma removed_stays_gone xo post a s k i l : wf s -> removes a s k i -> snd (step xo post a s) = OOk ->
  gone k i (run xo l (fst (step xo post a s))).
Proof. intros W R O. apply gone_run. destruct (remove_exact xo post a s k i W R) as [H _]. apply H. exact O. Qed.

Lemma removeall_v0_refuted : exists s, wf s /\ exists n h, In (n, h) (refs (cache_remove_all_v0 s)) /\ rk n = KBug /\ In (rl n) (map Track (remotes s)).
Proof. exists s_fetched. split; [exact s_fetched_wf|]. exists (mkrn KBug (Track 1%N) [97%N]), 7%N.
  split; [exact removeall_v0_leaves|]. split; [reflexivity|left; reflexivity]. Qed.

(* a small repository in which everything above applies: user 'uuu...u', bugs 'aaa...ab' (also on remote 1) and 'aaa...ac'
   (ids of 64 characters), a foreign ref, the remote-tracking branch of the user's branch bugs/fix (on remote 1) and a
   copy 'old' of a bug ref kept inside refs/bugs/ *)
Definition id_of (c : N) : id := repeat 97%N 63 ++ [c].
Definition id_ab : id := id_of 98%N.
Definition id_ac : id := id_of 99%N.
Definition id_u : id := repeat 117%N 64.
Definition name_fix : id := [102%N; 105%N; 120%N].
Definition name_old : id := [111%N; 108%N; 100%N].
Definition s_demo : st :=
  mkst [1%N]
       [(mkrn KIdent Local id_u, 1%N); (mkrn KBug Local id_ab, 2%N); (mkrn KBug (Track 1%N) id_ab, 2%N);
        (mkrn KBug Local id_ac, 3%N); (mkrn KOther Local [114%N], 9%N)]
       [((KIdent, id_u), 1%N); ((KBug, id_ab), 2%N); ((KBug, id_ac), 3%N)]
       [(KIdent, id_u); (KBug, id_ab); (KBug, id_ac)]
       (mkcfg (Some id_u) [] [] [5%N]) [1%N; 2%N; 3%N; 4%N; 5%N].
Definition s_demo2 : st :=
  with_refs s_demo ((mkrn KBug (Track 1%N) name_fix, 9%N) :: (mkrn KBug Local name_old, 2%N) :: refs s_demo).
Lemma s_demo_wf : wf s_demo.
Proof. intros n h r H L. unfold s_demo in H. cbn [refs] in H.
  destruct H as [E|[E|[E|[E|[E|[]]]]]]; inversion E; subst; cbn in L; inversion L; left; reflexivity. Qed.
Lemma s_demo2_wf : wf s_demo2.
Proof. intros n h r H L. unfold s_demo2, s_demo in H. cbn [refs with_refs] in H.
  destruct H as [E|[E|[E|[E|[E|[E|[E|[]]]]]]]]; inversion E; subst; cbn in L; inversion L; left; reflexivity. Qed.
Lemma s_demo_settled : settled s_demo.
Proof. repeat split; reflexivity. Qed.
Lemma s_demo_removes : removes (ACliRm id_ab) s_demo KBug id_ab.
Proof. repeat split; reflexivity. Qed.
Lemma s_demo_removed : snd (cli_rm (fun _ _ c => c) id_ab s_demo) = OOk.
Proof. reflexivity. Qed.
Lemma s_demo_ambiguous : snd (cache_remove KBug [97%N] s_demo) = EMultiple.
Proof. reflexivity. Qed.
Lemma s_demo_ids : valid_id id_ab = true /\ valid_id id_u = true /\ valid_id name_fix = false /\ valid_id [] = false.
Proof. repeat split; reflexivity. Qed.

(* ================================================================== the code before the repairs that followed the audit *)

(* identity.Remove did not validate its argument and lists the refs with it as a PREFIX of their names:
   none found = NotFound, several at one place = MultipleMatch, else whatever was found is removed *)
Definition pfx_matches (k : kind) (l : loc) (p : id) (rf : list (rname * N)) : list (rname * N) :=
  filter (fun q => kind_eqb (rk (fst q)) k && loc_eqb (rl (fst q)) l && prefixb p (rid (fst q))) rf.
Definition ident_remove_v1 (p : id) (s : st) : st * outcome :=
  let groups := pfx_matches KIdent Local p (refs s) :: map (fun r => pfx_matches KIdent (Track r) p (refs s)) (remotes s) in
  if existsb (fun g => Nat.ltb 1 (length g)) groups then (s, EMultiple)
  else match concat groups with
       | [] => (s, ENotFound)
       | ms => (with_refs s (fold_left (fun acc q => remove_ref (fst q) acc) ms (refs s)), OOk)
       end.
(* asked to remove the identity 'u' (not an id, no such identity), it removed the identity 'uuu...u' *)
Lemma ident_remove_v1_refuted : exists s p n, wf s /\ valid_id p = false /\ rid n <> p /\ has_ref n (refs s) = true /\
  snd (ident_remove_v1 p s) = OOk /\ has_ref n (refs (fst (ident_remove_v1 p s))) = false.
Proof. exists s_demo, [117%N], (mkrn KIdent Local id_u). split; [exact s_demo_wf|].
  split; [reflexivity|]. split; [intros E; vm_compute in E; discriminate E|]. repeat split; vm_compute; reflexivity. Qed.

(* RemoveAll went through Remove(id) for every name listed under refs/<ns>/ and stopped at the first one that is not a
   valid id; its sweep of refs/remotes/<remote>/<ns>/ removed every name *)
Fixpoint remove_ids_v1 (rs : list N) (k : kind) (ids : list id) (l : list (rname * N)) : list (rname * N) * outcome :=
  match ids with
  | [] => (l, OOk)
  | i :: t => if valid_id i then remove_ids_v1 rs k t (ent_remove_refs rs k i l) else (l, EOther)
  end.
Definition ent_remove_all_v1 (rs : list N) (k : kind) (l : list (rname * N)) : list (rname * N) * outcome :=
  match remove_ids_v1 rs k (local_ids k l) l with
  | (l1, OOk) => (fold_left (fun acc r => drop_tracking_v1 r k acc) rs l1, OOk)
  | r => r
  end.

Lemma remove_ids_v1_stuck rs k i : valid_id i = false -> forall ids l, In i ids -> In i (local_ids k l) ->
  snd (remove_ids_v1 rs k ids l) = EOther /\ In i (local_ids k (fst (remove_ids_v1 rs k ids l))).
Proof. intros V. induction ids as [|j ids IH]; intros l Hi Hl; [destruct Hi|]. cbn [remove_ids_v1].
  destruct (valid_id j) eqn:Vj; [|split; [reflexivity|exact Hl]].
  destruct Hi as [->|Hi]; [congruence|]. apply IH; [exact Hi|].
  apply In_local_ids in Hl. destruct Hl as [h Hl]. apply In_local_ids. exists h. apply In_ent_remove_refs. split; [exact Hl|].
  unfold is_target. cbn. destruct (id_eqb_spec i j) as [E|E]; [congruence|]. rewrite andb_false_r. reflexivity. Qed.

(* whatever the repository: one name under refs/<ns>/ that is not a valid id, and RemoveAll (hence wipe) fails and leaves
   that ref where it is, so that repeating it fails the same way *)
Lemma removeall_v1_stuck rs k l i : In i (local_ids k l) -> valid_id i = false ->
  snd (ent_remove_all_v1 rs k l) = EOther /\ In i (local_ids k (fst (ent_remove_all_v1 rs k l))).
Proof. intros H V. destruct (remove_ids_v1_stuck rs k i V (local_ids k l) l H H) as [A B]. unfold ent_remove_all_v1.
  destruct (remove_ids_v1 rs k (local_ids k l) l) as [l1 o]. cbn in A, B. subst o. split; [reflexivity|exact B]. Qed.

(* and it deleted the remote-tracking branch origin/bugs/fix of the user *)
Lemma removeall_v1_refuted : exists s n, wf s /\ is_gbref n = false /\ has_ref n (refs s) = true /\
  snd (ent_remove_all_v1 (remotes s) KBug (refs s)) = OOk /\ has_ref n (fst (ent_remove_all_v1 (remotes s) KBug (refs s))) = false.
Proof. exists (with_refs s_demo ((mkrn KBug (Track 1%N) name_fix, 9%N) :: refs s_demo)), (mkrn KBug (Track 1%N) name_fix). split.
  - intros n h r H L. unfold s_demo in H. cbn [refs with_refs] in H.
    destruct H as [E|[E|[E|[E|[E|[E|[]]]]]]]; inversion E; subst; cbn in L; inversion L; left; reflexivity.
  - repeat split; vm_compute; reflexivity. Qed.

(* a BugCache / IdentityCache resolved before the removal of its entity wrote the ref again (and then reported
   "entity missing from cache"): after the next rebuild the removed entity was back *)
Definition stale_commit_v1 (k : kind) (i : id) (h : N) (s : st) : st := with_refs s (set_ref (mkrn k Local i) h (refs s)).
Lemma stale_commit_v1_refuted : exists s k i h, wf s /\ snd (cache_remove k i s) = OOk /\
  mem_ent (k, i) (map fst (exc (rebuild (fun _ _ c => c) (stale_commit_v1 k i h (fst (cache_remove k i s)))))) = true.
Proof. exists s_demo, KBug, id_ab, 2%N. split; [exact s_demo_wf|]. split; vm_compute; reflexivity. Qed.

(* the repaired RemoveAll on a repository holding both kinds of foreign names: it succeeds, the copy refs/bugs/old is
   gone with the bugs, the remote-tracking branch origin/bugs/fix is still there *)
Lemma s_demo2_removeall :
  has_ref (mkrn KBug Local name_old) (ent_remove_all (remotes s_demo2) KBug (refs s_demo2)) = false /\
  has_ref (mkrn KBug (Track 1%N) name_fix) (ent_remove_all (remotes s_demo2) KBug (refs s_demo2)) = true /\
  snd (ent_remove_all_v1 (remotes s_demo2) KBug (refs s_demo2)) = EOther.
Proof. repeat split; vm_compute; reflexivity. Qed.

(* ---- a removal while the holder of a handle commits (cache/subcache.go Remove / RemoveAll, cache/cached.go Commit) ----
   The entity's own lock makes `Commit` (test of the removed flag + write of the ref) and `setRemoved` atomic with
   respect to each other (Conc.v: C18_mutex); the deletion of the refs happens outside that lock, under the sub-cache
   lock only. Events of one removal and of any number of commits by holders of the loaded instance: *)
Inductive rev := RCommit | RSetRemoved | RDelRef.
Record rst := { r_ref : bool; r_removed : bool; r_acks : nat }.   (* the local ref exists; the flag; commits answered with success *)
Definition rstep (s : rst) (e : rev) : rst :=
  match e with
  | RCommit => if r_removed s then s                               (* ErrEntityRemoved before anything is written *)
               else {| r_ref := true; r_removed := false; r_acks := S (r_acks s) |}
  | RSetRemoved => {| r_ref := r_ref s; r_removed := true; r_acks := r_acks s |}
  | RDelRef => {| r_ref := false; r_removed := r_removed s; r_acks := r_acks s |}
  end.
Definition rrun (l : list rev) (s : rst) : rst := fold_left rstep l s.

Definition has_del (l : list rev) : bool := existsb (fun e => match e with RDelRef => true | _ => false end) l.
Lemma rrun_cons e l s : rrun (e :: l) s = rrun l (rstep s e).
Proof. reflexivity. Qed.
Lemma rrun_removed_sticky l s : r_removed s = true ->
  r_removed (rrun l s) = true /\ r_ref (rrun l s) = (if has_del l then false else r_ref s) /\ r_acks (rrun l s) = r_acks s.
Proof. revert s. induction l as [|e l IH]; intros s H; [cbn; auto|]. rewrite rrun_cons.
  destruct e.
  - unfold rstep. rewrite H. exact (IH s H).
  - exact (IH (rstep s RSetRemoved) eq_refl).
  - destruct (IH (rstep s RDelRef) H) as (A & B & C). split; [exact A|]. split; [|exact C].
    rewrite B. unfold has_del. cbn [existsb orb]. fold (has_del l). destruct (has_del l); reflexivity. Qed.

(* the order of the repaired code: the flag is set (under the entity lock) BEFORE the refs are deleted. Whatever commits
   run before, in between and after, and however often: the ref is gone at the end, stays gone, and no commit is
   acknowledged after the flag was set — the acknowledged ones all completed before the removal deleted the ref *)
Lemma remove_vs_commits before between after s :
  (forall e, In e (before ++ between ++ after) -> e = RCommit) ->
  let l := before ++ RSetRemoved :: between ++ RDelRef :: after in
  r_ref (rrun l s) = false /\ r_removed (rrun l s) = true /\ r_acks (rrun l s) = r_acks (rrun before s).
Proof. intros Hc l. subst l. unfold rrun at 1 2 3. rewrite fold_left_app. cbn [fold_left].
  fold (rrun before s). set (s1 := rrun before s).
  change (fold_left rstep (between ++ RDelRef :: after) (rstep s1 RSetRemoved)) with (rrun (between ++ RDelRef :: after) (rstep s1 RSetRemoved)).
  destruct (rrun_removed_sticky (between ++ RDelRef :: after) (rstep s1 RSetRemoved) eq_refl) as (A & B & C).
  split; [|split; [exact A|rewrite C; reflexivity]].
  rewrite B. unfold has_del. rewrite existsb_app. cbn [existsb]. rewrite orb_true_r. reflexivity. Qed.

(* the other order (refs deleted first, flag afterwards) lets a commit that is in flight write the entity back *)
Lemma remove_vs_commits_other_order_refuted :
  exists between, (forall e, In e between -> e = RCommit) /\
    r_ref (rrun (RDelRef :: between ++ [RSetRemoved]) {| r_ref := true; r_removed := false; r_acks := 0 |}) = true.
Proof. exists [RCommit]. split; [intros e [<-|[]]; reflexivity|reflexivity]. Qed.
