(* C12, command line part — `git-bug bug [flags] -- [QUERY...]` run as a process on a generated population:
   correspondence (QueryCli.cli_query + QueryEval.eval = what the command lists) and the property on the
   command's answer. *)
From Coq Require Import List Arith NArith Bool.
Import ListNotations.
From GB Require Export Query QueryRender QueryEval QueryCli K_C12e.
Local Open Scope N_scope.

Inductive cobs := CErr | CIds (l : list N).
(* c_strs: the argv elements as given to the process; they are the spellings of c_args *)
Record cinv := mkinv { c_args : list arg; c_strs : list str; c_flags : flags; c_obs : cobs }.
Record case := mkccase { c_idents : list ident; c_bugs : list rbug; c_invs : list cinv }.

Definition cpopulation (c : case) : list bug := map (resolve (c_idents c)) (c_bugs c).

(* same ids, same sequence of sort keys (the order among equal keys is free) *)
Definition ids_agree (bugs : list bug) (q : query) (l : list N) : bool :=
  match eval lower_rune q bugs with
  | None => false
  | Some r =>
      let m := map b_id r in
      same_set m l && Nat.eqb (length m) (length l) &&
      match keys_of (q_orderby q) bugs m, keys_of (q_orderby q) bugs l with
      | Some km, Some kl => list_eqb key_eqb km kl | _, _ => false end
  end.

Definition agrees_inv (bugs : list bug) (i : cinv) : bool :=
  list_eqb str_eqb (map arg_str (c_args i)) (c_strs i) &&
  match cli_query true (c_strs i) (c_flags i), c_obs i with
  | None, CErr => true
  | Some q, CIds l => ids_agree bugs q l
  | _, _ => false
  end.

Definition agrees (c : case) : bool := let bugs := cpopulation c in forallb (agrees_inv bugs) (c_invs c).

(* ---- the property on what the command listed ----
   Demanded only when every argv element is a piece of the documented language (verbatim, or one qualifier whose
   quotes the shell removed), together a well-formed query, and the flags are valid: the command lists exactly the
   bugs selected by the query the elements denote, extended by the filters of the flags; in the requested order
   when an order is requested (sort qualifier, --by or --direction; the flags win). *)
Definition order_requested (its : list item) (f : flags) : bool := sorted_of its || given (fl_by f) || given (fl_dir f).

Definition listing_ok (bugs : list bug) (q : query) (ordered : bool) (l : list N) : bool :=
  nodupb l &&
  forallb (fun b => Bool.eqb (selected lower_rune q b) (memN (b_id b) l)) bugs &&
  (if ordered then match bugs_of bugs l with Some r => sorted_by (ord (q_orderby q) (q_dir q)) r | None => false end else true).

Definition ok_inv (bugs : list bug) (i : cinv) : bool :=
  let its := flat_map arg_items (c_args i) in
  if forallb wf_arg (c_args i) && wf_items its then
    match complete true (denote its) (c_flags i) with
    | None => true
    | Some q => match c_obs i with
                | CIds l => listing_ok bugs q (order_requested its (c_flags i)) l
                | CErr => false
                end
    end
  else true.

Definition C12_ok (c : case) : bool := let bugs := cpopulation c in forallb (ok_inv bugs) (c_invs c).

Definition mismatches (cs : list case) : list nat := index_filter agrees 0 cs.
Definition failing (cs : list case) : list nat := index_filter C12_ok 0 cs.
(* per invocation that is not fine: (agrees, ok, the repaired query string, the model's query) *)
Definition explain (c : case) :=
  let bugs := cpopulation c in
  filter (fun x => negb (fst (fst (fst (snd x))) && snd (fst (fst (snd x)))))
    (combine (seq 0 (length (c_invs c)))
             (map (fun i => (agrees_inv bugs i, ok_inv bugs i, repair true (c_strs i),
                             option_map (fun q => (q_orderby q, q_dir q, q_meta q)) (cli_query true (c_strs i) (c_flags i)))) (c_invs c))).
