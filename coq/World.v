From Coq Require Import List Arith NArith Lia Bool.
Import ListNotations.
From GB Require Import Reach Sort Read Good Snoc.
Local Open Scope N_scope.

Definition edit_of (s : store) (i : nat) : N := match nth_error s i with Some c => p_edit (c_pack c) | None => 0 end.

Definition create_of (s : store) (i : nat) : N := match nth_error s i with Some c => p_create (c_pack c) | None => 0 end.

Record replica := { heads : list nat; clk : N; cclk : N }.
Record world := { st : store; eidf : nat -> nat; reps : list replica; budget : N (* number of clock increments so far *) }.

Definition set_nth {A} (n : nat) (x : A) (l : list A) : list A := firstn n l ++ x :: skipn (S n) l.
Definition replace_head (h h' : nat) (l : list nat) := map (fun x => if Nat.eqb x h then h' else x) l.

Definition mkpack (id au : N) (ops : list N) (e c : N) := {| p_id := id; p_author := au; p_ops := ops; p_edit := e; p_create := c |}.

Fixpoint maxl (l : list N) : N := match l with [] => 1 | x :: t => N.max x (maxl t) end.
Lemma maxl_ge l x : In x l -> x <= maxl l.
Proof. induction l as [|y t IH]; cbn [maxl In]; [intros []|]. intros [->|H]; [apply N.le_max_l|].
  specialize (IH H). pose proof (N.le_max_r y (maxl t)). lia. Qed.
Lemma maxl_le l b : 1 <= b -> (forall x, In x l -> x <= b) -> maxl l <= b.
Proof. intros H1. induction l as [|y t IH]; cbn [maxl]; intros H; [exact H1|]. assert (y <= b) by (apply H; now left).
  assert (maxl t <= b) by (apply IH; intros x Hx; apply H; now right). apply N.max_lub; assumption. Qed.

Inductive action :=
| ACreate (r : nat) (id au : N) (ops : list N)
| AEdit (r : nat) (h : nat) (id au : N) (ops : list N)
| AAdopt (r : nat) (t : nat)                (* merge scenario 1 / fast-forward target becomes a head *)
| AFF (r : nat) (h t : nat)                 (* scenario 4 *)
| AMerge (r : nat) (h t : nat) (id au : N)  (* scenario 5 *)
| AWitness (r : nat) (t : nat)              (* a read of the history headed by t: clocks are witnessed, refs untouched *)
| ARemove (r : nat) (h : nat)               (* the local ref of h is deleted *)
| AResetClock (r : nat).                    (* clock files lost; reopened with the clock loaders: rebuilt from the local refs *)

Definition step (w : world) (a : action) : option world :=
  let s := st w in let n := length s in
  match a with
  | ACreate r id au ops =>
    match nth_error (reps w) r with None => None | Some rp =>
      let e := clk rp + 1 in let c := cclk rp + 1 in
      Some {| st := s ++ [{| c_parents := []; c_pack := mkpack id au ops e c |}];
              eidf := upd (eidf w) n n;
              reps := set_nth r {| heads := heads rp ++ [n]; clk := e; cclk := c |} (reps w);
              budget := budget w + 1 |} end
  | AEdit r h id au ops =>
    match nth_error (reps w) r with None => None | Some rp =>
      if negb (existsb (Nat.eqb h) (heads rp)) then None else
      let e := clk rp + 1 in
      Some {| st := s ++ [{| c_parents := [h]; c_pack := mkpack id au ops e 0 |}];
              eidf := upd (eidf w) n (eidf w h);
              reps := set_nth r {| heads := replace_head h n (heads rp); clk := e; cclk := cclk rp |} (reps w);
              budget := budget w + 1 |} end
  | AAdopt r t =>
    match nth_error (reps w) r with None => None | Some rp =>
      if negb (Nat.ltb t n) then None else
      Some {| st := s; eidf := eidf w;
              reps := set_nth r {| heads := heads rp ++ [t]; clk := N.max (clk rp) (edit_of s t); cclk := N.max (cclk rp) (create_of s (eidf w t)) |} (reps w);
              budget := budget w |} end
  | AFF r h t =>
    match nth_error (reps w) r with None => None | Some rp =>
      if negb (Nat.ltb t n) then None else
      Some {| st := s; eidf := eidf w;
              reps := set_nth r {| heads := replace_head h t (heads rp); clk := N.max (clk rp) (edit_of s t); cclk := N.max (cclk rp) (create_of s (eidf w t)) |} (reps w);
              budget := budget w |} end
  | AMerge r h t id au =>
    match nth_error (reps w) r with None => None | Some rp =>
      if negb (existsb (Nat.eqb h) (heads rp) && Nat.ltb t n && Nat.eqb (eidf w t) (eidf w h) && negb (Nat.eqb h t)) then None else
      let e := N.max (clk rp) (edit_of s t) + 1 in
      Some {| st := s ++ [{| c_parents := [h; t]; c_pack := mkpack id au [] e 0 |}];
              eidf := upd (eidf w) n (eidf w h);
              reps := set_nth r {| heads := replace_head h n (heads rp); clk := e; cclk := N.max (cclk rp) (create_of s (eidf w t)) |} (reps w);
              budget := budget w + 1 |} end
  | AWitness r t =>
    match nth_error (reps w) r with None => None | Some rp =>
      if negb (Nat.ltb t n) then None else
      Some {| st := s; eidf := eidf w;
              reps := set_nth r {| heads := heads rp; clk := N.max (clk rp) (edit_of s t); cclk := N.max (cclk rp) (create_of s (eidf w t)) |} (reps w);
              budget := budget w |} end
  | ARemove r h =>
    match nth_error (reps w) r with None => None | Some rp =>
      Some {| st := s; eidf := eidf w;
              reps := set_nth r {| heads := filter (fun x => negb (Nat.eqb x h)) (heads rp); clk := clk rp; cclk := cclk rp |} (reps w);
              budget := budget w |} end
  | AResetClock r =>
    match nth_error (reps w) r with None => None | Some rp =>
      Some {| st := s; eidf := eidf w;
              reps := set_nth r {| heads := heads rp; clk := maxl (map (edit_of s) (heads rp));
                                   cclk := maxl (map (fun h => create_of s (eidf w h)) (heads rp)) |} (reps w);
              budget := budget w |} end
  end.

Definition inv (w : world) : Prop :=
  good_store (st w) (eidf w) /\
  (forall rp h, In rp (reps w) -> In h (heads rp) -> (h < length (st w))%nat /\ edit_of (st w) h <= clk rp) /\
  (forall i, (i < length (st w))%nat -> edit_of (st w) i <= budget w + 1) /\
  (forall rp, In rp (reps w) -> clk rp <= budget w + 1).

Definition w0 (nreps : nat) : world :=
  {| st := []; eidf := fun i => i; reps := repeat {| heads := []; clk := 1; cclk := 1 |} nreps; budget := 0 |}.

Lemma inv_w0 n : inv (w0 n).
Proof. unfold inv, w0; cbn. split; [|split; [|split]].
  - split; [intros i p Hp; unfold parents in Hp; destruct i; cbn in Hp; destruct Hp|intros i Hi; cbn in Hi; lia].
  - intros rp h Hr Hh. apply repeat_spec in Hr. subst. destruct Hh.
  - intros i Hi. lia.
  - intros rp Hr. apply repeat_spec in Hr. subst. cbn. lia. Qed.

(* ---------- helper lemmas ---------- *)
Lemma In_firstn' {A} n (l : list A) x : In x (firstn n l) -> In x l.
Proof. rewrite <- (firstn_skipn n l) at 2. intros H. apply in_or_app. now left. Qed.
Lemma In_skipn' {A} n (l : list A) x : In x (skipn n l) -> In x l.
Proof. rewrite <- (firstn_skipn n l) at 2. intros H. apply in_or_app. now right. Qed.
Lemma In_set_nth {A} r (y : A) l x : In x (set_nth r y l) -> x = y \/ In x l.
Proof. unfold set_nth. intros H. apply in_app_or in H as [H|[H|H]]; [right; eapply In_firstn'; eauto|left; now subst|right; eapply In_skipn'; eauto]. Qed.
Lemma In_replace_head h h' l x : In x (replace_head h h' l) -> x = h' \/ In x l.
Proof. unfold replace_head. intros H. apply in_map_iff in H as (y & E & Hy). destruct (Nat.eqb y h); subst; auto. Qed.
Lemma edit_of_app_old s c i : (i < length s)%nat -> edit_of (s ++ [c]) i = edit_of s i.
Proof. intros H. unfold edit_of. now rewrite nth_error_app1. Qed.
Lemma edit_of_app_new s c : edit_of (s ++ [c]) (length s) = p_edit (c_pack c).
Proof. unfold edit_of. rewrite nth_error_app2, Nat.sub_diag; [reflexivity|lia]. Qed.
Lemma existsb_eqb_In h l : existsb (Nat.eqb h) l = true -> In h l.
Proof. intros H. apply existsb_exists in H as (x & Hx & E). apply Nat.eqb_eq in E. now subst. Qed.
Lemma edit_of_nth s i : (i < length s)%nat -> exists c, nth_error s i = Some c /\ edit_of s i = p_edit (c_pack c).
Proof. intros H. unfold edit_of. destruct (nth_error s i) eqn:E; [eauto|]. apply nth_error_None in E. lia. Qed.

(* the three shapes of commit git-bug writes pass the per-commit check *)
Lemma check_root s id au ops e c : e <> 0 -> 0 < c ->
  check_commit (s ++ [{| c_parents := []; c_pack := mkpack id au ops e c |}]) (length s) = true.
Proof. intros He Hc. unfold check_commit. rewrite nth_error_app2, Nat.sub_diag by lia. cbn.
  apply N.eqb_neq in He. rewrite He. cbn. apply N.ltb_lt in Hc. now rewrite Hc. Qed.

Lemma check_child s h id au ops e : (h < length s)%nat -> edit_of s h < e -> e - edit_of s h <= jump_limit ->
  check_commit (s ++ [{| c_parents := [h]; c_pack := mkpack id au ops e 0 |}]) (length s) = true.
Proof. intros Hh Hlt Hj. unfold check_commit. rewrite nth_error_app2, Nat.sub_diag by lia. cbn.
  destruct (edit_of_nth s h Hh) as (ch & Hn & He). rewrite nth_error_app1, Hn by exact Hh. rewrite <- He.
  assert (e <> 0) by lia. apply N.eqb_neq in H. rewrite H. cbn.
  apply N.ltb_lt in Hlt. rewrite Hlt. apply N.leb_le in Hj. rewrite Hj. reflexivity. Qed.

Lemma check_merge s h t id au e : (h < length s)%nat -> (t < length s)%nat -> edit_of s h < e -> edit_of s t < e ->
  check_commit (s ++ [{| c_parents := [h; t]; c_pack := mkpack id au [] e 0 |}]) (length s) = true.
Proof. intros Hh Ht Hlh Hlt. unfold check_commit. rewrite nth_error_app2, Nat.sub_diag by lia. cbn.
  destruct (edit_of_nth s h Hh) as (ch & Hn & He). destruct (edit_of_nth s t Ht) as (ct & Hn' & He').
  rewrite !nth_error_app1, Hn, Hn' by assumption. rewrite <- He, <- He'.
  assert (e <> 0) by lia. apply N.eqb_neq in H. rewrite H. cbn.
  apply N.ltb_lt in Hlh, Hlt. now rewrite Hlh, Hlt. Qed.

Lemma length_snoc {A} (s : list A) c : length (s ++ [c]) = S (length s).
Proof. rewrite app_length. cbn. lia. Qed.

Ltac old_head Hh2 :=
  match goal with
  | Hold : (?h < length ?s)%nat |- _ => idtac
  end.

Theorem inv_step w a w' : inv w -> budget w + 2 <= jump_limit -> step w a = Some w' -> inv w'.
Proof.
  intros (G & Hh & Hb & Hc) Bud Hs. destruct a as [r id au ops|r h id au ops|r t|r h t|r h t id au|r t|r h|r]; cbn [step] in Hs;
  destruct (nth_error (reps w) r) as [rp|] eqn:Er; try discriminate; pose proof (nth_error_In _ _ Er) as Hrp;
  pose proof (Hc rp Hrp) as Hcr.
  - (* create *)
    inversion Hs; subst; clear Hs. unfold inv; cbn [st eidf reps budget]. split; [|split; [|split]].
    + apply good_snoc; [exact G|constructor|apply check_root; lia|reflexivity|intros p []].
    + intros rp' x Hin Hx. rewrite length_snoc. apply In_set_nth in Hin as [->|Hin]; cbn [heads clk] in *.
      * apply in_app_or in Hx as [Hx|[<-|[]]].
        -- destruct (Hh rp x Hrp Hx) as [L E]. split; [lia|]. rewrite edit_of_app_old by exact L. lia.
        -- split; [lia|]. rewrite edit_of_app_new. cbn. lia.
      * destruct (Hh rp' x Hin Hx) as [L E]. split; [lia|]. now rewrite edit_of_app_old.
    + intros i Hi. rewrite length_snoc in Hi. destruct (Nat.eq_dec i (length (st w))) as [->|].
      * rewrite edit_of_app_new. cbn. lia.
      * rewrite edit_of_app_old by lia. specialize (Hb i). lia.
    + intros rp' Hin. apply In_set_nth in Hin as [->|Hin]; cbn [clk]; [lia|]. specialize (Hc rp' Hin). lia.
  - (* edit *)
    destruct (existsb (Nat.eqb h) (heads rp)) eqn:Eh; cbn in Hs; [|discriminate].
    apply existsb_eqb_In in Eh. destruct (Hh rp h Hrp Eh) as [Lh Ehc].
    inversion Hs; subst; clear Hs. unfold inv; cbn [st eidf reps budget]. split; [|split; [|split]].
    + apply good_snoc; [exact G|constructor; [exact Lh|constructor]| |discriminate|intros p [<-|[]]; reflexivity].
      apply check_child; [exact Lh|lia|]. unfold jump_limit in *. lia.
    + intros rp' x Hin Hx. rewrite length_snoc. apply In_set_nth in Hin as [->|Hin]; cbn [heads clk] in *.
      * apply In_replace_head in Hx as [->|Hx].
        -- split; [lia|]. rewrite edit_of_app_new. cbn. lia.
        -- destruct (Hh rp x Hrp Hx) as [L E]. split; [lia|]. rewrite edit_of_app_old by exact L. lia.
      * destruct (Hh rp' x Hin Hx) as [L E]. split; [lia|]. now rewrite edit_of_app_old.
    + intros i Hi. rewrite length_snoc in Hi. destruct (Nat.eq_dec i (length (st w))) as [->|].
      * rewrite edit_of_app_new. cbn. lia.
      * rewrite edit_of_app_old by lia. specialize (Hb i). lia.
    + intros rp' Hin. apply In_set_nth in Hin as [->|Hin]; cbn [clk]; [lia|]. specialize (Hc rp' Hin). lia.
  - (* adopt *)
    destruct (Nat.ltb_spec t (length (st w))) as [Lt|]; cbn in Hs; [|discriminate].
    inversion Hs; subst; clear Hs. unfold inv; cbn [st eidf reps budget]. split; [exact G|split; [|split; [exact Hb|]]].
    + intros rp' x Hin Hx. apply In_set_nth in Hin as [->|Hin]; cbn [heads clk] in *; [|now apply Hh].
      apply in_app_or in Hx as [Hx|[<-|[]]]; [destruct (Hh rp x Hrp Hx); split; auto; lia|split; [exact Lt|lia]].
    + intros rp' Hin. apply In_set_nth in Hin as [->|Hin]; cbn [clk]; [|now apply Hc]. specialize (Hb t Lt). lia.
  - (* fast-forward *)
    destruct (Nat.ltb_spec t (length (st w))) as [Lt|]; cbn in Hs; [|discriminate].
    inversion Hs; subst; clear Hs. unfold inv; cbn [st eidf reps budget]. split; [exact G|split; [|split; [exact Hb|]]].
    + intros rp' x Hin Hx. apply In_set_nth in Hin as [->|Hin]; cbn [heads clk] in *; [|now apply Hh].
      apply In_replace_head in Hx as [->|Hx]; [split; [exact Lt|lia]|destruct (Hh rp x Hrp Hx); split; auto; lia].
    + intros rp' Hin. apply In_set_nth in Hin as [->|Hin]; cbn [clk]; [|now apply Hc]. specialize (Hb t Lt). lia.
  - (* merge commit *)
    destruct (existsb (Nat.eqb h) (heads rp) && Nat.ltb t (length (st w)) && Nat.eqb (eidf w t) (eidf w h) && negb (Nat.eqb h t)) eqn:Eg; cbn in Hs; [|discriminate].
    rewrite !andb_true_iff in Eg. destruct Eg as (((Eh & Lt) & Ee) & _).
    apply existsb_eqb_In in Eh. apply Nat.ltb_lt in Lt. apply Nat.eqb_eq in Ee. destruct (Hh rp h Hrp Eh) as [Lh Ehc].
    pose proof (Hb t Lt) as Hbt.
    inversion Hs; subst; clear Hs. unfold inv; cbn [st eidf reps budget]. split; [|split; [|split]].
    + apply good_snoc; [exact G|constructor; [exact Lh|constructor; [exact Lt|constructor]]| |discriminate|intros p [<-|[<-|[]]]; auto].
      apply check_merge; auto; lia.
    + intros rp' x Hin Hx. rewrite length_snoc. apply In_set_nth in Hin as [->|Hin]; cbn [heads clk] in *.
      * apply In_replace_head in Hx as [->|Hx].
        -- split; [lia|]. rewrite edit_of_app_new. cbn. lia.
        -- destruct (Hh rp x Hrp Hx) as [L E]. split; [lia|]. rewrite edit_of_app_old by exact L. lia.
      * destruct (Hh rp' x Hin Hx) as [L E]. split; [lia|]. now rewrite edit_of_app_old.
    + intros i Hi. rewrite length_snoc in Hi. destruct (Nat.eq_dec i (length (st w))) as [->|].
      * rewrite edit_of_app_new. cbn. lia.
      * rewrite edit_of_app_old by lia. specialize (Hb i). lia.
    + intros rp' Hin. apply In_set_nth in Hin as [->|Hin]; cbn [clk]; [lia|]. specialize (Hc rp' Hin). lia.
  - (* witness *)
    destruct (Nat.ltb_spec t (length (st w))) as [Lt|]; cbn in Hs; [|discriminate].
    inversion Hs; subst; clear Hs. unfold inv; cbn [st eidf reps budget]. split; [exact G|split; [|split; [exact Hb|]]].
    + intros rp' x Hin Hx. apply In_set_nth in Hin as [->|Hin]; cbn [heads clk] in *; [|now apply Hh].
      destruct (Hh rp x Hrp Hx); split; auto; lia.
    + intros rp' Hin. apply In_set_nth in Hin as [->|Hin]; cbn [clk]; [|now apply Hc]. specialize (Hb t Lt). lia.
  - (* remove *)
    inversion Hs; subst; clear Hs. unfold inv; cbn [st eidf reps budget]. split; [exact G|split; [|split; [exact Hb|]]].
    + intros rp' x Hin Hx. apply In_set_nth in Hin as [->|Hin]; cbn [heads clk] in *; [|now apply Hh].
      apply filter_In in Hx as [Hx _]. now apply Hh.
    + intros rp' Hin. apply In_set_nth in Hin as [->|Hin]; cbn [clk]; [|now apply Hc]. exact Hcr.
  - (* clocks rebuilt from the local refs *)
    inversion Hs; subst; clear Hs. unfold inv; cbn [st eidf reps budget]. split; [exact G|split; [|split; [exact Hb|]]].
    + intros rp' x Hin Hx. apply In_set_nth in Hin as [->|Hin]; cbn [heads clk] in *; [|now apply Hh].
      destruct (Hh rp x Hrp Hx) as [L _]. split; [exact L|]. apply maxl_ge. apply in_map. exact Hx.
    + intros rp' Hin. apply In_set_nth in Hin as [->|Hin]; cbn [clk]; [|now apply Hc].
      apply maxl_le; [lia|]. intros x Hx. apply in_map_iff in Hx as (h & <- & Hh'). destruct (Hh rp h Hrp Hh') as [L _].
      exact (Hb h L).
Qed.
Print Assumptions inv_step.

Fixpoint run (w : world) (acts : list action) : option world :=
  match acts with [] => Some w | a :: r => match step w a with Some w' => run w' r | None => None end end.

Lemma budget_step w a w' : step w a = Some w' -> budget w' <= budget w + 1.
Proof. destruct a; cbn [step]; destruct (nth_error (reps w) r); try discriminate;
  repeat match goal with |- context [if ?b then _ else _] => destruct b end; try discriminate; intros H; inversion H; cbn; lia. Qed.

Lemma run_inv : forall acts w w', inv w -> budget w + N.of_nat (length acts) + 1 <= jump_limit ->
  run w acts = Some w' -> inv w'.
Proof. induction acts as [|a r IH]; intros w w' I B H; cbn in H; [now inversion H; subst|].
  destruct (step w a) as [w1|] eqn:E; [|discriminate].
  apply (IH w1 w'); [eapply inv_step; eauto; cbn [length] in B; lia| |exact H].
  pose proof (budget_step _ _ _ E). cbn [length] in B. lia. Qed.

(* every commit ever written, on any replica, by any interleaving of fewer than 10^6 actions, heads a history read accepts *)
Theorem C01_reachable_valid n acts w : run (w0 n) acts = Some w -> N.of_nat (length acts) + 1 <= jump_limit ->
  forall h, (h < length (st w))%nat -> valid (st w) h = true.
Proof. intros H B h Hh. assert (I : inv w) by (eapply run_inv; [apply inv_w0| |exact H]; cbn; lia).
  destruct I as (G & _). eapply good_valid; eauto. Qed.
Print Assumptions C01_reachable_valid.

Lemma clock_dominates n acts w : run (w0 n) acts = Some w -> N.of_nat (length acts) + 1 <= jump_limit ->
  forall rp h, In rp (reps w) -> In h (heads rp) -> edit_of (st w) h <= clk rp.
Proof. intros H B rp h Hr Hh. assert (I : inv w) by (eapply run_inv; [apply inv_w0| |exact H]; cbn; lia).
  destruct I as (_ & I & _). now apply I. Qed.

(* non-vacuity: the C01 witness history (fork, 1 commit vs 3 commits, merge) is reachable and accepted *)
Example witness_run :
  exists w, run (w0 2) [ACreate 0 5 1 [100]; AAdopt 1 0; AEdit 0 0 9 1 [101];
                        AEdit 1 0 3 2 [201]; AEdit 1 2 4 2 [202]; AEdit 1 3 7 2 [203]; AMerge 1 4 1 1 2] = Some w
            /\ read (st w) 5 = Some [100; 201; 101; 202; 203].
Proof. eexists. split; vm_compute; reflexivity. Qed.
