(* 64-bit lamport clocks with the wrap written out, and the two rules of dag.read that a commit git-bug
   writes itself must satisfy to be read back (parent clock strictly smaller, non-merge jump <= 10^6). *)
From Coq Require Import NArith Lia Bool.
Local Open Scope N_scope.

Definition wrap : N := 18446744073709551616. (* 2^64 *)
Definition incr (c : N) : N := (c + 1) mod wrap.
Definition witness (c v : N) : N := N.max c v.
Definition jump_limit : N := 1000000.

(* the child commit written on top of a parent with edit time p, at clock value c *)
Definition child_edit (c : N) : N := incr c.
Definition readable (p e : N) : bool := negb (N.eqb e 0) && N.ltb p e && N.leb (e - p) jump_limit.

(* a replica whose own bug has edit time p accepts a root commit with clock v (valid by every rule of read),
   then edits its own bug *)
Definition after_forged_root (c p v : N) : N * bool :=
  let c' := witness c v in let e := child_edit c' in (e, readable p e).

(* as long as clocks stay within the jump limit of each other, what git-bug writes it can read back *)
Lemma write_readable c p : p <= c -> c - p < jump_limit -> c + 1 < wrap -> readable p (child_edit c) = true.
Proof. intros H1 H2 H3. unfold readable, child_edit, incr. rewrite N.mod_small by exact H3.
  apply andb_true_iff. split; [apply andb_true_iff; split|].
  - apply negb_true_iff, N.eqb_neq. lia.
  - apply N.ltb_lt. lia.
  - apply N.leb_le. unfold jump_limit in *. lia. Qed.

(* F-clock: a far-ahead root clock makes the next ordinary edit of an older bug unreadable *)
Lemma forged_jump_refuted : exists c p v, p <= c /\ snd (after_forged_root c p v) = false.
Proof. exists 3, 3, 5000000. split; [lia|reflexivity]. Qed.

(* the maximal value wraps the clock to zero: the next commit has edit time 0 and is refused *)
Lemma forged_wrap_refuted : exists c p, after_forged_root c p (wrap - 1) = (0, false).
Proof. exists 3, 3. reflexivity. Qed.

(* monotonicity holds exactly until the wrap *)
Lemma incr_monotone c : c + 1 < wrap -> c < incr c.
Proof. intros H. unfold incr. rewrite N.mod_small by exact H. lia. Qed.
Lemma witness_monotone c v : c <= witness c v /\ v <= witness c v.
Proof. unfold witness. split; [apply N.le_max_l|apply N.le_max_r]. Qed.
