(* C10 — cache part: at every commit point the snapshot the cache maintained incrementally equalled a
   compilation from scratch of the stored operations (the model side of this is theorem C10_incremental);
   k_resolve: on a REOPENED cache, before anything else touched the bug, every question
   ResolveOperationWithMetadata(key, value) got the answer read off a from-scratch compile of the stored
   operations (the metadata of an operation is a function of the operation sequence, not of whether this
   object has been compiled yet). *)
From Coq Require Import List Bool.
Import ListNotations.

Record case := mkcase10c { k_equal : list bool; k_resolve : list bool }.
Definition agrees (c : case) : bool := true.
Definition C10c_ok (c : case) : bool :=
  forallb (fun b => b) (k_equal c) && negb (match k_equal c with [] => true | _ => false end) &&
  forallb (fun b => b) (k_resolve c) && negb (match k_resolve c with [] => true | _ => false end).
Fixpoint index_filter {A} (f : A -> bool) (i : nat) (l : list A) : list nat :=
  match l with [] => [] | x :: t => if f x then index_filter f (S i) t else i :: index_filter f (S i) t end.
Definition mismatches (cs : list case) : list nat := index_filter agrees 0 cs.
Definition failing (cs : list case) : list nat := index_filter C10c_ok 0 cs.
