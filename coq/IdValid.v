(* Model of Identity.Validate (entities/identity/identity.go + version.go): per-version field rules and
   the chronology of the lamport clocks recorded in successive versions. *)
From Coq Require Import List Arith NArith Bool Lia.
Import ListNotations.
Local Open Scope N_scope.

Record version := { v_times : list (N * N) (* clock name, value *);
                    v_named : bool (* name or login is non-empty *);
                    v_safe : bool (* name, login, email are safe one-line texts *);
                    v_nonce : N (* nonce length *) }.

Definition tlookup (k : N) (m : list (N * N)) : option N := option_map snd (find (fun p => N.eqb (fst p) k) m).

Definition version_ok (v : version) : bool := v_named v && v_safe v && N.leb 20 (v_nonce v) && N.leb (v_nonce v) 64.

(* every clock seen so far is still present and has not decreased *)
Definition chrono_ok (last : list (N * N)) (v : version) : bool :=
  forallb (fun p => match tlookup (fst p) (v_times v) with Some now => N.leb (snd p) now | None => false end) last.

Definition upd_last (last : list (N * N)) (v : version) : list (N * N) :=
  fold_left (fun l p => (fst p, snd p) :: filter (fun q => negb (N.eqb (fst q) (fst p))) l) (v_times v) last.

Fixpoint validate_go (last : list (N * N)) (vs : list version) : bool :=
  match vs with
  | [] => true
  | v :: t => version_ok v && chrono_ok last v && validate_go (upd_last last v) t
  end.
Definition validate_identity (vs : list version) : bool :=
  match vs with [] => false | _ => validate_go [] vs end.

(* ---- rejection lemmas ---- *)
Lemma validate_go_app a b last : validate_go last (a ++ b) = true -> validate_go last a = true.
Proof. revert last. induction a as [|v t IH]; intros last H; cbn in *; [reflexivity|].
  apply andb_true_iff in H as [H1 H2]. rewrite H1. cbn. now apply IH. Qed.

Lemma reject_bad_version pre v post : version_ok v = false -> validate_identity (pre ++ v :: post) = false.
Proof. intros H. unfold validate_identity. destruct (pre ++ v :: post) eqn:E; [reflexivity|]. rewrite <- E. clear E.
  generalize (@nil (N * N)). induction pre as [|p t IH]; intros last; cbn; [now rewrite H|].
  destruct (version_ok p && chrono_ok last p); cbn; [apply IH|reflexivity]. Qed.

Lemma tlookup_upd_same last v k x : tlookup k (v_times v) = Some x -> exists y, tlookup k (upd_last last v) = Some y.
Proof. unfold upd_last. generalize last. induction (v_times v) as [|p t IH]; intros l H; [discriminate|].
  cbn [fold_left]. unfold tlookup in H. cbn in H. destruct (N.eqb_spec (fst p) k) as [E|E].
  - clear IH H. assert (G : exists y, tlookup k ((fst p, snd p) :: filter (fun q => negb (N.eqb (fst q) (fst p))) l) = Some y).
    { unfold tlookup. cbn. apply N.eqb_eq in E. rewrite E. eexists; reflexivity. }
    revert G. generalize ((fst p, snd p) :: filter (fun q => negb (N.eqb (fst q) (fst p))) l).
    induction t as [|q t IHt]; intros l0 G; cbn [fold_left]; [exact G|]. apply IHt.
    destruct G as [y G]. unfold tlookup in *. cbn. destruct (N.eqb_spec (fst q) k); [eexists; reflexivity|].
    assert (F : find (fun p0 => N.eqb (fst p0) k) (filter (fun q0 => negb (N.eqb (fst q0) (fst q))) l0) = find (fun p0 => N.eqb (fst p0) k) l0).
    { clear G. induction l0 as [|z l0 IHl]; cbn; [reflexivity|]. destruct (N.eqb_spec (fst z) (fst q)); cbn.
      - destruct (N.eqb_spec (fst z) k); [congruence|exact IHl].
      - destruct (N.eqb (fst z) k); [reflexivity|exact IHl]. }
    rewrite F. eauto.
  - apply IH. exact H. Qed.

(* a version that drops a clock recorded by the previous version is refused *)
Lemma reject_dropped_clock v1 v2 k x rest :
  tlookup k (v_times v1) = Some x -> tlookup k (v_times v2) = None -> validate_identity (v1 :: v2 :: rest) = false.
Proof. intros H1 H2. unfold validate_identity. cbn [validate_go].
  destruct (tlookup_upd_same [] v1 k x H1) as [y Hy].
  assert (C : chrono_ok (upd_last [] v1) v2 = false).
  { unfold chrono_ok. apply not_true_is_false. intros F. rewrite forallb_forall in F.
    unfold tlookup in Hy. destruct (find (fun p => N.eqb (fst p) k) (upd_last [] v1)) as [p|] eqn:Ef; [|discriminate].
    apply find_some in Ef as [Hin Hk]. specialize (F p Hin). apply N.eqb_eq in Hk. rewrite Hk, H2 in F. discriminate. }
  rewrite C. rewrite andb_false_r. cbn. apply andb_false_r. Qed.
